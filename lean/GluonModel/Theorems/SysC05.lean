/-
C05 at SYSTEM level — no EXPUNGE while answering FETCH / STORE / SEARCH / COPY; every removal is held back, in order,
and announced by the next command that permits it; `[EXPUNGEISSUED]` iff removals are held back — for the whole
multi-session system (Model/System.lean; see Theorems/SysC02.lean for the model and the invariant `SysInv`).

The session-level theorems of Theorems/C05.lean speak about ONE queue of responders.  What they cannot see is whether
the `expunge` responder of a removal ever REACHES that queue: the update filters
(`MessageAndMBoxIDStateFilter` → `State.hasMessageOrPendingExists`, evaluated by the receiving session when it takes
the update from its queue) may drop it.  `removal_reaches_queue_partial` closes that gap: along every `NoOvertake`
trace, the removal of a message a session knows — in its snapshot, or announced by an EXISTS that is applied or still
queued, e.g. held back behind a re-add by a non-permitting flush — is in that session's queue.  Evaluating the filter
anywhere else (at the sender, at enqueue time) or against anything less than snapshot + every queued EXISTS contradicts
it; the `sys` correspondence and `judge-c05-sys` check the implementation against it.
-/
import GluonModel.Lemmas.SysHeld

namespace Gluon.C05Sys

open Gluon Gluon.Sys

/-- **No EXPUNGE while answering a command that does not permit it** — in EVERY system state (no invariant, any
    schedule, overtaking included) the answer to a FETCH-class command (`flush i false`), a STORE or a COPY of any
    session contains no untagged EXPUNGE. -/
theorem no_expunge_without_permission (s : Sys) (op : SysOp) (hop : op.NonPermitting) :
    ∀ x ∈ (step s op).2.resps, x.isExpunge = false := step_nonPermitting_noexp s op hop

/-- … nor does the answer to a command that is refused (BAD / NO): only the trailing non-permitting flush runs. -/
theorem no_expunge_when_refused (s : Sys) (i : Nat) (c : Cmd) (h : (step s (.cmd i c)).2.status = .refused) :
    ∀ x ∈ (step s (.cmd i c)).2.resps, x.isExpunge = false := step_refused_noexp s i c h

/-- **Removals are held back in order** — a FETCH-class command of session `i` keeps every `expunge` responder of the
    session, in queue order (every state). -/
theorem removals_held_back_in_order (s : Sys) {i : Nat} {me : Sys.Sess} {mb : Nat} (hi : s.sess[i]? = some me)
    (hs : me.sel = some mb) :
    ∃ me', (step s (.flush i false)).1.sess[i]? = some me' ∧
      me'.res.filter (·.isExpunge) = me.res.filter (·.isExpunge) ∧
      expungeIssued me'.res = me.res.any (·.isExpunge) := by
  rw [step_flush_sel hi hs]
  refine ⟨(me.flush (sidOf i) false).1, setSess_self hi _, ?_, ?_⟩
  · exact C05.flush_false_retains_expunges false (sidOf i) me.snap me.res
  · exact C05.expungeIssued_iff false (sidOf i) me.snap me.res

/-- **A removal reaches the queue** (in a state satisfying the system invariant) — if session `j` knows message `id` (it
    is in its snapshot, or an EXISTS for it has been applied or is still queued) and the authoritative mailbox no
    longer holds it, the `expunge id` responder is among the session's responders or among those its update queue
    will contribute: the removal cannot have been filtered out. -/
theorem removal_reaches_queue {s : Sys} (h : SysInv s) {j : Nat} {me : Sys.Sess} {mb : Nat}
    (hj : s.sess[j]? = some me) (hs : me.sel = some mb) {id : MsgId}
    (hknown : me.snap.has id = true ∨ ∃ r ∈ me.res ++ pendOf (sidOf j) mb me.inbox, r.isExists = true ∧ r.msgId = id)
    (hgone : id ∉ (s.idx.view mb).ids) : Responder.expunge id ∈ me.res ++ pendOf (sidOf j) mb me.inbox :=
  removal_queued h hj hs hknown hgone

/-- **… along every trace** (partial: `NoOvertake`) — from the initial state, after any well-formed trace of commands
    of any sessions, connector changes, drains, flushes (either `permitExpunge`, placed anywhere), selects and
    unselects. -/
theorem removal_reaches_queue_partial (nsess nbox : Nat) (ops : List SysOp) (hv : ∀ op ∈ ops, op.Valid)
    (hno : NoOvertake (Sys.init nsess nbox) ops) {j : Nat} {me : Sys.Sess} {mb : Nat}
    (hj : (exec (Sys.init nsess nbox) ops).sess[j]? = some me) (hs : me.sel = some mb) {id : MsgId}
    (hknown : me.snap.has id = true ∨ ∃ r ∈ me.res ++ pendOf (sidOf j) mb me.inbox, r.isExists = true ∧ r.msgId = id)
    (hgone : id ∉ ((exec (Sys.init nsess nbox) ops).idx.view mb).ids) :
    Responder.expunge id ∈ me.res ++ pendOf (sidOf j) mb me.inbox :=
  removal_queued (exec_inv (init_inv nsess nbox) ops hv hno) hj hs hknown hgone

/-- **The next permitting command announces every removal** (in a state satisfying the invariant) — once session `i` has
    taken everything addressed to its mailbox from its update queue, a command that permits EXPUNGE (NOOP, CHECK,
    EXPUNGE, MOVE, …) empties the session's queue, does not fail, and leaves a snapshot that shows exactly the messages
    the authoritative mailbox holds: no message whose removal was held back is still shown. -/
theorem next_permitting_command_announces {s : Sys} (h : SysInv s) {i : Nat} {me : Sys.Sess} {mb : Nat}
    (hi : s.sess[i]? = some me) (hs : me.sel = some mb) (hq : pendOf (sidOf i) mb me.inbox = []) :
    SameView (me.flush (sidOf i) true).1.snap (s.idx.view mb) ∧ (me.flush (sidOf i) true).1.res = [] ∧
    ∀ e, (me.flush (sidOf i) true).2 ≠ .err e := by
  have hsi := h.sess i me hi
  unfold SessInv at hsi
  rw [hs] at hsi
  obtain ⟨_, hh, _⟩ := hsi
  unfold Sess.virt at hh
  rw [hq, List.append_nil] at hh
  exact C02.flush_true_converges hh.conv

/-! ### Non-vacuity -/

namespace Ex
/-- session 1 appends message 1 and copies it onto the mailbox (removal + re-add, UID 2); the connector creates message
    2 (UID 3); session 0 answers a FETCH: the removal, the re-add AND the new message's EXISTS are held back; the
    connector removes message 2; session 0 takes the update from its queue -/
def ops : List SysOp :=
  [ .select 0 0, .select 1 0, .cmd 1 (.append 0 []), .drain 0 9, .flush 0 true, .flush 1 true,
    .cmd 1 (.copy [1] 0), .conn (.create 0 []), .drain 0 9, .flush 0 false, .conn (.boxes 2 []), .drain 0 9 ]
end Ex

/-- the trace is inside the hypotheses; session 0 still shows the old instance of message 1 and holds back
    `expunge 1, exists 1 (UID 2), exists 2 (UID 3)`; message 2 — known to session 0 only through the held-back EXISTS —
    is gone from the mailbox, and `removal_reaches_queue_partial` applies: its removal is queued behind them -/
example :
    (∀ op ∈ Ex.ops, op.Valid) ∧ NoOvertake (Sys.init 2 2) Ex.ops ∧
    ((exec (Sys.init 2 2) Ex.ops).sess[0]?).map (fun me => (me.snap.map (·.id), me.res, me.inbox.length)) =
      some ([1], [.expunge 1, .exists 1 2 [] 2 (some 2), .exists 2 3 [] 0 none, .expunge 2], 0) ∧
    ((exec (Sys.init 2 2) Ex.ops).idx.view 0).ids = [1] := by
  decide

example : ∀ (me : Sys.Sess), (exec (Sys.init 2 2) Ex.ops).sess[0]? = some me → me.sel = some 0 →
    (∃ r ∈ me.res ++ pendOf (sidOf 0) 0 me.inbox, r.isExists = true ∧ r.msgId = 2) →
    Responder.expunge 2 ∈ me.res ++ pendOf (sidOf 0) 0 me.inbox :=
  fun me hi hs hk => removal_reaches_queue_partial 2 2 Ex.ops (by decide) (by decide) hi hs (Or.inr hk) (by decide)

/-- `no_expunge_without_permission` at work: session 0's FETCH (op 9) answers nothing although a removal is queued,
    and its tagged completion says `[EXPUNGEISSUED]` (`removals_held_back_in_order`) -/
example :
    (Sys.run (Sys.init 2 2) Ex.ops).2.map (·.resps) =
      [[.exists 0], [.exists 0], [.exists 1], [], [.exists 1], [], [], [], [], [], [], []] ∧
    ((exec (Sys.init 2 2) (Ex.ops.take 10)).sess[0]?).map (fun me => expungeIssued me.res) = some true := by
  decide

end Gluon.C05Sys
