/-
C05 at SYSTEM level — no EXPUNGE while answering FETCH / STORE / SEARCH / COPY; every removal is held back, in order,
and announced by the next command that permits it; `[EXPUNGEISSUED]` iff removals are held back — for the whole
multi-session system (Model/System.lean; see Theorems/SysC02.lean for the model and the invariant `SysInv`).

The session-level theorems of Theorems/C05.lean speak about ONE queue of responders.  What they cannot see is whether
the `expunge` responder of a removal ever REACHES that queue: the update filters
(`MessageAndMBoxIDStateFilter` → `State.hasMessageOrPendingExists`, evaluated by the receiving session when it takes
the update from its queue) may drop it.  `removal_reaches_queue_partial` closes that gap: along every `NoOvertake`
trace, the removal of a message a session knows — in its snapshot, or announced by an EXISTS that is applied or still
queued, e.g. held back behind a re-add by a non-permitting flush — is in that session's queue.  Evaluating the filter
anywhere else (at the sender, at enqueue time) or against anything less than snapshot + every queued EXISTS contradicts
it; the `sys` correspondence and `judge-c05-sys` check the implementation against it.
-/
import GluonModel.Lemmas.SysClose

namespace Gluon.C05Sys

open Gluon Gluon.Sys

/-- **No EXPUNGE while answering a command that does not permit it** — in EVERY system state (no invariant, any
    schedule, overtaking included) the answer to a FETCH-class command (`flush i false`), a STORE or a COPY of any
    session contains no untagged EXPUNGE. -/
theorem no_expunge_without_permission (s : Sys) (op : SysOp) (hop : op.NonPermitting) :
    ∀ x ∈ (step s op).2.resps, x.isExpunge = false := step_nonPermitting_noexp s op hop

/-- … nor does the answer to a command that is refused (BAD / NO): only the trailing non-permitting flush runs. -/
theorem no_expunge_when_refused (s : Sys) (i : Nat) (c : Cmd) (h : (step s (.cmd i c)).2.status = .refused) :
    ∀ x ∈ (step s (.cmd i c)).2.resps, x.isExpunge = false := step_refused_noexp s i c h

/-- **Removals are held back in order** — a FETCH-class command of session `i` keeps every `expunge` responder of the
    session, in queue order (every state). -/
theorem removals_held_back_in_order (s : Sys) {i : Nat} {me : Sys.Sess} {mb : Nat} (hi : s.sess[i]? = some me)
    (hs : me.sel = some mb) :
    ∃ me', (step s (.flush i false)).1.sess[i]? = some me' ∧
      me'.res.filter (·.isExpunge) = me.res.filter (·.isExpunge) ∧
      expungeIssued me'.res = me.res.any (·.isExpunge) := by
  rw [step_flush_sel hi hs]
  refine ⟨(me.flush (sidOf i) false).1, setSess_self hi _, ?_, ?_⟩
  · exact C05.flush_false_retains_expunges false (sidOf i) me.snap me.res
  · exact C05.expungeIssued_iff false (sidOf i) me.snap me.res

/-- **A removal reaches the queue** (in a state satisfying the system invariant) — if session `j` knows message `id` (it
    is in its snapshot, or an EXISTS for it has been applied or is still queued) and the authoritative mailbox no
    longer holds it, the `expunge id` responder is among the session's responders or among those its update queue
    will contribute: the removal cannot have been filtered out. -/
theorem removal_reaches_queue {s : Sys} (h : SysInv s) {j : Nat} {me : Sys.Sess} {mb : Nat}
    (hj : s.sess[j]? = some me) (hs : me.sel = some mb) {id : MsgId}
    (hknown : me.snap.has id = true ∨ ∃ r ∈ me.res ++ pendOf (sidOf j) mb me.inbox, r.isExists = true ∧ r.msgId = id)
    (hgone : id ∉ (s.idx.view mb).ids) : Responder.expunge id ∈ me.res ++ pendOf (sidOf j) mb me.inbox :=
  removal_queued h hj hs hknown hgone

/-- **… along every trace** (partial: `NoOvertake`) — from the initial state, after any well-formed trace of commands
    of any sessions, connector changes, drains, flushes (either `permitExpunge`, placed anywhere), selects and
    unselects. -/
theorem removal_reaches_queue_partial (nsess nbox : Nat) (ops : List SysOp) (hv : ∀ op ∈ ops, op.Valid)
    (hno : NoOvertake (Sys.init nsess nbox) ops) {j : Nat} {me : Sys.Sess} {mb : Nat}
    (hj : (exec (Sys.init nsess nbox) ops).sess[j]? = some me) (hs : me.sel = some mb) {id : MsgId}
    (hknown : me.snap.has id = true ∨ ∃ r ∈ me.res ++ pendOf (sidOf j) mb me.inbox, r.isExists = true ∧ r.msgId = id)
    (hgone : id ∉ ((exec (Sys.init nsess nbox) ops).idx.view mb).ids) :
    Responder.expunge id ∈ me.res ++ pendOf (sidOf j) mb me.inbox :=
  removal_queued (exec_inv (init_inv nsess nbox) ops hv hno) hj hs hknown hgone

/-- **The next permitting command announces every removal** (in a state satisfying the invariant) — once session `i` has
    taken everything addressed to its mailbox from its update queue, a command that permits EXPUNGE (NOOP, CHECK,
    EXPUNGE, MOVE, …) empties the session's queue, does not fail, and leaves a snapshot that shows exactly the messages
    the authoritative mailbox holds: no message whose removal was held back is still shown. -/
theorem next_permitting_command_announces {s : Sys} (h : SysInv s) {i : Nat} {me : Sys.Sess} {mb : Nat}
    (hi : s.sess[i]? = some me) (hs : me.sel = some mb) (hq : pendOf (sidOf i) mb me.inbox = []) :
    SameView (me.flush (sidOf i) true).1.snap (s.idx.view mb) ∧ (me.flush (sidOf i) true).1.res = [] ∧
    ∀ e, (me.flush (sidOf i) true).2 ≠ .err e := by
  have hsi := h.sess i me hi
  unfold SessInv at hsi
  rw [hs] at hsi
  obtain ⟨_, hh, _⟩ := hsi
  unfold Sess.virt at hh
  rw [hq, List.append_nil] at hh
  exact C02.flush_true_converges hh.conv

/-! ### The connector deletes a message (`imap.MessageDeleted`, `applyMessageDeleted`; `ConnOp.delete`) -/

/-- **After the connector's `MessageDeleted` no mailbox holds the message** — in EVERY system state: whatever mailboxes
    held message `id` (one, two, all), after the step the authoritative view of every mailbox — what a newly opened
    session sees — is without it. -/
theorem connector_delete_leaves_every_mailbox (s : Sys) (id : MsgId) (hid : id < s.idx.nextId) (mb : Nat) :
    id ∉ ((step s (.conn (.delete id))).1.idx.view mb).ids := by
  rw [step_conn]
  exact delete_view s.idx id hid mb

/-- **The deletion reaches every session that knows the message** (in a state satisfying the system invariant) — right
    after the connector's `MessageDeleted`, every session that has message `id` in its snapshot — or knows it only
    through an EXISTS that is applied or still queued — has the `expunge id` responder among its responders or among
    those its update queue will contribute: the update filter (`MessageAndMBoxIDStateFilter`) cannot drop it. -/
theorem connector_delete_reaches_queue {s : Sys} (h : SysInv s) (id : MsgId) (hid : id < s.idx.nextId) {j : Nat}
    {me : Sys.Sess} {mb : Nat} (hj : (step s (.conn (.delete id))).1.sess[j]? = some me) (hs : me.sel = some mb)
    (hknown : me.snap.has id = true ∨ ∃ r ∈ me.res ++ pendOf (sidOf j) mb me.inbox, r.isExists = true ∧ r.msgId = id) :
    Responder.expunge id ∈ me.res ++ pendOf (sidOf j) mb me.inbox :=
  removal_queued (step_inv h (.conn (.delete id)) trivial trivial) hj hs hknown
    (connector_delete_leaves_every_mailbox s id hid mb)

/-- **Delivered and flushed with permission, the deleted message is gone from the session's view** (invariant) — the
    connector deletes message `id`, session `i` takes `k` updates from its queue; if nothing addressed to its mailbox
    is left in the queue, the next command that permits EXPUNGE (NOOP, …) does not fail, empties the session's queue of
    responders and leaves a snapshot that does not contain `id`. -/
theorem connector_delete_announced {s : Sys} (h : SysInv s) (id : MsgId) (hid : id < s.idx.nextId) (i k : Nat)
    {me : Sys.Sess} {mb : Nat} (hi : (exec s [.conn (.delete id), .drain i k]).sess[i]? = some me)
    (hs : me.sel = some mb) (hq : pendOf (sidOf i) mb me.inbox = []) :
    (me.flush (sidOf i) true).1.snap.has id = false ∧ (me.flush (sidOf i) true).1.res = [] ∧
    ∀ e, (me.flush (sidOf i) true).2 ≠ .err e := by
  have hinv : SysInv (exec s [.conn (.delete id), .drain i k]) :=
    exec_inv h _ (by intro op hop; simp at hop; rcases hop with rfl | rfl <;> trivial) ⟨trivial, trivial, trivial⟩
  obtain ⟨hv, hr, he⟩ := next_permitting_command_announces hinv hi hs hq
  refine ⟨?_, hr, he⟩
  have hidx : (exec s [.conn (.delete id), .drain i k]).idx = (connEffect s.idx (.delete id)).1 := by
    rw [exec_cons, exec_cons, exec_nil, step_drain_idx, step_conn]
  rw [hidx] at hv
  cases hh : (me.flush (sidOf i) true).1.snap.has id with
  | false => rfl
  | true => exact absurd ((sameView_has hv id).mp hh) (delete_view s.idx id hid mb)

/-- **Without permission the deletion is not announced** — in EVERY system state (no invariant, any schedule) in which
    the `expunge id` responder of the deletion has been applied by session `i`: a FETCH-class command answers no
    untagged EXPUNGE, the responder stays in the session's queue, and the tagged completion carries
    `[EXPUNGEISSUED]`. -/
theorem connector_delete_held_back_without_permission (s : Sys) {i : Nat} {me : Sys.Sess} {mb : Nat}
    (hi : s.sess[i]? = some me) (hs : me.sel = some mb) (id : MsgId) (hm : Responder.expunge id ∈ me.res) :
    (∀ x ∈ (step s (.flush i false)).2.resps, x.isExpunge = false) ∧
    ∃ me', (step s (.flush i false)).1.sess[i]? = some me' ∧ Responder.expunge id ∈ me'.res ∧
      expungeIssued me'.res = true := by
  refine ⟨no_expunge_without_permission s (.flush i false) rfl, ?_⟩
  obtain ⟨me', h1, h2, h3⟩ := removals_held_back_in_order s hi hs
  refine ⟨me', h1, ?_, ?_⟩
  · have : Responder.expunge id ∈ me.res.filter (·.isExpunge) := List.mem_filter.mpr ⟨hm, rfl⟩
    rw [← h2] at this
    exact (List.mem_filter.mp this).1
  · rw [h3, List.any_eq_true]
    exact ⟨_, hm, rfl⟩

/-! ### CLOSE (`handleClose`; `SysOp.close`) -/

/-- **CLOSE is silent** — in EVERY system state (no invariant, any schedule): whatever the closing session expunges
    and whatever removals it was holding back, the answer to its CLOSE contains no untagged EXPUNGE. -/
theorem close_is_silent (s : Sys) (i : Nat) : ∀ x ∈ (step s (.close i)).2.resps, x.isExpunge = false :=
  step_close_noexp s i

/-- **CLOSE writes what EXPUNGE writes** — in EVERY system state: the index after `CLOSE` of session `i` is the index
    after its `EXPUNGE`, and every other session is left as that EXPUNGE leaves it (the same removals queued): the
    statements about EXPUNGE (Theorems/SysC03.lean) carry over, and the other sessions' clients are told the removals
    by their own next permitting command (`removal_reaches_queue`, `next_permitting_command_announces`). -/
theorem close_writes_what_expunge_writes (s : Sys) (i : Nat) :
    (step s (.close i)).1.idx = (step s (.cmd i .expunge)).1.idx ∧
    ∀ j, j ≠ i → (step s (.close i)).1.sess[j]? = (step s (.cmd i .expunge)).1.sess[j]? := step_close_idx s i

/-- **CLOSE succeeds and unselects** (in a state satisfying the invariant; partial: `OpNoOvertake`, i.e. nothing
    addressed to the session's mailbox is still in its update queue, or it expunges nothing) — the flush inside CLOSE
    does not fail, the answer is OK without any untagged response, and the session is left with no mailbox, an empty
    snapshot and no responders; its update queue is NOT dropped. -/
theorem close_unselects_partial {s : Sys} (h : SysInv s) {i : Nat} (hno : OpNoOvertake s (.close i)) {me : Sys.Sess}
    {mb : Nat} (hi : s.sess[i]? = some me) (hs : me.sel = some mb) :
    (step s (.close i)).2 = {} ∧
    (step s (.close i)).1.sess[i]? = some { sel := none, snap := [], res := [], inbox := me.inbox } :=
  step_close_ok h hno hi hs

/-- **A removal made by CLOSE reaches every observer** (invariant; partial: `OpNoOvertake`) — after session `i` closed
    its mailbox, every session that knows a message the mailbox no longer holds has the `expunge` responder among its
    responders or among those its update queue will contribute. -/
theorem close_removal_reaches_queue_partial {s : Sys} (h : SysInv s) (i : Nat) (hno : OpNoOvertake s (.close i))
    {j : Nat} {me : Sys.Sess} {mb : Nat} (hj : (step s (.close i)).1.sess[j]? = some me) (hs : me.sel = some mb)
    {id : MsgId}
    (hknown : me.snap.has id = true ∨ ∃ r ∈ me.res ++ pendOf (sidOf j) mb me.inbox, r.isExists = true ∧ r.msgId = id)
    (hgone : id ∉ ((step s (.close i)).1.idx.view mb).ids) :
    Responder.expunge id ∈ me.res ++ pendOf (sidOf j) mb me.inbox :=
  removal_queued (step_inv h (.close i) trivial hno) hj hs hknown hgone

/-! ### Non-vacuity -/

namespace Ex
/-- session 1 appends message 1 and copies it onto the mailbox (removal + re-add, UID 2); the connector creates message
    2 (UID 3); session 0 answers a FETCH: the removal, the re-add AND the new message's EXISTS are held back; the
    connector removes message 2; session 0 takes the update from its queue -/
def ops : List SysOp :=
  [ .select 0 0, .select 1 0, .cmd 1 (.append 0 []), .drain 0 9, .flush 0 true, .flush 1 true,
    .cmd 1 (.copy [1] 0), .conn (.create 0 []), .drain 0 9, .flush 0 false, .conn (.boxes 2 []), .drain 0 9 ]
end Ex

/-- the trace is inside the hypotheses; session 0 still shows the old instance of message 1 and holds back
    `expunge 1, exists 1 (UID 2), exists 2 (UID 3)`; message 2 — known to session 0 only through the held-back EXISTS —
    is gone from the mailbox, and `removal_reaches_queue_partial` applies: its removal is queued behind them -/
example :
    (∀ op ∈ Ex.ops, op.Valid) ∧ NoOvertake (Sys.init 2 2) Ex.ops ∧
    ((exec (Sys.init 2 2) Ex.ops).sess[0]?).map (fun me => (me.snap.map (·.id), me.res, me.inbox.length)) =
      some ([1], [.expunge 1, .exists 1 2 [] 2 (some 2), .exists 2 3 [] 0 none, .expunge 2], 0) ∧
    ((exec (Sys.init 2 2) Ex.ops).idx.view 0).ids = [1] := by
  decide

example : ∀ (me : Sys.Sess), (exec (Sys.init 2 2) Ex.ops).sess[0]? = some me → me.sel = some 0 →
    (∃ r ∈ me.res ++ pendOf (sidOf 0) 0 me.inbox, r.isExists = true ∧ r.msgId = 2) →
    Responder.expunge 2 ∈ me.res ++ pendOf (sidOf 0) 0 me.inbox :=
  fun me hi hs hk => removal_reaches_queue_partial 2 2 Ex.ops (by decide) (by decide) hi hs (Or.inr hk) (by decide)

/-- `no_expunge_without_permission` at work: session 0's FETCH (op 9) answers nothing although a removal is queued,
    and its tagged completion says `[EXPUNGEISSUED]` (`removals_held_back_in_order`) -/
example :
    (Sys.run (Sys.init 2 2) Ex.ops).2.map (·.resps) =
      [[.exists 0], [.exists 0], [.exists 1], [], [.exists 1], [], [], [], [], [], [], []] ∧
    ((exec (Sys.init 2 2) (Ex.ops.take 10)).sess[0]?).map (fun me => expungeIssued me.res) = some true := by
  decide

namespace ExDel
/-- session 0 has mailbox 0 selected, session 1 mailbox 1; the connector creates message 1 in mailbox 0 and puts it
    into mailbox 1 as well; both sessions show it; the connector deletes it; session 0 takes the update, answers a
    FETCH, then a NOOP; session 1 leaves the update in its queue -/
def ops : List SysOp :=
  [ .select 0 0, .select 1 1, .conn (.create 0 []), .conn (.boxes 1 [0, 1]), .drain 0 9, .drain 1 9, .flush 0 true,
    .flush 1 true, .conn (.delete 1), .drain 0 9, .flush 0 false, .flush 0 true ]
end ExDel

/-- the trace is inside the hypotheses; message 1 is in two mailboxes when it is deleted and in none afterwards
    (`connector_delete_leaves_every_mailbox`); the FETCH announces nothing and keeps the removal
    (`connector_delete_held_back_without_permission`), the NOOP announces `1 EXPUNGE` and session 0's view is empty
    (`connector_delete_announced`); session 1, which shows the message, has the removal queued
    (`connector_delete_reaches_queue`) -/
example :
    (∀ op ∈ ExDel.ops, op.Valid) ∧ NoOvertake (Sys.init 2 2) ExDel.ops ∧
    ((exec (Sys.init 2 2) (ExDel.ops.take 8)).idx.boxesOf 1) = [0, 1] ∧
    ((exec (Sys.init 2 2) (ExDel.ops.take 9)).idx.boxesOf 1) = [] ∧
    (Sys.run (Sys.init 2 2) ExDel.ops).2.map (·.resps) =
      [[.exists 0], [.exists 0], [], [], [], [], [.exists 1], [.exists 1], [], [], [], [.expunge 1]] ∧
    ((exec (Sys.init 2 2) (ExDel.ops.take 11)).sess.map fun me => (me.snap.map (·.id), me.res, me.inbox)) =
      [([1], [.expunge 1], []), ([1], [], [.expunge 0 1, .expunge 1 1])] ∧
    ((exec (Sys.init 2 2) ExDel.ops).sess.map fun me => (me.snap.map (·.id), me.res, me.inbox)) =
      [([], [], []), ([1], [], [.expunge 0 1, .expunge 1 1])] := by
  decide

example : ∀ (me : Sys.Sess), (exec (Sys.init 2 2) (ExDel.ops.take 10)).sess[0]? = some me → me.sel = some 0 →
    pendOf (sidOf 0) 0 me.inbox = [] → (me.flush (sidOf 0) true).1.snap.has 1 = false :=
  fun me hi hs hq =>
    (connector_delete_announced (s := exec (Sys.init 2 2) (ExDel.ops.take 8))
      (exec_inv (init_inv 2 2) _ (by decide) (by decide)) 1 (by decide) 0 9 hi hs hq).1

namespace ExClose
/-- both sessions select mailbox 0; session 0 appends message 1 with `\Deleted` and message 2; session 1 shows both;
    session 0 closes; session 1 takes the update, answers a FETCH, then a NOOP -/
def ops : List SysOp :=
  [ .select 0 0, .select 1 0, .cmd 0 (.append 0 ["\\deleted"]), .cmd 0 (.append 0 []), .drain 1 9, .flush 1 true,
    .close 0, .drain 1 9, .flush 1 false, .flush 1 true, .flush 0 true ]
end ExClose

/-- the trace is inside the hypotheses; the CLOSE (op 6) answers OK with no untagged response (`close_is_silent`,
    `close_unselects_partial`), message 1 is gone from the mailbox (`close_writes_what_expunge_writes`) and its removal
    is queued for session 1 (`close_removal_reaches_queue_partial`), whose FETCH announces nothing and whose NOOP
    announces `1 EXPUNGE`; session 0 is left unselected -/
example :
    (∀ op ∈ ExClose.ops, op.Valid) ∧ NoOvertake (Sys.init 2 2) ExClose.ops ∧
    (Sys.run (Sys.init 2 2) ExClose.ops).2.map (fun o => (o.status, o.resps)) =
      [ (.ok, [.exists 0]), (.ok, [.exists 0]), (.ok, [.exists 1]), (.ok, [.exists 2]), (.ok, []),
        (.ok, [.exists 2]), (.ok, []), (.ok, []), (.ok, []), (.ok, [.expunge 1]), (.ok, []) ] ∧
    ((exec (Sys.init 2 2) (ExClose.ops.take 7)).sess.map fun me => (me.sel, me.snap.map (·.id), me.res, me.inbox)) =
      [(none, [], [], []), (some 0, [1, 2], [], [.expunge 0 1])] ∧
    ((exec (Sys.init 2 2) ExClose.ops).sess.map fun me => (me.sel, me.snap.map (·.id), me.res, me.inbox)) =
      [(none, [], [], []), (some 0, [2], [], [])] ∧
    ((exec (Sys.init 2 2) ExClose.ops).idx.view 0).ids = [2] :=
  ⟨by decide, by decide, by decide, by decide, by decide, by decide⟩

example : ∀ (me : Sys.Sess), (exec (Sys.init 2 2) (ExClose.ops.take 6)).sess[0]? = some me → me.sel = some 0 →
    (step (exec (Sys.init 2 2) (ExClose.ops.take 6)) (.close 0)).2 = {} :=
  fun _ hi hs => (close_unselects_partial (exec_inv (init_inv 2 2) _ (by decide) (by decide)) (by decide) hi hs).1

end Gluon.C05Sys
