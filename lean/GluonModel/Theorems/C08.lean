/-
C08 — The SQLite message index behaves like a plain relational model
(and the SQL-batching theorem `chunk_faithful` that C03 builds on).

Property theorems only; lemmas live in `GluonModel/Lemmas/DBChunk.lean`, `DBOps.lean`.

* model   `GluonModel/Model/DB.lean`: every `db.ReadOnly` / `db.Transaction` method statement by
          statement, with the `xslices.Chunk` loops, the placeholder-vs-bind-argument selection of
          every statement inside them, and mattn/go-sqlite3's "surplus arguments are ignored".
          Which slice feeds what is *not* written into the model: it is a parameter (`Sites`)
          filled from `Generated/Facts/Chunk.lean`, regenerated from /repo's source on every run
          (`harness/facts_chunk.go`).  `factSites` is that regenerated table.
* meaning `GluonModel/Spec/DBSpec.lean`: the same operations with the whole argument list in ONE
          statement — no chunks, no placeholders, no bind arguments.
* tie     the `db` correspondence dialect (model = real SQLite index, call by call, dump by dump)
          and its judge (real index = meaning, call by call).

The theorems say: on a call-site table of the expected shape (`Sites.good`, decided below for the
regenerated table: `chunk_sites_expected`), the chunked model operation IS the un-chunked meaning,
for argument lists of every length — by induction over the chunk list from
`flatten (chunk n xs) = xs` (`Gluon.DB.chunk_flatten`).
-/
import GluonModel.Lemmas.DBOps
import GluonModel.Model.DBFacts

namespace Gluon.C08

open Gluon.DB

/-! ## transactions -/

/-- **A transaction that returns an error leaves no trace** — for every write closure `f`
    (any sequence of operations, aborted at any point) and every state: if `Client.Write` returns
    an error, the database is exactly what it was. -/
theorem write_rollback {α : Type} (f : Tx α) (db : DB) (e : DbErr) (h : (write f db).1 = .error e) :
    (write f db).2 = db := by
  unfold write at *
  split <;> simp_all

/-- **A transaction that succeeds commits exactly what its operations computed.** -/
theorem write_commit {α : Type} (f : Tx α) (db db' : DB) (a : α) (h : f db = .ok (a, db')) :
    write f db = (.ok a, db') := by
  unfold write; rw [h]

/-- **`Client.Read` never changes the database**, whatever the closure does. -/
theorem read_no_effect {α : Type} (f : DB → Except DbErr α) (db : DB) : (read f db).2 = db := rfl

/-- **What an aborted transaction looked up is forgotten with it** — every later `Client.Read` closure `g`
    and every later `Client.Write` closure `k` (any lookup by remote id, name, internal id, any count, any
    further change) answers and acts exactly as if the failed transaction had never run, whatever that
    transaction changed and read back before it failed.  In the model this is immediate because a lookup is
    a function of the tables alone; the `db` correspondence puts exactly this to the real client
    (sessions "change, look up inside, abort, look up again": harness/d_db_probe.go). -/
theorem rollback_unobservable {α β : Type} (f : Tx α) (db : DB) (e : DbErr) (h : (write f db).1 = .error e) :
    (∀ g : DB → Except DbErr β, read g (write f db).2 = read g db) ∧
    (∀ k : Tx β, write k (write f db).2 = write k db) := by
  rw [write_rollback f db e h]
  exact ⟨fun _ => rfl, fun _ => rfl⟩

/-- **A lookup sees the committed tables and the changes of its own transaction, nothing else** — inside a
    transaction the answer of a read operation is the read function applied to the state the preceding
    operations of that transaction produced (no answer is carried over from an earlier call or an earlier
    transaction). -/
theorem lookup_in_tx {α : Type} (g : DB → Except DbErr α) (db : DB) :
    (Tx.ofRead g) db = (g db).map fun a => (a, db) := rfl

/-! ## the regenerated call-site table -/

/-- **Every chunk loop binds what it counts** — for every `for _, chunk := range
    xslices.Chunk(X, N)` the translator finds in `sqlite3/{read,write}_ops.go`: `N` is understood,
    every statement takes its bind arguments from the chunk, and the number of bind arguments
    equals the number of `?` (as polynomials in the slice lengths).  A loop the translator cannot
    classify fails this theorem. -/
theorem chunk_sites_wellBound : ∀ s ∈ Facts.chunkSites, s.wellBound Facts.chunkLimit = true := by decide

/-- **No chunk loop is unknown to the model** — every loop in the fact table is one the model has
    an operation for (a new bulk statement in the code fails here until it is modelled). -/
theorem chunk_sites_modelled : ∀ s ∈ Facts.chunkSites, s.fn ∈ modelledSites := by decide

/-- **Every modelled loop has exactly the shape the proofs below assume** (statement count,
    placeholder and argument polynomials, chunk size a positive multiple of the stride). -/
theorem chunk_sites_expected : ∀ fn ∈ modelledSites, factSites.good fn = true := by decide

/-- the per-call-site precondition of the theorems below, read off `chunk_sites_expected` -/
theorem site_good (fn : String) (h : fn ∈ modelledSites := by decide) : factSites.good fn = true :=
  chunk_sites_expected fn h

/-! ## `chunk_faithful`: chunked model operation = un-chunked meaning, any list length -/

/-- `RemoveMessagesFromMailbox`: same result, same state, as one `DELETE … IN (all ids)` per table. -/
theorem chunk_faithful_removeMessagesFromMailbox (mb : MailboxId) (ids : List MessageId) (db : DB) :
    removeMessagesFromMailbox factSites mb ids db = Spec.removeMessagesFromMailbox mb ids db :=
  removeMessages_faithful factSites (site_good "RemoveMessagesFromMailbox") mb ids db

/-- `SetMailboxMessagesDeletedFlag` = one `UPDATE … WHERE message_id IN (all ids)`. -/
theorem chunk_faithful_setMailboxMessagesDeletedFlag (mb : MailboxId) (ids : List MessageId) (d : Bool) (db : DB) :
    setMailboxMessagesDeletedFlag factSites mb ids d db = Spec.setMailboxMessagesDeletedFlag mb ids d db :=
  setDeleted_faithful factSites (site_good "SetMailboxMessagesDeletedFlag") mb ids d db

/-- `DeleteMessages` = one `DELETE FROM messages_v2 WHERE id IN (all ids)` with the schema's
    referential actions (same error, too). -/
theorem chunk_faithful_deleteMessages (ids : List MessageId) (db : DB) :
    deleteMessages factSites ids db = Spec.deleteMessages ids db :=
  deleteMessages_faithful factSites (site_good "DeleteMessages") ids db

/-- `AddFlagToMessages` = one `INSERT OR IGNORE` of `(id, flag)` for all ids. -/
theorem chunk_faithful_addFlagToMessages (ids : List MessageId) (flag : FlagVal) (db : DB) :
    addFlagToMessages factSites ids flag db = Spec.addFlagToMessages ids flag db :=
  addFlag_faithful factSites (site_good "AddFlagToMessages") ids flag db

/-- `RemoveFlagFromMessages` = one `DELETE … WHERE message_id IN (all ids) AND value = flag COLLATE NOCASE`
    (every spelling of the flag goes). -/
theorem chunk_faithful_removeFlagFromMessages (ids : List MessageId) (flag : FlagVal) (db : DB) :
    removeFlagFromMessages factSites ids flag db = Spec.removeFlagFromMessages ids flag db :=
  removeFlag_faithful factSites (site_good "RemoveFlagFromMessages") ids flag db

/-- `SetFlagsOnMessages` with a non-empty flag set: afterwards every listed message has exactly the
    given flags — one `DELETE … NOT IN (flags)` plus one `INSERT OR IGNORE` of ids × flags.
    (`_partial`: the hypothesis `flags ≠ []` is needed, see `setFlagsOnMessages_empty_panics`.) -/
theorem chunk_faithful_setFlagsOnMessages_partial (ids : List MessageId) (flags : List FlagVal)
    (hflags : flags ≠ []) (db : DB) :
    setFlagsOnMessages factSites ids flags db = Spec.setFlagsOnMessages ids flags db :=
  setFlags_faithful factSites (site_good "SetFlagsOnMessages") ids flags hflags db

/-- `SetFlagsOnMessages(ids, ∅)` panics (`utils.GenSQLIn(0)` is evaluated before the loop) for every
    id list, even the empty one, where its meaning is "remove all flags of these messages".  Its only
    caller (`state.actionSetFlagsOnMessages`… `Mailbox.Store`) skips the call for an empty set. -/
theorem setFlagsOnMessages_empty_panics (S : Sites) (ids : List MessageId) (db : DB) :
    setFlagsOnMessages S ids [] db = .error .panic := rfl

/-- `CreateMessages` = all messages, then all their flags, in one statement each: same success or
    failure and, on success, the same state. -/
theorem chunk_faithful_createMessages (reqs : List CreateReq) (db : DB) :
    (createMessages factSites reqs db).toOption = (Spec.createMessages reqs db).toOption :=
  createMessages_faithful factSites (site_good "CreateMessages") (site_good "CreateMessages.flagArgs") reqs db

/-- `AddMessagesToMailbox` = both inserts with the whole list: same success or failure; on success the
    same state (fresh UIDs in list order) and the same set of returned rows. -/
theorem chunk_faithful_addMessagesToMailbox (mb : MailboxId) (pairs : List (MessageId × RemoteId)) (db : DB) :
    AgreeRes (addMessagesToMailbox factSites mb pairs db) (Spec.addMessagesToMailbox mb pairs db) :=
  addMessages_faithful factSites (site_good "AddMessagesToMailbox")
    (site_good "GetMailboxMessageUIDsWithFlagsAfterAddOrUIDBump") mb pairs db

/-- `MailboxTranslateRemoteIDs` returns the same set of ids as one `… IN (all remote ids)`. -/
theorem chunk_faithful_mailboxTranslateRemoteIDs (db : DB) (rids : List RemoteId) :
    SameSet (mailboxTranslateRemoteIDs factSites db rids) (Spec.mailboxTranslateRemoteIDs db rids) :=
  translate_faithful factSites (site_good "MailboxTranslateRemoteIDs") db rids

/-- `MailboxFilterContains` returns the same set of ids (and fails in the same cases). -/
theorem chunk_faithful_mailboxFilterContains (db : DB) (mb : MailboxId) (pairs : List (MessageId × RemoteId)) :
    SameSet (mailboxFilterContains factSites db mb pairs) (Spec.mailboxFilterContains db mb pairs) :=
  filterContains_faithful factSites (site_good "MailboxFilterContainsInternalID") db mb pairs

/-- `GetMessagesFlags` returns the same set of rows. -/
theorem chunk_faithful_getMessagesFlags (db : DB) (ids : List MessageId) :
    SameSet (getMessagesFlags factSites db ids) (Spec.getMessagesFlags db ids) :=
  messagesFlags_faithful factSites (site_good "GetMessagesFlags") db ids

/-- **`chunk_faithful`** — every chunked operation of the index, for every argument list of any
    length and every database state, is its un-chunked relational meaning.  (Shared with C03.) -/
theorem chunk_faithful :
    (∀ mb ids db, removeMessagesFromMailbox factSites mb ids db = Spec.removeMessagesFromMailbox mb ids db) ∧
    (∀ mb ids d db, setMailboxMessagesDeletedFlag factSites mb ids d db = Spec.setMailboxMessagesDeletedFlag mb ids d db) ∧
    (∀ ids db, deleteMessages factSites ids db = Spec.deleteMessages ids db) ∧
    (∀ ids flag db, addFlagToMessages factSites ids flag db = Spec.addFlagToMessages ids flag db) ∧
    (∀ ids flag db, removeFlagFromMessages factSites ids flag db = Spec.removeFlagFromMessages ids flag db) ∧
    (∀ ids flags db, flags ≠ [] → setFlagsOnMessages factSites ids flags db = Spec.setFlagsOnMessages ids flags db) ∧
    (∀ reqs db, (createMessages factSites reqs db).toOption = (Spec.createMessages reqs db).toOption) ∧
    (∀ mb pairs db, AgreeRes (addMessagesToMailbox factSites mb pairs db) (Spec.addMessagesToMailbox mb pairs db)) ∧
    (∀ db rids, SameSet (mailboxTranslateRemoteIDs factSites db rids) (Spec.mailboxTranslateRemoteIDs db rids)) ∧
    (∀ db mb pairs, SameSet (mailboxFilterContains factSites db mb pairs) (Spec.mailboxFilterContains db mb pairs)) ∧
    (∀ db ids, SameSet (getMessagesFlags factSites db ids) (Spec.getMessagesFlags db ids)) :=
  ⟨chunk_faithful_removeMessagesFromMailbox, chunk_faithful_setMailboxMessagesDeletedFlag,
   chunk_faithful_deleteMessages, chunk_faithful_addFlagToMessages, chunk_faithful_removeFlagFromMessages,
   fun ids flags db h => chunk_faithful_setFlagsOnMessages_partial ids flags h db, chunk_faithful_createMessages, chunk_faithful_addMessagesToMailbox,
   chunk_faithful_mailboxTranslateRemoteIDs, chunk_faithful_mailboxFilterContains, chunk_faithful_getMessagesFlags⟩

/-! ## SQL texts -/

/-- **Every SQL text of the index is well-formed, except in the two named methods** — first word an
    SQL verb, every FROM/INTO/UPDATE/TABLE/JOIN followed by a table name; regenerated from the source.
    (`_partial`: `MailboxExistsWithID` says `SELEC`, `UpdateRemoteMessageID` uses a column name as table
    name — DESIGN.md section 9 #6, #5.  The full statement is `Theorems/C08Sql.lean`.) -/
theorem sql_texts_wellformed_partial :
    ∀ q ∈ Facts.sqlStmts, q.fn ≠ "MailboxExistsWithID" → q.fn ≠ "UpdateRemoteMessageID" →
      q.verbOk = true ∧ q.tableOk = true := by decide

/-- The model of the two methods follows the regenerated facts: they answer with an SQL error exactly
    when their SQL text is malformed, and otherwise mean what their names say. -/
theorem sql_fault_follows_facts (S : Sites) (db : DB) (mb : MailboxId) (m : MessageId) (r : RemoteId) :
    (S.sqlOk "MailboxExistsWithID" = false → mailboxExistsWithID (S.sqlOk "MailboxExistsWithID") db mb = .error .sql) ∧
    (S.sqlOk "MailboxExistsWithID" = true →
      mailboxExistsWithID (S.sqlOk "MailboxExistsWithID") db mb = .ok (db.mailboxes.any (·.id == mb))) ∧
    (S.sqlOk "UpdateRemoteMessageID" = false → updateRemoteMessageID (S.sqlOk "UpdateRemoteMessageID") m r db = .error .sql) ∧
    (S.sqlOk "UpdateRemoteMessageID" = true →
      updateRemoteMessageID (S.sqlOk "UpdateRemoteMessageID") m r db = updateRemoteMessageID true m r db) := by
  refine ⟨?_, ?_, ?_, ?_⟩ <;> intro h <;> simp [mailboxExistsWithID, updateRemoteMessageID, h]

/-! ## non-vacuity -/

/-- a Write that fails half-way: the second `CreateMailbox` violates UNIQUE(remote_id); nothing of the
    first one survives -/
example : write (do let _ ← createMailbox "r1" "A" [] [] [] 1; createMailbox "r1" "B" [] [] [] 2) DB.empty
    = (.error .unique, DB.empty) := rfl

/-- a Write that creates a mailbox, resolves its remote id (`2`), and then fails: the remote id resolves to
    nothing afterwards, in a Read as in a Write -/
example :
    let aborted := write (do
      let _ ← createMailbox "r1" "A" [] [] [] 1
      let _ ← createMailbox "ghost" "G" [] [] [] 2
      let id ← Tx.ofRead (getMailboxIDFromRemoteID · "ghost")
      if id = 2 then (Tx.fail .notFound : Tx Unit) else pure ()) DB.empty
    aborted = (.error .notFound, DB.empty) ∧
    (read (getMailboxIDFromRemoteID · "ghost") aborted.2).1 = .error .notFound ∧
    (write (Tx.ofRead (getMailboxIDFromRemoteID · "ghost")) aborted.2).1 = .error .notFound := by
  intro aborted; exact ⟨rfl, rfl, rfl⟩

/-- the regenerated table is not empty and its chunk sizes are the expected ones -/
example : Facts.chunkSites.length = 13 ∧ (factSites.site "SetFlagsOnMessages").size factSites.limit = 500 ∧
    (factSites.site "DeleteMessages").size factSites.limit = 1000 := by decide

/-- a chunked delete across a chunk boundary (chunk size 2 instead of 1000) really runs several statements -/
example : chunk 2 [1, 2, 3, 4, 5] = [[1, 2], [3, 4], [5]] := by decide

end Gluon.C08
