/-
C03 — Mailbox contents follow the reference semantics of the message commands.

Property theorems only; lemmas live in `GluonModel/Lemmas/Act*.lean`.

* reference  `GluonModel/Spec/MailboxRef.lean`: mailboxes = ordered `(uid, message, \Deleted)` lists + UIDNEXT,
             messages = case-insensitive flag set + bytes; `refAppend / refStore / expungeMsgs (refExpunge,
             refUidExpunge, refClose) / refCopy / refMove`, `refStep`, `refRun`.
* model      `GluonModel/Model/Actions.lean` (`Gluon.Act`): gluon's action level on the relational index of
             `Model/DB.lean` (C08), one command = `stateDBWrite` = the command's transaction + a second one that
             only queues updates; chunk loops with the call-site facts regenerated from the source.
* abstraction `Gluon.C03.abs` (`Lemmas/ActAbs.lean`): model state ↦ reference state.
* invariant  `Gluon.C03.Good` (`Lemmas/ActStepRef.lean`): mailbox names / ids are keys, every message table is
             UID-sorted below its AUTOINCREMENT counter, flag rows belong to message rows, the connector's next
             remote ids are unused.

Every refinement theorem has the form: *if the model answers the command with OK, `abs` of the new model
state is the reference operation applied to `abs` of the old one* — for ALL argument values: flag lists of
any spelling and with repetitions, message lists of ANY length (the chunk loops are eliminated with
`Gluon.C08.chunk_faithful_*`), source = destination, destination already holding the message, named messages
that are no longer in the selected mailbox.  Commands not answered OK are `failed_no_effect_partial`.

Where the full statement is false of the code the witness is proved (`…_false_…`, replayed on the real server
by `corpus/C03/d*.content`) and the strongest `_partial` carries the NAMED hypothesis:
  `NoForward`   the flag list names no "forwarded" alias         (store_ref_false_forward; by design in gluon)
  `lit.gid = none`  the literal has no X-Pm-Gluon-Id of a live message (append_ref_false_gluon_id; C20's finding)
  `≠ .no .secondTx` the failure is not in the update-queueing transaction (failed_no_effect_false_second_tx)

History.  Two hypotheses of the first delivery are gone since the code was repaired: `Spelling` (gluon 45f4598:
-FLAGS and FLAGS-with-nothing-but-\Deleted now delete the flag rows in any spelling) and `NamedInSrc` (gluon 7feeba5,
971d4f3: a named message that is no longer in the source is not moved, its copy in the destination is left alone, and
MOVE onto the selected mailbox itself does not bring it back).  Their former counterexamples are kept as regression
examples that now AGREE with the reference (`store_spelling_regression`, `store_spelling_clear_regression`,
`move_stale_regression`, `move_onto_itself_stale_regression`).
-/
import GluonModel.Lemmas.ActStepRef

namespace Gluon.C03
open Gluon.DB Gluon.Act

/-! ## the invariant -/

/-- **The invariant holds for every index in which no message exists yet** (in particular right after the
    mailboxes were created): mailbox names and ids distinct, all message tables empty. -/
theorem good_init (E : Env) (s : State) (hn : (s.db.mailboxes.map (·.name)).Nodup) (hi : (s.db.mailboxes.map (·.id)).Nodup)
    (ht : ∀ p ∈ s.db.mtables, p.2.rows = []) (hm : s.db.messages = []) (hf : s.db.msgFlags = []) : Good E s := by
  refine ⟨⟨hn, hi, ?_⟩, ?_, ?_⟩
  · intro mb t h
    have hmem : (mb, t) ∈ s.db.mtables := by
      have h' : s.db.mtables.lookup mb = some t := h
      generalize s.db.mtables = l at h'
      induction l with
      | nil => simp at h'
      | cons p rest ih =>
        obtain ⟨k, v⟩ := p
        simp only [List.lookup_cons] at h'
        split at h'
        · next hk => simp only [Option.some.injEq] at h'; subst h'; simp at hk; subst hk; exact List.mem_cons_self
        · exact List.mem_cons_of_mem _ (ih h')
    have := ht _ hmem
    simp only at this
    exact ⟨by rw [this]; exact List.Pairwise.nil, by rw [this]; intro r hr; cases hr⟩
  · intro p hp; rw [hf] at hp; cases hp
  · intro r hr; rw [hm] at hr; cases hr

/-! ## refinement, command by command -/

/-- **APPEND refines `refAppend`** — for every mailbox name, every flag list (any spelling, repetitions,
    `\Deleted` included: it becomes the per-mailbox flag) and every literal without an `X-Pm-Gluon-Id` of a live
    message: if the model answers OK, the new content is the old content with one new message (these flags,
    these bytes) at the end of that mailbox under UIDNEXT.  The invariant is kept.
    (`_partial`: `lit.gid = none`, see `append_ref_false_gluon_id`.) -/
theorem append_ref_partial (E : Env) (hE : EnvOk E) (s : State) (hG : Good E s) (mb : String) (flags : List String) (lit : Lit)
    (q : Second) (hgid : lit.gid = none) (h : (step E s (.append mb flags lit) q).1 = .ok) :
    abs (step E s (.append mb flags lit) q).2 = MailboxRef.refAppend (abs s) mb flags lit.bytes ∧
      Good E (step E s (.append mb flags lit) q).2 :=
  step_ref E hE s hG (.append mb flags lit) q hgid h

/-- **STORE refines `refStore`** — +FLAGS, -FLAGS and FLAGS (.SILENT or not), for every resolved message list of
    any length and every flag list in ANY spelling (stored and given spellings may differ): the shared flags of
    every named message and the per-mailbox `\Deleted` of those still in the selected mailbox change exactly as the
    reference says.  (`_partial`: `NoForward`, see `store_ref_false_forward`.) -/
theorem store_ref_partial (E : Env) (hE : EnvOk E) (s : State) (hG : Good E s)
    (mb : String) (msgs : Pairs) (action : StoreAction) (flags : List String) (q : Second)
    (hnf : NoForward flags) (h : (step E s (.store mb msgs action flags) q).1 = .ok) :
    abs (step E s (.store mb msgs action flags) q).2 = MailboxRef.refStore (abs s) mb (msgs.map (·.1)) (storeOp action) flags ∧
      Good E (step E s (.store mb msgs action flags) q).2 :=
  step_ref E hE s hG (.store mb msgs action flags) q hnf h

/-- **EXPUNGE / UID EXPUNGE / CLOSE refine `expungeMsgs`** — the messages the session's view shows as `\Deleted`
    (any number of them) leave the selected mailbox, those already gone are ignored, nothing else changes. -/
theorem expunge_ref (E : Env) (hE : EnvOk E) (s : State) (hG : Good E s) (mb : String) (msgs : Pairs) (q : Second)
    (h : (step E s (.expunge mb msgs) q).1 = .ok) :
    abs (step E s (.expunge mb msgs) q).2 = MailboxRef.expungeMsgs (abs s) mb (msgs.map (·.1)) ∧
      Good E (step E s (.expunge mb msgs) q).2 :=
  step_ref E hE s hG (.expunge mb msgs) q trivial h

/-- for a session whose view is up to date (it names exactly the `\Deleted` entries of the authoritative mailbox)
    this is the reference's EXPUNGE -/
theorem expunge_ref_in_sync (E : Env) (hE : EnvOk E) (s : State) (hG : Good E s) (mb : String) (msgs : Pairs) (q : Second)
    (hsync : msgs.map (·.1) = MailboxRef.deletedOf (abs s) mb) (h : (step E s (.expunge mb msgs) q).1 = .ok) :
    abs (step E s (.expunge mb msgs) q).2 = MailboxRef.refExpunge (abs s) mb := by
  rw [(expunge_ref E hE s hG mb msgs q h).1, hsync]; rfl

/-- **COPY refines `refCopy`** — any number of messages, destination = selected mailbox and destinations that
    already hold some of the messages included: old instances are replaced, the messages arrive at the end under
    consecutive fresh UIDs in list order, UIDNEXT advances by the list length. -/
theorem copy_ref (E : Env) (hE : EnvOk E) (s : State) (hG : Good E s) (src dst : String) (msgs : Pairs) (q : Second)
    (h : (step E s (.copy src dst msgs) q).1 = .ok) :
    abs (step E s (.copy src dst msgs) q).2 = MailboxRef.refCopy (abs s) dst (msgs.map (·.1)) ∧
      Good E (step E s (.copy src dst msgs) q).2 :=
  step_ref E hE s hG (.copy src dst msgs) q trivial h

/-- **MOVE refines `refMove`, at full strength** — any number of messages, onto the selected mailbox itself
    (remove + re-add under new UIDs), into mailboxes that already hold them, and with named messages another session
    has already expunged from the source: exactly the named messages still in the source leave it and arrive at the
    end of the destination under fresh UIDs; the others, and their copies in the destination, are left alone. -/
theorem move_ref (E : Env) (hE : EnvOk E) (s : State) (hG : Good E s) (src dst : String) (msgs : Pairs) (q : Second)
    (h : (step E s (.move src dst msgs) q).1 = .ok) :
    abs (step E s (.move src dst msgs) q).2 = MailboxRef.refMove (abs s) src dst (msgs.map (·.1)) ∧
      Good E (step E s (.move src dst msgs) q).2 :=
  step_ref E hE s hG (.move src dst msgs) q trivial h

/-! ## histories -/

/-- **C03 (partial)** — for every history of APPEND / STORE / EXPUNGE / COPY / MOVE commands of any number of
    sessions (each command = its whole transactions, in the order the index's write lock serialises them; the list
    is arbitrary, so is every argument, every spelling and every message-list length): the authoritative content
    after the history is the reference run of the commands that were answered OK, on the content before.
    (`_partial`: `HistOk` — per command the named hypothesis of its theorem: no forwarded alias in a STORE, no
    gluon id in an APPEND literal; and no failure of an update-queueing transaction.) -/
theorem C03_partial (E : Env) (hE : EnvOk E) (s : State) (hG : Good E s)
    (cmds : List (Act.Cmd × Second)) (hH : HistOk E s cmds) :
    abs (run E s cmds).1 = MailboxRef.refRun (abs s) (okRef E s cmds) :=
  (run_ref E hE cmds s hG hH).1

/-- the invariant is kept along such a history -/
theorem good_run (E : Env) (hE : EnvOk E) (s : State) (hG : Good E s)
    (cmds : List (Act.Cmd × Second)) (hH : HistOk E s cmds) : Good E (run E s cmds).1 :=
  (run_ref E hE cmds s hG hH).2

/-- **A command answered NO or BAD leaves every mailbox unchanged** — indeed the whole model state — unless the
    failure is in the second transaction of `stateDBWrite`.
    (`_partial`: `≠ .no .secondTx`, see `failed_no_effect_false_second_tx`.) -/
theorem failed_no_effect_partial (E : Env) (s : State) (c : Act.Cmd) (q : Second)
    (h : (step E s c q).1 ≠ .ok) (h2 : (step E s c q).1 ≠ .no .secondTx) : abs (step E s c q).2 = abs s := by
  rw [step_unchanged E s c q h h2]

/-- the index part of this is `Client.Write`'s rollback (`Gluon.C08.write_rollback`): whatever the closure of a
    command did before it failed is discarded -/
theorem failed_tx_rolls_back {α : Type} (f : ATx α) (s : State) (e : DbErr) (h : (write (dbPart f s) s.db).1 = .error e) :
    (write (dbPart f s) s.db).2 = s.db :=
  C08.write_rollback (dbPart f s) s.db e h

/-! ## where the full statements fail: witnesses (replayed on the real server by corpus/C03) -/

/-- a concrete environment: the regenerated call-site table, remote ids `r`, `rr`, `rrr`, … -/
def E0 : Env := { sites := factSites, rid := fun k => String.ofList (List.replicate (k + 1) 'r'), recovery := 99 }

/-- INBOX (id 1) and mb1 (id 2), both empty -/
def s0 : State :=
  { db := { mailboxes := [⟨1, "0", "INBOX", 1, true⟩, ⟨2, "mb1", "mb1", 2, true⟩], mailboxSeq := 2, mtables := [(1, {}), (2, {})] } }

theorem envOk_E0 : EnvOk E0 := by
  refine ⟨rfl, ?_⟩
  intro a b h
  have := congrArg String.length h
  simpa [E0] using this

theorem good_s0 : Good E0 s0 :=
  good_init E0 s0 (by decide) (by decide) (by decide) rfl rfl

/-- one message with `\Seen` in INBOX -/
def s1 : State := (step E0 s0 (.append "INBOX" ["\\Seen"] { bytes := "a" }) {}).2

theorem good_s1 : Good E0 s1 :=
  (append_ref_partial E0 envOk_E0 s0 good_s0 "INBOX" ["\\Seen"] { bytes := "a" } {} rfl (by decide)).2

/-- regression (former counterexample `store_ref_false_spelling`, repaired by gluon 45f4598): `STORE 1 -FLAGS (\seen)`
    on a message stored with `\Seen` is answered OK and removes the flag from the index (an instance of
    `store_ref_partial`; `String.toLower` of the index model does not reduce by `decide`) -/
theorem store_spelling_regression :
    (step E0 s1 (.store "INBOX" [(0, "r")] .rem ["\\seen"]) {}).1 = .ok ∧
    abs (step E0 s1 (.store "INBOX" [(0, "r")] .rem ["\\seen"]) {}).2 = MailboxRef.refStore (abs s1) "INBOX" [0] .remove ["\\seen"] := by
  have hok : (step E0 s1 (.store "INBOX" [(0, "r")] .rem ["\\seen"]) {}).1 = .ok := by decide
  exact ⟨hok, (store_ref_partial E0 envOk_E0 s1 good_s1 "INBOX" [(0, "r")] .rem ["\\seen"] {} (by unfold NoForward; decide) hok).1⟩

/-- what the reference says the content is then: the message has no flag left -/
example : (MailboxRef.refStore (abs s1) "INBOX" [0] .remove ["\\seen"]).messages = [(0, ⟨[], "a"⟩)] := by decide

/-- two messages, one stored with `\Seen`, one with `\SEEN` -/
def s2 : State := (run E0 s0 [(.append "INBOX" ["\\Seen"] { bytes := "a" }, {}), (.append "INBOX" ["\\SEEN"] { bytes := "b" }, {})]).1

/-- regression (former counterexample `store_ref_false_spelling_clear`, repaired by gluon 45f4598):
    `STORE 1:2 FLAGS (\Deleted)` clears `\Seen` and `\SEEN` alike -/
theorem store_spelling_clear_regression :
    (step E0 s2 (.store "INBOX" [(0, "r"), (1, "rr")] .set ["\\Deleted"]) {}).1 = .ok ∧
    abs (step E0 s2 (.store "INBOX" [(0, "r"), (1, "rr")] .set ["\\Deleted"]) {}).2 =
      MailboxRef.refStore (abs s2) "INBOX" [0, 1] .set ["\\Deleted"] := by
  have hG : Good E0 s2 := good_run E0 envOk_E0 s0 good_s0 _ ⟨rfl, by decide, rfl, by decide, trivial⟩
  have hok : (step E0 s2 (.store "INBOX" [(0, "r"), (1, "rr")] .set ["\\Deleted"]) {}).1 = .ok := by decide
  exact ⟨hok, (store_ref_partial E0 envOk_E0 s2 hG "INBOX" [(0, "r"), (1, "rr")] .set ["\\Deleted"] {} (by unfold NoForward; decide) hok).1⟩

/-- **`store_ref` is false at full strength**: `STORE 1 +FLAGS ($Forwarded)` stores `$Forwarded` AND
    `Forwarded` (applyMessageFlagsAdded adds all known variations). -/
theorem store_ref_false_forward :
    (step E0 s1 (.store "INBOX" [(0, "r")] .add ["$Forwarded"]) {}).1 = .ok ∧
    abs (step E0 s1 (.store "INBOX" [(0, "r")] .add ["$Forwarded"]) {}).2 ≠ MailboxRef.refStore (abs s1) "INBOX" [0] .add ["$Forwarded"] := by
  decide

/-- the message of `s1` copied to mb1 and then expunged from INBOX by another session -/
def s3 : State := (run E0 s1 [(.copy "INBOX" "mb1" [(0, "r")], {}), (.store "INBOX" [(0, "r")] .add ["\\Deleted"], {}),
  (.expunge "INBOX" [(0, "r")], {})]).1

/-- regression (former counterexample `move_ref_false_stale`, repaired by gluon 7feeba5): a session that still sees
    the message in INBOX moves it to mb1, which holds it: nothing moves and the copy in mb1 stays -/
theorem move_stale_regression :
    (step E0 s3 (.move "INBOX" "mb1" [(0, "r")]) {}).1 = .ok ∧
    abs (step E0 s3 (.move "INBOX" "mb1" [(0, "r")]) {}).2 = MailboxRef.refMove (abs s3) "INBOX" "mb1" [0] ∧
    (abs (step E0 s3 (.move "INBOX" "mb1" [(0, "r")]) {}).2).mailboxes =
      [("INBOX", { entries := [], uidNext := 2 }), ("mb1", { entries := [⟨1, 0, false⟩], uidNext := 2 })] := by
  decide

/-- two messages in INBOX, the first expunged by another session -/
def s4 : State := (run E0 s1 [(.append "INBOX" [] { bytes := "b" }, {}), (.store "INBOX" [(0, "r")] .add ["\\Deleted"], {}),
  (.expunge "INBOX" [(0, "r")], {})]).1

/-- regression (former counterexample `move_ref_false_same_mailbox_stale`, repaired by gluon 971d4f3): a session that
    still sees the expunged message moves it onto INBOX itself: answered OK, nothing changes -/
theorem move_onto_itself_stale_regression :
    (step E0 s4 (.move "INBOX" "INBOX" [(0, "r")]) {}).1 = .ok ∧
    abs (step E0 s4 (.move "INBOX" "INBOX" [(0, "r")]) {}).2 = MailboxRef.refMove (abs s4) "INBOX" "INBOX" [0] ∧
    (abs (step E0 s4 (.move "INBOX" "INBOX" [(0, "r")]) {}).2).mailboxes =
      [("INBOX", { entries := [⟨2, 1, false⟩], uidNext := 3 }), ("mb1", { entries := [], uidNext := 1 })] := by
  decide

/-- **`append_ref` is false at full strength**: a literal that carries the `X-Pm-Gluon-Id` of a live message is
    not stored; the existing message is linked into the mailbox instead (C20: K-append-ok-but-other-bytes-under-uid). -/
theorem append_ref_false_gluon_id :
    (step E0 s1 (.append "mb1" [] { bytes := "other bytes", gid := some 0 }) {}).1 = .ok ∧
    abs (step E0 s1 (.append "mb1" [] { bytes := "other bytes", gid := some 0 }) {}).2 ≠ MailboxRef.refAppend (abs s1) "mb1" [] "other bytes" := by
  decide

/-- **`failed_no_effect` is false at full strength**: when the transaction that queues the state updates fails,
    the command is answered NO although its own transaction is committed (known finding K-append-committed-then-error;
    the same holds for STORE / COPY / MOVE / EXPUNGE). -/
theorem failed_no_effect_false_second_tx :
    (step E0 s1 (.store "INBOX" [(0, "r")] .add ["\\Flagged"]) { fails := true }).1 = .no .secondTx ∧
    abs (step E0 s1 (.store "INBOX" [(0, "r")] .add ["\\Flagged"]) { fails := true }).2 ≠ abs s1 := by
  decide

/-- **C03 is false at full strength**: the two-command history APPEND, STORE +FLAGS ($Forwarded) is answered
    OK, OK and the authoritative content is not the reference run. -/
theorem C03_false :
    ¬ ∀ (s : State) (cmds : List (Act.Cmd × Second)), Good E0 s → abs (run E0 s cmds).1 = MailboxRef.refRun (abs s) (okRef E0 s cmds) := by
  intro h
  have := h s0 [(.append "INBOX" ["\\Seen"] { bytes := "a" }, {}), (.store "INBOX" [(0, "r")] .add ["$Forwarded"], {})] good_s0
  revert this
  decide

/-! ## non-vacuity -/

/-- a history in which every command but the last is answered OK and every named hypothesis holds: two appends (one
    with `\Deleted`), copy of both, store, move onto a mailbox that holds the message, copy onto itself, expunge, and a
    copy into a mailbox that does not exist -/
def demo : List (Act.Cmd × Second) := [
  (.append "INBOX" ["\\Seen", "\\Deleted"] { bytes := "hello" }, {}),
  (.append "INBOX" ["\\Answered"] { bytes := "world" }, { clearRecent := [(1, 1)] }),
  (.copy "INBOX" "mb1" [(0, "r"), (1, "rr")], {}),
  (.store "mb1" [(1, "rr")] .add ["\\DELETED", "x"], {}),
  (.move "INBOX" "mb1" [(0, "r")], {}),
  (.copy "mb1" "mb1" [(0, "r")], {}),
  (.expunge "mb1" [(1, "rr")], {}),
  (.copy "INBOX" "nowhere" [(1, "rr")], {})]

example : (run E0 s0 demo).2 = [.ok, .ok, .ok, .ok, .ok, .ok, .ok, .no .noSuchMailbox] := by decide +kernel

example : (abs (run E0 s0 demo).1).mailboxes =
    [("INBOX", { entries := [⟨2, 1, false⟩], uidNext := 3 }), ("mb1", { entries := [⟨4, 0, false⟩], uidNext := 5 })] := by decide +kernel

example : (abs (run E0 s0 demo).1).messages = [(0, ⟨["\\seen"], "hello"⟩), (1, ⟨["\\answered", "x"], "world"⟩)] := by decide +kernel

/-- the reference run of the same history gives the same state (an instance of `C03_partial`, computed) -/
example : abs (run E0 s0 demo).1 = MailboxRef.refRun (abs s0) (okRef E0 s0 demo) := by decide +kernel

/-- the named hypothesis of the STORE step of this history holds (-FLAGS and FLAGS are exercised by
    `store_spelling_regression` and `store_spelling_clear_regression`: `String.toLower` in the index model's
    `COLLATE NOCASE` does not reduce by `decide`) -/
example : NoForward ["\\DELETED", "x"] := by unfold NoForward; decide

end Gluon.C03
