/-
C03 — Mailbox contents follow the reference semantics of the message commands.

Property theorems only; lemmas live in `GluonModel/Lemmas/Act*.lean`.

* reference  `GluonModel/Spec/MailboxRef.lean`: mailboxes = ordered `(uid, message, \Deleted)` lists + UIDNEXT,
             messages = case-insensitive flag set + bytes; `refAppend / refStore / expungeMsgs (refExpunge,
             refUidExpunge, refClose) / refCopy / refMove`, `refStep`, `refRun`.
* model      `GluonModel/Model/Actions.lean` (`Gluon.Act`): gluon's action level on the relational index of
             `Model/DB.lean` (C08), one command = `stateDBWrite` = the command's transaction + a second one that
             only queues updates; chunk loops with the call-site facts regenerated from the source.
* abstraction `Gluon.C03.abs` (`Lemmas/ActAbs.lean`): model state ↦ reference state.
* invariant  `Gluon.C03.Good` (`Lemmas/ActStepRef.lean`): mailbox names / ids are keys, every message table is
             UID-sorted below its AUTOINCREMENT counter, flag rows belong to message rows, the connector's next
             remote ids are unused.

Every refinement theorem has the form: *if the model answers the command with OK, `abs` of the new model
state is the reference operation applied to `abs` of the old one* — for ALL argument values: flag lists of
any spelling and with repetitions, message lists of ANY length (the chunk loops are eliminated with
`Gluon.C08.chunk_faithful_*`), source = destination, destination already holding the message, named messages
that are no longer in the selected mailbox.  Commands not answered OK are `failed_no_effect_partial`.

Where the full statement is false of the code the witness is proved (`…_false_…`, replayed on the real server
by `corpus/C03/*.content`) and the strongest `_partial` carries the NAMED hypothesis:
  `NoForward`   the flag list names no "forwarded" alias         (store_ref_false_forward)
  `Spelling`    a flag is always spelled the same way             (store_ref_false_spelling, …_clear)
  `NamedInSrc`  MOVE names only messages still in the source      (move_ref_false_stale)
  `lit.gid = none`  the literal has no X-Pm-Gluon-Id of a live message (append_ref_false_gluon_id; C20's finding)
  `≠ .no .secondTx` the failure is not in the update-queueing transaction (failed_no_effect_false_second_tx)
-/
import GluonModel.Lemmas.ActStepRef

namespace Gluon.C03
open Gluon.DB Gluon.Act

/-! ## the invariant -/

/-- **The invariant holds for every index in which no message exists yet** (in particular right after the
    mailboxes were created): mailbox names and ids distinct, all message tables empty. -/
theorem good_init (E : Env) (s : State) (hn : (s.db.mailboxes.map (·.name)).Nodup) (hi : (s.db.mailboxes.map (·.id)).Nodup)
    (ht : ∀ p ∈ s.db.mtables, p.2.rows = []) (hm : s.db.messages = []) (hf : s.db.msgFlags = []) : Good E s := by
  refine ⟨⟨hn, hi, ?_⟩, ?_, ?_⟩
  · intro mb t h
    have hmem : (mb, t) ∈ s.db.mtables := by
      have h' : s.db.mtables.lookup mb = some t := h
      generalize s.db.mtables = l at h'
      induction l with
      | nil => simp at h'
      | cons p rest ih =>
        obtain ⟨k, v⟩ := p
        simp only [List.lookup_cons] at h'
        split at h'
        · next hk => simp only [Option.some.injEq] at h'; subst h'; simp at hk; subst hk; exact List.mem_cons_self
        · exact List.mem_cons_of_mem _ (ih h')
    have := ht _ hmem
    simp only at this
    exact ⟨by rw [this]; exact List.Pairwise.nil, by rw [this]; intro r hr; cases hr⟩
  · intro p hp; rw [hf] at hp; cases hp
  · intro r hr; rw [hm] at hr; cases hr

/-! ## refinement, command by command -/

/-- the flag values an index holds, plus those of a command: a universe `U` for the theorems that do not care -/
def flagUniverse (s : State) (flags : List String) : List String := s.db.msgFlags.map (·.2) ++ flags

theorem flagUniverse_within (s : State) (flags : List String) : FlagsWithin (flagUniverse s flags) s.db :=
  fun p hp => List.mem_append_left _ (List.mem_map.mpr ⟨p, hp, rfl⟩)

/-- **APPEND refines `refAppend`** — for every mailbox name, every flag list (any spelling, repetitions,
    `\Deleted` included: it becomes the per-mailbox flag) and every literal without an `X-Pm-Gluon-Id` of a live
    message: if the model answers OK, the new content is the old content with one new message (these flags,
    these bytes) at the end of that mailbox under UIDNEXT.  The invariant is kept.
    (`_partial`: `lit.gid = none`, see `append_ref_false_gluon_id`.) -/
theorem append_ref_partial (E : Env) (hE : EnvOk E) (s : State) (hG : Good E s) (mb : String) (flags : List String) (lit : Lit)
    (q : Second) (hgid : lit.gid = none) (h : (step E s (.append mb flags lit) q).1 = .ok) :
    abs (step E s (.append mb flags lit) q).2 = MailboxRef.refAppend (abs s) mb flags lit.bytes ∧
      Good E (step E s (.append mb flags lit) q).2 := by
  have := step_ref E hE (flagUniverse s flags) s hG (flagUniverse_within s flags) (.append mb flags lit) q (fun h => h.elim)
    ⟨hgid, fun f hf _ => List.mem_append_right _ hf⟩ h
  exact ⟨this.1, this.2.1⟩

/-- **STORE refines `refStore`** — +FLAGS, -FLAGS and FLAGS (.SILENT or not), for every resolved message list of
    any length, every flag list in any spelling: the shared flags of every named message and the per-mailbox
    `\Deleted` of those still in the selected mailbox change exactly as the reference says.
    (`_partial`: `NoForward`, and for -FLAGS / FLAGS `Spelling U` with the stored flags and the command's flags in
    `U`; see `store_ref_false_forward`, `store_ref_false_spelling`, `store_ref_false_spelling_clear`.) -/
theorem store_ref_partial (E : Env) (hE : EnvOk E) (U : List String) (s : State) (hG : Good E s) (hW : FlagsWithin U s.db)
    (mb : String) (msgs : Pairs) (action : StoreAction) (flags : List String) (q : Second)
    (hnf : NoForward flags) (hfU : FlagsIn U flags) (hU : action ≠ .add → Spelling U)
    (h : (step E s (.store mb msgs action flags) q).1 = .ok) :
    abs (step E s (.store mb msgs action flags) q).2 = MailboxRef.refStore (abs s) mb (msgs.map (·.1)) (storeOp action) flags ∧
      Good E (step E s (.store mb msgs action flags) q).2 ∧ FlagsWithin U (step E s (.store mb msgs action flags) q).2.db := by
  apply step_ref E hE U s hG hW (.store mb msgs action flags) q _ ⟨hnf, hfU⟩ h
  intro hn
  apply hU
  cases action <;> simp_all [needsSpelling]

/-- **+FLAGS needs no spelling hypothesis**: rows are only added, and only for messages that lack the flag's key. -/
theorem store_add_ref_partial (E : Env) (hE : EnvOk E) (s : State) (hG : Good E s) (mb : String) (msgs : Pairs)
    (flags : List String) (q : Second) (hnf : NoForward flags) (h : (step E s (.store mb msgs .add flags) q).1 = .ok) :
    abs (step E s (.store mb msgs .add flags) q).2 = MailboxRef.refStore (abs s) mb (msgs.map (·.1)) .add flags ∧
      Good E (step E s (.store mb msgs .add flags) q).2 := by
  have := store_ref_partial E hE (flagUniverse s flags) s hG (flagUniverse_within s flags) mb msgs .add flags q hnf
    (fun f hf _ => List.mem_append_right _ hf) (fun h => absurd rfl h) h
  exact ⟨this.1, this.2.1⟩

/-- **EXPUNGE / UID EXPUNGE / CLOSE refine `expungeMsgs`** — the messages the session's view shows as `\Deleted`
    (any number of them) leave the selected mailbox, those already gone are ignored, nothing else changes. -/
theorem expunge_ref (E : Env) (hE : EnvOk E) (s : State) (hG : Good E s) (mb : String) (msgs : Pairs) (q : Second)
    (h : (step E s (.expunge mb msgs) q).1 = .ok) :
    abs (step E s (.expunge mb msgs) q).2 = MailboxRef.expungeMsgs (abs s) mb (msgs.map (·.1)) ∧
      Good E (step E s (.expunge mb msgs) q).2 := by
  have := step_ref E hE (flagUniverse s []) s hG (flagUniverse_within s []) (.expunge mb msgs) q (fun h => h.elim) trivial h
  exact ⟨this.1, this.2.1⟩

/-- for a session whose view is up to date (it names exactly the `\Deleted` entries of the authoritative mailbox)
    this is the reference's EXPUNGE -/
theorem expunge_ref_in_sync (E : Env) (hE : EnvOk E) (s : State) (hG : Good E s) (mb : String) (msgs : Pairs) (q : Second)
    (hsync : msgs.map (·.1) = MailboxRef.deletedOf (abs s) mb) (h : (step E s (.expunge mb msgs) q).1 = .ok) :
    abs (step E s (.expunge mb msgs) q).2 = MailboxRef.refExpunge (abs s) mb := by
  rw [(expunge_ref E hE s hG mb msgs q h).1, hsync]; rfl

/-- **COPY refines `refCopy`** — any number of messages, destination = selected mailbox and destinations that
    already hold some of the messages included: old instances are replaced, the messages arrive at the end under
    consecutive fresh UIDs in list order, UIDNEXT advances by the list length. -/
theorem copy_ref (E : Env) (hE : EnvOk E) (s : State) (hG : Good E s) (src dst : String) (msgs : Pairs) (q : Second)
    (h : (step E s (.copy src dst msgs) q).1 = .ok) :
    abs (step E s (.copy src dst msgs) q).2 = MailboxRef.refCopy (abs s) dst (msgs.map (·.1)) ∧
      Good E (step E s (.copy src dst msgs) q).2 := by
  have := step_ref E hE (flagUniverse s []) s hG (flagUniverse_within s []) (.copy src dst msgs) q (fun h => h.elim) trivial h
  exact ⟨this.1, this.2.1⟩

/-- **MOVE refines `refMove`** — any number of messages, onto the selected mailbox itself (remove + re-add under
    new UIDs) and into mailboxes that already hold them included.
    (`_partial`: `NamedInSrc` — every named message still is in the source; see `move_ref_false_stale`.) -/
theorem move_ref_partial (E : Env) (hE : EnvOk E) (s : State) (hG : Good E s) (src dst : String) (msgs : Pairs) (q : Second)
    (hsrc : ∀ row, selected E s src = .ok row → NamedInSrc s row.id msgs)
    (h : (step E s (.move src dst msgs) q).1 = .ok) :
    abs (step E s (.move src dst msgs) q).2 = MailboxRef.refMove (abs s) src dst (msgs.map (·.1)) ∧
      Good E (step E s (.move src dst msgs) q).2 := by
  have := step_ref E hE (flagUniverse s []) s hG (flagUniverse_within s []) (.move src dst msgs) q (fun h => h.elim) hsrc h
  exact ⟨this.1, this.2.1⟩

/-! ## histories -/

/-- **C03 (partial)** — for every history of APPEND / STORE / EXPUNGE / COPY / MOVE commands of any number of
    sessions (each command = its whole transactions, in the order the index's write lock serialises them; the list
    is arbitrary, so is every argument and every message-list length): the authoritative content after the history
    is the reference run of the commands that were answered OK, on the content before.
    (`_partial`: `Spelling U` for the flags of the history and `HistOk`: per command the named hypotheses of the
    command theorems, and no failure of an update-queueing transaction.) -/
theorem C03_partial (E : Env) (hE : EnvOk E) (U : List String) (hU : Spelling U) (s : State) (hG : Good E s) (hW : FlagsWithin U s.db)
    (cmds : List (Act.Cmd × Second)) (hH : HistOk E U s cmds) :
    abs (run E s cmds).1 = MailboxRef.refRun (abs s) (okRef E s cmds) :=
  (run_ref E hE U hU cmds s hG hW hH).1

/-- the invariant is kept along such a history -/
theorem good_run (E : Env) (hE : EnvOk E) (U : List String) (hU : Spelling U) (s : State) (hG : Good E s) (hW : FlagsWithin U s.db)
    (cmds : List (Act.Cmd × Second)) (hH : HistOk E U s cmds) : Good E (run E s cmds).1 :=
  (run_ref E hE U hU cmds s hG hW hH).2.1

/-- **A command answered NO or BAD leaves every mailbox unchanged** — indeed the whole model state — unless the
    failure is in the second transaction of `stateDBWrite`.
    (`_partial`: `≠ .no .secondTx`, see `failed_no_effect_false_second_tx`.) -/
theorem failed_no_effect_partial (E : Env) (s : State) (c : Act.Cmd) (q : Second)
    (h : (step E s c q).1 ≠ .ok) (h2 : (step E s c q).1 ≠ .no .secondTx) : abs (step E s c q).2 = abs s := by
  rw [step_unchanged E s c q h h2]

/-- the index part of this is `Client.Write`'s rollback (`Gluon.C08.write_rollback`): whatever the closure of a
    command did before it failed is discarded -/
theorem failed_tx_rolls_back {α : Type} (f : ATx α) (s : State) (e : DbErr) (h : (write (dbPart f s) s.db).1 = .error e) :
    (write (dbPart f s) s.db).2 = s.db :=
  C08.write_rollback (dbPart f s) s.db e h

/-! ## where the full statements fail: witnesses (replayed on the real server by corpus/C03) -/

/-- a concrete environment: the regenerated call-site table, remote ids `r`, `rr`, `rrr`, … -/
def E0 : Env := { sites := factSites, rid := fun k => String.ofList (List.replicate (k + 1) 'r'), recovery := 99 }

/-- INBOX (id 1) and mb1 (id 2), both empty -/
def s0 : State :=
  { db := { mailboxes := [⟨1, "0", "INBOX", 1, true⟩, ⟨2, "mb1", "mb1", 2, true⟩], mailboxSeq := 2, mtables := [(1, {}), (2, {})] } }

theorem envOk_E0 : EnvOk E0 := by
  refine ⟨rfl, ?_⟩
  intro a b h
  have := congrArg String.length h
  simpa [E0] using this

theorem good_s0 : Good E0 s0 :=
  good_init E0 s0 (by decide) (by decide) (by decide) rfl rfl

/-- one message with `\Seen` in INBOX -/
def s1 : State := (step E0 s0 (.append "INBOX" ["\\Seen"] { bytes := "a" }) {}).2

/-- **`store_ref` is false at full strength (1)**: `STORE 1 -FLAGS (\seen)` on a message stored with `\Seen` is
    answered OK and leaves `\Seen` in the index (`DELETE … WHERE value = ?` compares the spelling). -/
theorem store_ref_false_spelling :
    (step E0 s1 (.store "INBOX" [(0, "r")] .rem ["\\seen"]) {}).1 = .ok ∧
    abs (step E0 s1 (.store "INBOX" [(0, "r")] .rem ["\\seen"]) {}).2 ≠ MailboxRef.refStore (abs s1) "INBOX" [0] .remove ["\\seen"] := by
  decide

/-- two messages, one stored with `\Seen`, one with `\SEEN` -/
def s2 : State := (run E0 s0 [(.append "INBOX" ["\\Seen"] { bytes := "a" }, {}), (.append "INBOX" ["\\SEEN"] { bytes := "b" }, {})]).1

/-- **`store_ref` is false at full strength (2)**: `STORE 1:2 FLAGS (\Deleted)` clears the other flags by the
    first spelling it meets (fix 6649146): the message that spells `\Seen` differently keeps it. -/
theorem store_ref_false_spelling_clear :
    (step E0 s2 (.store "INBOX" [(0, "r"), (1, "rr")] .set ["\\Deleted"]) {}).1 = .ok ∧
    abs (step E0 s2 (.store "INBOX" [(0, "r"), (1, "rr")] .set ["\\Deleted"]) {}).2 ≠
      MailboxRef.refStore (abs s2) "INBOX" [0, 1] .set ["\\Deleted"] := by
  decide

/-- **`store_ref` is false at full strength (3)**: `STORE 1 +FLAGS ($Forwarded)` stores `$Forwarded` AND
    `Forwarded` (applyMessageFlagsAdded adds all known variations). -/
theorem store_ref_false_forward :
    (step E0 s1 (.store "INBOX" [(0, "r")] .add ["$Forwarded"]) {}).1 = .ok ∧
    abs (step E0 s1 (.store "INBOX" [(0, "r")] .add ["$Forwarded"]) {}).2 ≠ MailboxRef.refStore (abs s1) "INBOX" [0] .add ["$Forwarded"] := by
  decide

/-- the message of `s1` copied to mb1 and then expunged from INBOX by another session -/
def s3 : State := (run E0 s1 [(.copy "INBOX" "mb1" [(0, "r")], {}), (.store "INBOX" [(0, "r")] .add ["\\Deleted"], {}),
  (.expunge "INBOX" [(0, "r")], {})]).1

/-- **`move_ref` is false at full strength**: a session that still sees the message in INBOX moves it to mb1, which
    holds it: answered OK, and the message is in NO mailbox afterwards (actionMoveMessages removes every named
    message from the destination, then moves only those it finds in the source). -/
theorem move_ref_false_stale :
    (step E0 s3 (.move "INBOX" "mb1" [(0, "r")]) {}).1 = .ok ∧
    abs (step E0 s3 (.move "INBOX" "mb1" [(0, "r")]) {}).2 ≠ MailboxRef.refMove (abs s3) "INBOX" "mb1" [0] ∧
    (abs (step E0 s3 (.move "INBOX" "mb1" [(0, "r")]) {}).2).mailboxes = [("INBOX", { entries := [], uidNext := 2 }), ("mb1", { entries := [], uidNext := 2 })] := by
  decide

/-- **`append_ref` is false at full strength**: a literal that carries the `X-Pm-Gluon-Id` of a live message is
    not stored; the existing message is linked into the mailbox instead (C20: K-append-ok-but-other-bytes-under-uid). -/
theorem append_ref_false_gluon_id :
    (step E0 s1 (.append "mb1" [] { bytes := "other bytes", gid := some 0 }) {}).1 = .ok ∧
    abs (step E0 s1 (.append "mb1" [] { bytes := "other bytes", gid := some 0 }) {}).2 ≠ MailboxRef.refAppend (abs s1) "mb1" [] "other bytes" := by
  decide

/-- **`failed_no_effect` is false at full strength**: when the transaction that queues the state updates fails,
    the command is answered NO although its own transaction is committed (known finding K-append-committed-then-error;
    the same holds for STORE / COPY / MOVE / EXPUNGE). -/
theorem failed_no_effect_false_second_tx :
    (step E0 s1 (.store "INBOX" [(0, "r")] .add ["\\Flagged"]) { fails := true }).1 = .no .secondTx ∧
    abs (step E0 s1 (.store "INBOX" [(0, "r")] .add ["\\Flagged"]) { fails := true }).2 ≠ abs s1 := by
  decide

/-- **C03 is false at full strength**: the two-command history APPEND (\Seen), STORE -FLAGS (\seen) is answered
    OK, OK and the authoritative content is not the reference run. -/
theorem C03_false :
    ¬ ∀ (s : State) (cmds : List (Act.Cmd × Second)), Good E0 s → abs (run E0 s cmds).1 = MailboxRef.refRun (abs s) (okRef E0 s cmds) := by
  intro h
  have := h s0 [(.append "INBOX" ["\\Seen"] { bytes := "a" }, {}), (.store "INBOX" [(0, "r")] .rem ["\\seen"], {})] good_s0
  revert this
  decide

/-! ## non-vacuity -/

/-- a history in which every command is answered OK and every named hypothesis holds: two appends (one with
    `\Deleted`), copy of both, store, move onto a mailbox that holds the message, copy onto itself, expunge -/
def demo : List (Act.Cmd × Second) := [
  (.append "INBOX" ["\\Seen", "\\Deleted"] { bytes := "hello" }, {}),
  (.append "INBOX" ["\\Answered"] { bytes := "world" }, { clearRecent := [(1, 1)] }),
  (.copy "INBOX" "mb1" [(0, "r"), (1, "rr")], {}),
  (.store "INBOX" [(0, "r")] .rem ["\\Seen"], {}),
  (.store "mb1" [(1, "rr")] .add ["\\DELETED", "x"], {}),
  (.move "INBOX" "mb1" [(0, "r")], {}),
  (.copy "mb1" "mb1" [(0, "r")], {}),
  (.expunge "mb1" [(1, "rr")], {}),
  (.copy "INBOX" "nowhere" [(1, "rr")], {})]

example : (run E0 s0 demo).2 = [.ok, .ok, .ok, .ok, .ok, .ok, .ok, .ok, .no .noSuchMailbox] := by decide

example : (abs (run E0 s0 demo).1).mailboxes =
    [("INBOX", { entries := [⟨2, 1, false⟩], uidNext := 3 }), ("mb1", { entries := [⟨4, 0, false⟩], uidNext := 5 })] := by decide

example : (abs (run E0 s0 demo).1).messages = [(0, ⟨[], "hello"⟩), (1, ⟨["\\answered", "x"], "world"⟩)] := by decide

/-- the reference run of the same history gives the same state (an instance of `C03_partial`, computed) -/
example : abs (run E0 s0 demo).1 = MailboxRef.refRun (abs s0) (okRef E0 s0 demo) := by decide

/-- the hypotheses of `C03_partial` are satisfiable by this history (`\\Deleted` may be spelled in any way) -/
example : Spelling ["\\Seen", "\\Answered", "x"] ∧ FlagsWithin ["\\Seen", "\\Answered", "x"] s0.db ∧
    FlagsIn ["\\Seen", "\\Answered", "x"] ["\\DELETED", "x"] ∧ NoForward ["\\DELETED", "x"] := by
  refine ⟨by unfold Spelling; decide, by unfold FlagsWithin; decide, by unfold FlagsIn; decide, by unfold NoForward; decide⟩

end Gluon.C03
