/-
C01 — A session's announced view always equals the view the server answers from.

The client is `Gluon.Mirror` (Spec/Mirror.lean): what can be reconstructed from untagged EXISTS /
EXPUNGE / FETCH / RECENT alone.  `Agree m snap` = same count, every learnt UID and flag set is the
snapshot's.  The server side is the model of `responder.handle`, `popResponders`,
`State.flushResponses`, `response.Merge` (Model/Responder.lean, Model/Resp.lean), tied to the
code by the `flush` and `merge` correspondence dialects; which functions mutate a snapshot at all
comes from the regenerated fact table `Generated/Facts/SnapMut.lean`.
-/
import GluonModel.Lemmas.Explicable
import GluonModel.Lemmas.Flush
import GluonModel.Lemmas.ConvergeFlush
import GluonModel.Generated.Facts.SnapMut

namespace Gluon.C01
open Gluon Mirror

/-- **Merging keeps the net effect** — for EVERY response stream a client can explain,
    `response.Merge` does not panic and the merged stream leads the client to exactly the same
    reconstruction.  (All streams, any length.) -/
theorem merge_sound (m m' : Mirror) (input : List Resp) (h : m.applyAll input = some m') :
    ∃ out, Resp.merge input = .ok out ∧ m.applyAll out = some m' :=
  merge_sound_aux m m' input h

/-- **Sequence numbers are dense positions and UIDs strictly ascend, always** — every responder, in
    any context (CLOSE or not), with any UID placement, erroring or not, keeps the snapshot
    invariant; so does a whole flush of any queue. -/
theorem dense_ascending (permit close : Bool) (sid : StateId) (snap : Snap) (res : List Responder)
    (hinv : Snap.Inv snap) : Snap.Inv (flush permit close sid snap res).snap := by
  rw [flush_snap]
  exact handleAll_inv close sid _ hinv

/-- **One responder: what is sent explains what was done** (partial: see the counter-example
    below) — outside a CLOSE context, for a responder that is not the session's own `.SILENT`
    store, and an EXISTS whose UID is above the snapshot's UIDs (`ExistsAtEnd`): if the client's
    mirror agreed with the snapshot before, then after feeding it the responses it agrees with
    the new snapshot. All snapshots, all mirrors, all responders. -/
theorem handle_explicable_partial {m : Mirror} {snap : Snap} (hag : Agree m snap) (hinv : Snap.Inv snap)
    (r : Responder) (sid : StateId) (hend : ExistsAtEnd r snap) (hsil : r.isSilent = false)
    (herr : (r.handle false sid snap).err = none) :
    ∃ m', m.applyAll (r.handle false sid snap).out = some m' ∧ Agree m' (r.handle false sid snap).snap :=
  handle_explicable_core hag hinv r sid hend hsil herr

/-- the session's own `.SILENT` STORE: nothing is sent; a client that discards what it knew about
    that message's flags (it knows what it stored) still agrees. -/
theorem handle_silent_fetch {m : Mirror} {snap : Snap} (hag : Agree m snap) (hinv : Snap.Inv snap)
    (id : MsgId) (fl : Flags) (op : FlagOp) (asUID other close : Bool) (sid : StateId) :
    ((Responder.fetch id fl op asUID true other).handle close sid snap).out = [] ∧
    Agree (match snap.get? id with | some (seq, _) => m.forgetFlags seq | none => m)
      ((Responder.fetch id fl op asUID true other).handle close sid snap).snap := by
  obtain ⟨m', h1, h2, _⟩ := handle_fetch_explicable hag hinv id fl op asUID true other close sid
  simp only [if_true] at h1
  have hout : ((Responder.fetch id fl op asUID true other).handle close sid snap).out = [] := by
    simp only [Responder.handle]
    split
    · rfl
    · split
      · rfl
      · split <;> rfl
  rw [hout] at h1
  simp only [applyAll, Option.some.injEq] at h1
  subst h1
  exact ⟨hout, h2⟩

/-- **The full statement is false of the code as it stands**: an EXISTS from another session whose
    UID is *below* the snapshot's highest UID is inserted in the middle (`insertOutOfOrder`), which
    renumbers a message the client already knows, and only `EXISTS 2` is sent. Reachable when two
    writers' broadcasts are reordered (`stateDBWrite` commits, then queues updates in a second
    transaction). -/
theorem handle_explicable_counterexample :
    let snap : Snap := [Snap.mkMsg 1 5 []]
    let m : Mirror := { msgs := [{ uid := some 5, flags := some [] }] }
    let r : Responder := .exists 2 3 [] 9 none
    (m.agree snap = true) ∧ (r.handle false 1 snap).err = none ∧
    (r.handle false 1 snap).out = [.exists 2] ∧
    ((m.applyAll (r.handle false 1 snap).out).map (·.agree (r.handle false 1 snap).snap)) = some false := by
  decide

/-- **A whole flush** (partial) — outside CLOSE, no own-`.SILENT` responders popped, every popped
    EXISTS adds at the end, no responder error: the flush does not panic in `Merge`, and the
    responses it sends (after merging) lead the client's mirror to the snapshot the server now
    answers from. All snapshots, all queues, both values of `permitExpunge`. -/
theorem flush_explicable_partial {m : Mirror} {snap : Snap} (hag : Agree m snap) (hinv : Snap.Inv snap)
    (permit : Bool) (sid : StateId) (res : List Responder)
    (hend : AllAtEnd false sid snap (popResponders permit res).1)
    (hsil : ∀ r ∈ (popResponders permit res).1, r.isSilent = false)
    (herr : ∀ e, (flush permit false sid snap res).result ≠ .err e) :
    ∃ out m', (flush permit false sid snap res).result = .ok out ∧ m.applyAll out = some m' ∧
      Agree m' (flush permit false sid snap res).snap := by
  have hnoerr : (handleAll false sid snap (popResponders permit res).1).2.2.2 = none := by
    cases he : (handleAll false sid snap (popResponders permit res).1).2.2.2 with
    | none => rfl
    | some e =>
      exfalso
      apply herr e
      unfold flush
      simp only [he]
  obtain ⟨m', hm', hag'⟩ := handleAll_explicable hag hinv sid _ hend hsil hnoerr
  obtain ⟨out, hmerge, hout⟩ := merge_sound_aux m m' _ hm'
  refine ⟨out, m', ?_, hout, by rw [flush_snap]; exact hag'⟩
  unfold flush
  simp [hnoerr, hmerge]

/-- **A whole flush, from the database's UID contract alone** — if the queued EXISTS carry strictly
    ascending UIDs above every UID of the snapshot (`UidsAsc`: what `UIDNext` gives; it implies
    `AllAtEnd` for whatever a flush pops and excludes every responder error), then outside CLOSE, with
    no own-`.SILENT` responder popped, every flush (either `permitExpunge`) of every such queue does
    not fail, does not panic in `Merge`, and what it sends leads the client's mirror to the snapshot
    the server now answers from. -/
theorem flush_explicable_of_uidsAsc {m : Mirror} {snap : Snap} (hag : Agree m snap) (hinv : Snap.Inv snap)
    (permit : Bool) (sid : StateId) (res : List Responder) (huid : UidsAsc snap res)
    (hsil : ∀ r ∈ (popResponders permit res).1, r.isSilent = false) :
    ∃ out m', (flush permit false sid snap res).result = .ok out ∧ m.applyAll out = some m' ∧
      Agree m' (flush permit false sid snap res).snap := by
  have hsub : (popResponders permit res).1.Sublist res := by
    cases permit
    · exact popAux_fst_sublist [] [] res
    · simp [popResponders]
  have hpop := huid.sublist hsub
  obtain ⟨s1, hs1, _⟩ := run_uidsOk hinv (hpop.uidsOk (sid := sid))
  exact flush_explicable_partial hag hinv permit sid res (allAtEnd_of_uidsAsc hinv hpop) hsil
    (flush_result_not_err hs1)

/-- **…and the contract survives a held-back re-add** — after a `permitExpunge = false` flush the
    snapshot it leaves and the queue it retains satisfy `UidsAsc` again: since the repair "while a
    re-added message is held back, later EXISTS … are held back too" no later EXISTS overtakes a
    held-back one, so the held-back message is still added at the end when its turn comes and
    `flush_explicable_of_uidsAsc` applies to the next flush as well (no renumbering without
    EXPUNGE). -/
theorem flush_false_keeps_uidsAsc {sid : StateId} {snap : Snap} {res : List Responder} (hinv : Snap.Inv snap)
    (huid : UidsAsc snap res) :
    UidsAsc (flush false false sid snap res).snap (flush false false sid snap res).rem :=
  flush_false_uidsAsc hinv huid

/-- **CLOSE announces nothing and cannot panic** — in a CLOSE context EXPUNGE responses are
    suppressed, so any EXISTS/RECENT sent there could contradict what the client knows (a smaller
    count without an EXPUNGE made `Merge` panic; repaired in gluon by the commit "fix: flushing
    responders during CLOSE announces nothing"). For every snapshot and every queue the flush of
    a CLOSE never panics in `Merge` and sends no untagged response. The mailbox is deselected
    right after, so the client's reconstruction ends there. -/
theorem flush_close_silent (permit : Bool) (sid : StateId) (snap : Snap) (res : List Responder) :
    (flush permit true sid snap res).result ≠ .mergePanic ∧
    ∀ out, (flush permit true sid snap res).result = .ok out → out = [] := by
  constructor
  · unfold flush
    simp only
    split
    · simp
    · simp
  · intro out h
    rcases (flush_result_ok h).2 with ⟨_, rfl⟩ | ⟨hc, _⟩
    · rfl
    · simp at hc

/-- the queue that used to crash the server (another party added one message, removed two, added
    one, then CLOSE): now silent -/
example :
    (flush true true 1 [Snap.mkMsg 1 1 [], Snap.mkMsg 2 2 []]
      [.exists 3 3 [] 2 none, .expunge 1, .expunge 2, .exists 4 4 [] 2 none]).result = .ok [] := by
  decide

/-- the uses of snapshot-mutating code that the theorems above account for (hand-written
    expectation; the actual uses are regenerated from the source into `Facts.snapMutSites`) -/
def allowedSnapMutUses : List (String × String) := [
  -- responders: modelled by `Responder.handle`
  ("targetedExists.handle", "call snapshot.appendMessage"),
  ("targetedExists.handle", "call snapshot.appendMessageFromOtherState"),
  ("expunge.handle", "call snapshot.expungeMessage"),
  ("fetch.handle", "call snapshot.setMessageFlags"),
  -- FETCH with \Seen side effect: adds \Seen in place and sends FLAGS in the same FETCH response
  ("Mailbox.Fetch", "inplace snapMsg.flags.AddToSelf"),
  -- … and, when that \Seen could not be stored (index / connector write failed, the command answers NO), takes it back
  -- in place and sends the FLAGS without it in a further FETCH response before the NO (gluon commit "fix: a body FETCH
  -- whose \Seen could not be stored takes the flag back"; exercised on the real server by the error-path histories of
  -- the wire-level oracle, harness/hfc_hist.go pattern FETCHBODY, corpus/C01/hfc-fetch-seen-failed-write.hist)
  ("Mailbox.Fetch", "inplace snapMsg.flags.RemoveFromSelf"),
  -- construction / replacement of the whole snapshot (SELECT, EXAMINE, close)
  ("newSnapshot", "call snapMsgList.insert"),
  ("State.Select", "assign State.snap"),
  ("State.Examine", "assign State.snap"),
  ("State.close", "assign State.snap"),
  -- remote-id bookkeeping (no effect on count, order, UIDs or flags)
  ("State.UpdateMailboxRemoteID", "call snapshot.updateMailboxRemoteID"),
  ("State.UpdateMessageRemoteID", "call snapshot.updateMessageRemoteID"),
  ("mailboxRemoteIDUpdateStateUpdate.Apply", "assign snapshot.mboxID")
]

/-- **Only responders change a session's view** — in the current source the functions that
    mutate a snapshot (`insert`, `insertOutOfOrder`, `remove`, assignments to a message's
    `flags`/`toExpunge`, in-place `AddToSelf` on snapshot flags) are reached only from responder
    `handle` methods, from snapshot construction, and from `Mailbox.Fetch`'s `\Seen` update, which
    sends the new FLAGS in the same FETCH response (and, if the flag cannot be stored, removes it again and sends the
    FLAGS once more before the tagged NO). -/
theorem snapshot_mutators_known :
    ∀ s ∈ Facts.snapMutSites, (s.caller, s.what) ∈ allowedSnapMutUses := by
  decide

/-! ### Non-vacuity -/

example :
    let snap : Snap := [Snap.mkMsg 1 1 [], Snap.mkMsg 2 2 []]
    let m : Mirror := Mirror.ofCount 2
    m.agree snap = true ∧
    (flush true false 1 snap [.expunge 1, .exists 3 7 ["\\recent"] 1 none,
        .fetch 2 ["\\seen"] .add true false false]).result
      = .ok [.expunge 1, .exists 2, .recent 1, .fetch 1 (some ["\\seen"]) (some 2)] := by decide

example : ((Mirror.ofCount 2).applyAll [.exists 3, .fetch 3 (some []) none, .exists 4, .recent 1]).isSome = true := by
  decide

end Gluon.C01
