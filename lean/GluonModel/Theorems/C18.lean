/-
C18 — Commands are gated by authentication state and users are isolated.

Property theorems only; helper lemmas live in `GluonModel/Lemmas/Auth.lean`.  The model
`GluonModel/Model/Auth.lean` (session protocol state machine + login counter / jail) is driven by
the regenerated facts `GluonModel/Generated/Facts/Dispatch.lean` (dispatch table of
`handleCommand`, serve-loop / reader special cases, the `s.state == nil` guards, `State.Selected`'s
guard, shape of `getUserID`); `GluonModel/Spec/AuthSpec.lean` says which commands the IMAP
specifications allow in which state.  There is no unit-level correspondence: the tie to the running
server is the lead's wire-level oracle (all commands × all protocol states, 2–3 users, jail timing).
-/
import GluonModel.Lemmas.Auth
import GluonModel.Model.AuthFacts

namespace Gluon.C18

open Gluon Gluon.Auth


/-- **The source's dispatch is gated and agrees with the specifications** (by `decide` over the
    regenerated tables): every guard the model relies on is present; every payload type the
    parsers can produce is classified by the specification table and routed by the code to a
    handler class the specification allows (any-state commands → `handleAnyCommand` or LOGOUT;
    LOGIN/STARTTLS → not-authenticated handlers; mailbox commands and IDLE → guarded by
    `s.state == nil`; message commands → additionally through `State.Selected`; a stray DONE →
    "bad command"); every dispatched type has a second-level handler; `maxLoginAttempts = 3`.
    Part of `wellGated` is `userFromAuthorize`: see `user_source_is_authorize`. -/
theorem dispatch_conforms :
    facts.wellGated = true ∧ Conforms facts ∧
    (∀ ty ∈ Facts.commandPayloadTypes, (AuthSpec.required.lookup ty).isSome = true) ∧
    (∀ x ∈ AuthSpec.required, x.1 ∈ Facts.commandPayloadTypes) ∧
    (∀ x ∈ Facts.dispatchTable,
        (Facts.dispatchSecond.lookup ((match x.2 with
          | "any" => "handleAnyCommand" | "notauth" => "handleNotAuthenticatedCommand"
          | "auth" => "handleAuthenticatedCommand" | _ => "handleWithMailbox") ++ ":" ++ x.1)).isSome = true) ∧
    (∀ x ∈ Facts.dispatchTable, x.2 = "notauth" → x.1 = "Login") ∧
    facts.maxAttempts = 3 := by
  decide

/-- **The only source of a session's user is a connector that accepted the presented credentials**
    (by `decide` over the regenerated return table of `Backend.getUserID`): every `return` of
    `getUserID` either carries a non-nil error or is `return user.userID, nil` directly under
    `if user.connector.Authorize(ctx, username, password)` for the range user of `b.users`, on the
    function's own, never written parameters; at least one such return exists; `GetState` builds the
    session's state from `b.users[<that id>]`; `handleLogin` presents the LOGIN command's own user
    name and password; `b.users` is keyed by each user's own id and `user.connector` is the connector
    the user was added with.  A user id from any other source (a cache of earlier logins, a map lookup,
    a remembered or default id) is classified `unknown` by the translator and this theorem — and with
    it `dispatch_conforms` and every theorem below — stops checking.  This is what ties the model's
    `chosen c ∈ c.accepting` (`login_wrong_never_auth`, `isolation`) to the source. -/
theorem user_source_is_authorize :
    facts.userFromAuthorize = true ∧
    (∀ r ∈ Facts.getUserIDReturns, r.2 = "authorized" ∨ r.2 = "error") ∧
    (∃ r ∈ Facts.getUserIDReturns, r.2 = "authorized") := by
  decide

/-- in the current source only `Login` reaches `handleLogin` -/
theorem route_login_iff (ty : String) : route facts ty = .login → ty = "Login" := by
  intro h
  unfold route at h
  split at h
  · simp at h
  · split at h
    · simp at h
    · simp at h
    · simp at h
    · split at h
      · simp at h
      · rename_i heq
        exact dispatch_conforms.2.2.2.2.2.1 _ (lookup_some_mem _ _ _ heq) rfl
      · simp at h
      · simp at h
      · simp at h
      · split at h <;> simp at h

section
variable {σ : Type}

/-- **A mailbox or message command before authentication is refused and changes nothing** —
    single step: for every command whose specification class is authenticated or selected
    (SELECT … APPEND, IDLE, CHECK … UID), in a session that has not logged in, the answer is NO
    and the whole system state — every user's data, the login counter, the session — is unchanged. -/
theorem unauth_step (env : Env σ) (sys : Sys σ) (c : Cmd) (h : AuthSpec.needsAuth c.ty = true) :
    step facts env .notAuth sys c = (.notAuth, sys, .no) :=
  step_notAuth_gated facts dispatch_conforms.1 dispatch_conforms.2.1 env sys c h

/-- **Before a successful LOGIN nothing has an effect** — for *every* command sequence of a session
    in which no LOGIN presents credentials some user's connector accepts (arbitrary commands
    otherwise, in any order, including unknown ones): the session ends not-authenticated (or
    closed by LOGOUT), no user's data has changed, no guard was bypassed, and every mailbox or
    message command in the sequence was answered NO (or not at all, after LOGOUT).  Only LOGIN
    attempts touch the login counter. -/
theorem unauth_no_effect (env : Env σ) (cmds : List Cmd) (sys : Sys σ)
    (hwrong : ∀ c ∈ cmds, c.ty = "Login" → c.accepting = []) :
    ((run facts env cmds .notAuth sys).1 = .notAuth ∨ (run facts env cmds .notAuth sys).1 = .closed) ∧
    (run facts env cmds .notAuth sys).2.1.store = sys.store ∧
    (run facts env cmds .notAuth sys).2.1.breach = sys.breach ∧
    (∀ cr ∈ cmds.zip (run facts env cmds .notAuth sys).2.2,
        AuthSpec.needsAuth cr.1.ty = true → cr.2 = .no ∨ cr.2 = .none) ∧
    ((∀ c ∈ cmds, c.ty ≠ "Login") → (run facts env cmds .notAuth sys).2.1.login = sys.login) := by
  -- generalise over the two states a session can be in before authentication
  suffices H : ∀ (p : Proto), (p = .notAuth ∨ p = .closed) → ∀ (cmds : List Cmd) (sys : Sys σ),
      (∀ c ∈ cmds, c.ty = "Login" → c.accepting = []) →
      ((run facts env cmds p sys).1 = .notAuth ∨ (run facts env cmds p sys).1 = .closed) ∧
      (run facts env cmds p sys).2.1.store = sys.store ∧
      (run facts env cmds p sys).2.1.breach = sys.breach ∧
      (∀ cr ∈ cmds.zip (run facts env cmds p sys).2.2,
          AuthSpec.needsAuth cr.1.ty = true → cr.2 = .no ∨ cr.2 = .none) ∧
      ((∀ c ∈ cmds, c.ty ≠ "Login") → (run facts env cmds p sys).2.1.login = sys.login) from
    H .notAuth (Or.inl rfl) cmds sys hwrong
  intro p hp cmds
  induction cmds generalizing p with
  | nil => intro sys _; simp [run, hp]
  | cons c rest ih =>
    intro sys hw
    have hwrest : ∀ c' ∈ rest, c'.ty = "Login" → c'.accepting = [] :=
      fun c' hc' => hw c' (List.mem_cons_of_mem _ hc')
    simp only [run]
    rcases hp with rfl | rfl
    · -- not authenticated
      obtain ⟨hs, hb, hpn, hl⟩ := step_notAuth facts dispatch_conforms.1 env sys c
      have hp1 : (step facts env .notAuth sys c).1 = .notAuth ∨ (step facts env .notAuth sys c).1 = .closed := by
        rcases hpn with h | h | ⟨u, _, hch, hr⟩
        · exact Or.inl h
        · exact Or.inr h
        · exfalso
          have hty := route_login_iff c.ty hr
          have hacc := hw c (List.mem_cons_self ..) hty
          simp [chosen, hacc] at hch
      obtain ⟨i1, i2, i3, i4, i5⟩ := ih _ hp1 (step facts env .notAuth sys c).2.1 hwrest
      refine ⟨i1, by rw [i2, hs], by rw [i3, hb], ?_, ?_⟩
      · intro cr hcr hn
        simp only [List.zip_cons_cons, List.mem_cons] at hcr
        rcases hcr with rfl | hcr
        · simp only at hn
          rw [unauth_step env sys c hn]
          exact Or.inl rfl
        · exact i4 cr hcr hn
      · intro hnl
        rw [i5 (fun c' hc' => hnl c' (List.mem_cons_of_mem _ hc'))]
        apply hl
        intro hr
        exact hnl c (List.mem_cons_self ..) (route_login_iff c.ty hr)
    · -- closed
      rw [step_closed]
      obtain ⟨i1, i2, i3, i4, i5⟩ := ih .closed (Or.inr rfl) sys hwrest
      refine ⟨i1, i2, i3, ?_, ?_⟩
      · intro cr hcr hn
        simp only [List.zip_cons_cons, List.mem_cons] at hcr
        rcases hcr with rfl | hcr
        · exact Or.inr rfl
        · exact i4 cr hcr hn
      · intro hnl
        exact i5 (fun c' hc' => hnl c' (List.mem_cons_of_mem _ hc'))

/-- **Message commands need a selected mailbox** — in an authenticated session without a selected
    mailbox (after LOGIN, after CLOSE / UNSELECT) every command whose specification class is
    selected (CHECK, CLOSE, EXPUNGE, UID EXPUNGE, UNSELECT, SEARCH, FETCH, STORE, COPY, MOVE, UID …)
    is answered NO and nothing changes. -/
theorem selected_required (env : Env σ) (sys : Sys σ) (u : UserId) (c : Cmd)
    (h : AuthSpec.needsSelected c.ty = true) :
    step facts env (.auth u) sys c = (.auth u, sys, .no) :=
  step_auth_selected facts dispatch_conforms.1 dispatch_conforms.2.1 env sys u c h

/-- **Wrong credentials never authenticate** — a session authenticates only through a LOGIN whose
    credentials some user's connector accepts, and then as one of the accepting users: if a step
    takes a not-authenticated session to user `u`, the command is LOGIN and `u ∈ accepting` — the
    session is bound to a user whose connector authorised exactly the presented pair in this very
    call; what an earlier LOGIN (of anybody, on any connection) presented plays no role: the login
    state carried between attempts is the failure counter and the jail timer only (`LoginSt`), as
    `user_source_is_authorize` checks of the source.  (Sequence form: `unauth_no_effect` — with no accepted LOGIN the session never authenticates.) -/
theorem login_wrong_never_auth (env : Env σ) (sys : Sys σ) (c : Cmd) (u : UserId)
    (h : (step facts env .notAuth sys c).1.user = some u) : c.ty = "Login" ∧ u ∈ c.accepting := by
  obtain ⟨_, _, hpn, _⟩ := step_notAuth facts dispatch_conforms.1 env sys c
  rcases hpn with hp | hp | ⟨u', hp, hch, hr⟩
  · simp [hp, Proto.user] at h
  · simp [hp, Proto.user] at h
  · rw [hp] at h
    simp only [Proto.user, Option.some.injEq] at h
    subst h
    refine ⟨route_login_iff c.ty hr, ?_⟩
    unfold chosen at hch
    split at hch
    · simp at hch
    · exact List.mem_of_getElem? hch

/-- **An authenticated session cannot change its user** — in an authenticated or selected session
    every command (LOGIN included: it is answered BAD) leaves the session with the same user or
    closed, leaves every *other* user's data untouched, bypasses no guard and does not touch the
    login counter. -/
theorem session_keeps_user (env : Env σ) (p : Proto) (sys : Sys σ) (c : Cmd) (u : UserId) (hp : p.user = some u) :
    (∀ v, v ≠ u → (step facts env p sys c).2.1.store v = sys.store v) ∧
    (step facts env p sys c).2.1.breach = sys.breach ∧
    ((step facts env p sys c).1.user = some u ∨ (step facts env p sys c).1 = .closed) ∧
    (step facts env p sys c).2.1.login = sys.login :=
  step_user facts dispatch_conforms.1 env p sys c u hp

/-- **Users are isolated** — for every interleaving of commands of any number of sessions on one
    server, all starting not authenticated: if no LOGIN in the history presents credentials that
    user `v`'s connector accepts, then `v`'s data is unchanged at the end, no session is
    authenticated as `v`, and no guard was bypassed. -/
theorem isolation (env : Env σ) (evs : List (Nat × Cmd)) (w : World σ) (v : UserId)
    (hstart : ∀ i, (w.sess i).user ≠ some v)
    (hnever : ∀ e ∈ evs, v ∉ e.2.accepting) :
    (runW facts env evs w).sys.store v = w.sys.store v ∧
    (∀ i, ((runW facts env evs w).sess i).user ≠ some v) ∧
    (runW facts env evs w).sys.breach = w.sys.breach := by
  induction evs generalizing w with
  | nil => simp [runW, hstart]
  | cons e rest ih =>
    simp only [runW]
    have hrest : ∀ e' ∈ rest, v ∉ e'.2.accepting := fun e' he' => hnever e' (List.mem_cons_of_mem _ he')
    have hve : v ∉ e.2.accepting := hnever e (List.mem_cons_self ..)
    -- one step keeps v's data, keeps every session off v, bypasses nothing
    have key : (stepW facts env w e).sys.store v = w.sys.store v ∧
        (∀ i, ((stepW facts env w e).sess i).user ≠ some v) ∧
        (stepW facts env w e).sys.breach = w.sys.breach := by
      simp only [stepW]
      cases hu : (w.sess e.1).user with
      | some u =>
        have huv : v ≠ u := by
          intro h; exact hstart e.1 (by rw [hu, h])
        obtain ⟨h1, h2, h3, _⟩ := step_user facts dispatch_conforms.1 env (w.sess e.1) w.sys e.2 u hu
        refine ⟨h1 v huv, ?_, h2⟩
        intro i
        by_cases hi : i = e.1
        · simp only [hi, if_true]
          rcases h3 with h3 | h3
          · rw [h3]; intro h; exact huv (by simpa using h.symm)
          · rw [h3]; simp [Proto.user]
        · simp only [hi, if_false]; exact hstart i
      | none =>
        have hp : w.sess e.1 = .notAuth ∨ w.sess e.1 = .closed := by
          cases hh : w.sess e.1 <;> simp [hh, Proto.user] at hu ⊢
        rcases hp with hp | hp
        · rw [hp]
          obtain ⟨h1, h2, h3, _⟩ := step_notAuth facts dispatch_conforms.1 env w.sys e.2
          refine ⟨by rw [h1], ?_, h2⟩
          intro i
          by_cases hi : i = e.1
          · simp only [hi, if_true]
            intro h
            obtain ⟨_, hmem⟩ := login_wrong_never_auth env w.sys e.2 v h
            exact hve hmem
          · simp only [hi, if_false]; exact hstart i
        · rw [hp, step_closed]
          refine ⟨rfl, ?_, rfl⟩
          intro i
          by_cases hi : i = e.1
          · simp [hi, Proto.user]
          · simp only [hi, if_false]; exact hstart i
    obtain ⟨k1, k2, k3⟩ := key
    obtain ⟨i1, i2, i3⟩ := ih (stepW facts env w e) k2 hrest
    exact ⟨by rw [i1, k1], i2, by rw [i3, k3]⟩

end

/-! ## login attempts and jail (`Backend.getUserID`, `maxLoginAttempts` from the facts) -/

/-- **Jail** — from a login state with a clean counter and no timer armed, after three consecutive
    failed attempts (by any sessions, for any user names — the counter is global), the third of
    which was decided at time `t₃`, the next attempt — whoever makes it, whenever it arrives,
    right or wrong — is decided no earlier than `t₃ + jail`.  For all arrival times, Authorize
    durations and timer latencies. -/
theorem jail (jailTime : Nat) (s : LoginSt) (hc : s.count = 0) (hj : s.jailedUntil = none)
    (t₁ t₂ t₃ t₄ : Timing) (acc₄ : Bool) :
    let r₁ := attempt facts.maxAttempts jailTime s t₁ false
    let r₂ := attempt facts.maxAttempts jailTime r₁.st t₂ false
    let r₃ := attempt facts.maxAttempts jailTime r₂.st t₃ false
    let r₄ := attempt facts.maxAttempts jailTime r₃.st t₄ acc₄
    r₁.blocked = false ∧ r₂.blocked = false ∧ r₃.blocked = true ∧ r₃.decided + jailTime ≤ r₄.decided := by
  intro r₁ r₂ r₃ r₄
  have hm : facts.maxAttempts = 3 := dispatch_conforms.2.2.2.2.2.2
  have e0 : effCount s = 0 := by simp [effCount, hj, hc]
  have b1 : r₁.blocked = false := by
    cases hb : r₁.blocked
    · rfl
    · exact absurd ((attempt_blocked_iff facts.maxAttempts jailTime s t₁).mp hb) (by rw [e0, hm]; decide)
  have j1 : r₁.st.jailedUntil = none := attempt_fail_jailed _ _ _ _ (by rw [e0, hm]; decide)
  have c1 : r₁.st.count = 1 := by
    have := attempt_fail_count facts.maxAttempts jailTime s t₁
    rw [e0] at this; exact this
  have e1 : effCount r₁.st = 1 := by simp [effCount, j1, c1]
  have b2 : r₂.blocked = false := by
    cases hb : r₂.blocked
    · rfl
    · exact absurd ((attempt_blocked_iff facts.maxAttempts jailTime r₁.st t₂).mp hb) (by rw [e1, hm]; decide)
  have j2 : r₂.st.jailedUntil = none := attempt_fail_jailed _ _ _ _ (by rw [e1, hm]; decide)
  have c2 : r₂.st.count = 2 := by
    have := attempt_fail_count facts.maxAttempts jailTime r₁.st t₂
    rw [e1] at this; exact this
  have e2 : effCount r₂.st = 2 := by simp [effCount, j2, c2]
  have b3 : r₃.blocked = true := (attempt_blocked_iff facts.maxAttempts jailTime r₂.st t₃).mpr (by rw [e2, hm])
  obtain ⟨j, hj3, hle⟩ := attempt_blocked _ _ _ _ _ b3
  have := attempt_decided_ge_jail facts.maxAttempts jailTime r₃.st t₄ acc₄ j hj3
  exact ⟨b1, b2, b3, Nat.le_trans hle this⟩

/-- **Jail, general form** — whenever an attempt is refused with "too many login attempts" (it was
    the `maxLoginAttempts`-th failure since the counter was last reset), the next attempt is
    decided no earlier than `jail` after it, from every login state. -/
theorem jail_after_blocked (jailTime : Nat) (s : LoginSt) (t t' : Timing) (acc acc' : Bool)
    (hb : (attempt facts.maxAttempts jailTime s t acc).blocked = true) :
    (attempt facts.maxAttempts jailTime s t acc).decided + jailTime ≤
      (attempt facts.maxAttempts jailTime (attempt facts.maxAttempts jailTime s t acc).st t' acc').decided := by
  obtain ⟨j, hj, hle⟩ := attempt_blocked _ _ _ _ _ hb
  exact Nat.le_trans hle (attempt_decided_ge_jail _ _ _ _ _ j hj)

/-- **A successful login resets the counter** (the code does: `atomic.StoreInt32(&b.loginErrorCount, 0)`
    on a successful `Authorize`) — after it no timer is armed and three further failures are
    needed for the next jail. -/
theorem success_resets_counter (jailTime : Nat) (s : LoginSt) (t : Timing) :
    (attempt facts.maxAttempts jailTime s t true).st.count = 0 ∧
    (attempt facts.maxAttempts jailTime s t true).st.jailedUntil = none ∧
    (attempt facts.maxAttempts jailTime s t true).success = true := by
  simp [attempt]

-- non-vacuity -----------------------------------------------------------------------------------

def demoEnv : Env (List String) := { exec := fun ty ok st => if ok then st ++ [ty] else st, jail := 10 }
def demoSys : Sys (List String) := { store := fun _ => [], login := LoginSt.init, breach := false }
def mk (ty : String) (ok : Bool := true) (accepting : List UserId := []) : Cmd :=
  { ty, ok, accepting, pick := 0, timing := { arrive := 0, dur := 1, slack := 0 } }

-- a session that pokes around before logging in, logs in as user 7, selects, stores, closes
example :
    let r := run facts demoEnv
      [mk "Capability", mk "Fetch", mk "Select", mk "Login" (accepting := []), mk "Idle", mk "Done",
       mk "Login" (accepting := [7]), mk "Fetch", mk "Login" (accepting := [8]), mk "Select", mk "Store",
       mk "Close", mk "Store", mk "Logout", mk "Noop"] .notAuth demoSys
    r.2.2 = [.ok, .no, .no, .no, .no, .no, .ok, .no, .bad, .ok, .ok, .ok, .no, .bye, .none] ∧
    r.1 = .closed ∧ r.2.1.store 7 = ["Select", "Store", "Close"] ∧ r.2.1.store 8 = [] ∧ r.2.1.breach = false := by
  decide

-- three failures, then even the right password waits for the jail to end (jail = 10)
example :
    let r₁ := attempt 3 10 LoginSt.init ⟨0, 1, 0⟩ false
    let r₂ := attempt 3 10 r₁.st ⟨1, 1, 0⟩ false
    let r₃ := attempt 3 10 r₂.st ⟨2, 1, 0⟩ false
    let r₄ := attempt 3 10 r₃.st ⟨3, 1, 0⟩ true
    (r₃.blocked, r₃.decided, r₄.success, r₄.decided) = (true, 3, true, 14) := by
  decide

end Gluon.C18
