/-
C17 — Configured limits are never exceeded and refusals have no partial effect.

Property theorems only; helper lemmas live in `GluonModel/Lemmas/Limits.lean`.  Model:
`GluonModel/Model/Limits.lean` — the `limits` package with int64 arithmetic as written (tied to the
real package by the `limits` correspondence dialect) and the abstract "check, then insert"
machine of its callers; which caller checks where comes from the regenerated fact table
`GluonModel/Generated/Facts/Limits.lean` (theorem `limit_sites_today`).

What is *not* here: that a refused multi-message COPY/MOVE/connector batch leaves the database
untouched (all-or-nothing) is the transaction rollback of C08's database model plus the lead's
wire oracle; this file covers the arithmetic, the placement of the checks (which limits value, which
quantity, one write transaction per COPY / MOVE: `limit_quantities_today`; one write transaction, not
opened in a loop, per connector update of whatever length: `connector_update_one_transaction_today`)
and the invariant.  In the
model a refusal is the identity on the world (`replace_refused_unchanged`); the wire oracle's judge
(`Driver/DJudgeLimits.lean`) compares every mailbox's content, UIDs and UIDNEXT before and after
every refused command against that.
-/
import GluonModel.Lemmas.Limits
import GluonModel.Generated.Facts.Limits
import GluonModel.Generated.Facts.UpdateTx

namespace Gluon.C17

open Gluon Gluon.Limits

/-! ## the checks themselves -/

/-- **`CheckMailBoxCount` passes ⇒ one more mailbox fits.** -/
theorem check_sound_mailbox_count (l : IMAP) (count : Int) (h : checkMailBoxCount l count = none) :
    count + 1 ≤ l.maxMailboxCount := by
  unfold checkMailBoxCount at h
  split at h
  · simp at h
  · omega

/-- **`CheckMailBoxMessageCount` passes ⇒ `existing + new ≤ max` as mathematical integers and the
    int64 addition did not wrap** — for all int64 arguments of which at least one is non-negative
    (counts and slice lengths are; see `check_sound_needs_sign`).  A negative `newCount` is always
    refused. -/
theorem check_sound (l : IMAP) (existing new : Int) (he : isInt64 existing) (hn : isInt64 new)
    (hs : 0 ≤ new ∨ 0 ≤ existing) (h : checkMailBoxMessageCount l existing new = none) :
    existing + new ≤ l.maxMessageCountPerMailbox ∧ 0 ≤ new ∧ isInt64 (existing + new) :=
  msgCount_sound l existing new he hn hs h

/-- **`CheckUIDCount` passes ⇒ `existingUID + new ≤ maxUID`, no wrap** — for every uint32 UID and
    int64 count.  The callers pass UIDNEXT as `existingUID`, so after the insert the highest UID
    in use is at most `maxUID - 1`. -/
theorem check_sound_uid (l : IMAP) (uid : Nat) (new : Int) (hu : (uid : Int) < 2 ^ 32) (hn : isInt64 new)
    (h : checkUIDCount l uid new = none) :
    (uid : Int) + new ≤ l.maxUID ∧ 0 ≤ new ∧ isInt64 ((uid : Int) + new) :=
  uidCount_sound l uid new hu hn h

/-- **`CheckUIDValidity` passes ⇒ the value is below the maximum.** -/
theorem check_sound_uidvalidity (l : IMAP) (uid : Nat) (h : checkUIDValidity l uid = none) :
    (uid : Int) < l.maxUIDValidity := by
  unfold checkUIDValidity at h
  split at h
  · simp at h
  · omega

/-- the sign hypothesis of `check_sound` is needed: with both arguments `math.MinInt64` the sum
    wraps to 0 and the check passes (not reachable from the callers: counts and `len` are ≥ 0) -/
theorem check_sound_needs_sign :
    checkMailBoxMessageCount (newIMAPLimits 10 10 10 10) (-(2 : Int) ^ 63) (-(2 : Int) ^ 63) = none := by
  decide

/-- **Operations that fit are accepted** — non-negative arguments whose true sum is within the
    maximum pass both message checks (maxima below 2^63, as every constructible `IMAP` has). -/
theorem check_complete (l : IMAP) (existing new : Int) (uid : Nat) (he : 0 ≤ existing) (hn : 0 ≤ new)
    (h1 : existing + new ≤ l.maxMessageCountPerMailbox) (h2 : (uid : Int) + new ≤ l.maxUID)
    (hm1 : l.maxMessageCountPerMailbox < 2 ^ 63) (hm2 : l.maxUID < 2 ^ 63) :
    checkMailBoxMessageCount l existing new = none ∧ checkUIDCount l uid new = none :=
  ⟨msgCount_complete l existing new he hn h1 hm1, uidCount_complete l uid new hn h2 hm2⟩

/-! ## check, then insert -/

/-- **Limits invariant, under the named hypothesis `ChecksInsideTx`** — for
    every constructible limit configuration, every world within the limits with no check in
    flight, and every history of CREATE (with any number of missing superiors: `State.Create` checks the
    limit for all the mailboxes it is about to create), RENAME (`renameParents`: `State.Rename` checks the
    limit for the missing superiors of the new name before it creates them), in-transaction adds (connector batches, COPY / MOVE — also
    onto a destination that already holds `k` of the messages: `replaceTx k n`),
    out-of-transaction check + insert pairs (APPEND), removals and mailbox deletions: *every*
    state the history passes through keeps the number of mailboxes, the number of messages and
    UIDNEXT within the configured maxima. -/
theorem limits_invariant_partial (l : IMAP) (hl : U32Limits l) (w : World) (hw : Within l w)
    (hpass : w.passed = []) (evs : List Ev)
    (hChecksInsideTx : ChecksInsideTx evs)
    (hint : EvsInt64 evs) :
    ∀ w' ∈ trace l evs w, Within l w' :=
  trace_within l hl evs none w ⟨hw, hpass⟩ hChecksInsideTx hint

/-- **CREATE keeps the mailbox limit, implicit parents included** — no hypothesis on the history, the
    limits or the number of missing superiors: from a world within the limits a CREATE leaves a world
    within the limits. -/
theorem create_within (l : IMAP) (w : World) (hw : Within l w) (parents : Nat) :
    Within l (step l w (.create parents)) := by
  simp only [step]
  split
  · rename_i hck
    simp only [Bool.and_eq_true, Option.isNone_iff_eq_none, checkMailBoxCount] at hck
    obtain ⟨_, hck2⟩ := hck
    unfold Within at hw ⊢
    simp only [Int.natCast_add]
    split at hck2
    · simp at hck2
    · simp only [Int.cast_ofNat_Int]
      omega
  · exact hw

/-- **CREATE is accepted exactly when everything it creates fits** — the named mailbox and its
    `parents` missing superiors are created iff `mailboxes + parents + 1 ≤ maxMailboxCount`; otherwise
    the world is exactly what it was (nothing created: a refusal has no partial effect). -/
theorem create_applied_iff_fits (l : IMAP) (w : World) (parents : Nat) :
    step l w (.create parents) =
      if (w.mailboxes : Int) + parents + 1 ≤ l.maxMailboxCount then { w with mailboxes := w.mailboxes + parents + 1 }
      else w := by
  simp only [step, checkMailBoxCount]
  by_cases h : (w.mailboxes : Int) + parents + 1 ≤ l.maxMailboxCount
  · have h1 : ¬ ((w.mailboxes : Int) ≥ l.maxMailboxCount) := by omega
    have h2 : ¬ ((w.mailboxes : Int) + ((parents : Int) + 1) - 1 ≥ l.maxMailboxCount) := by omega
    simp [h, h1, h2]
  · have h2 : (w.mailboxes : Int) + ((parents : Int) + 1) - 1 ≥ l.maxMailboxCount := by omega
    simp [h, h2]

/-- **The former defect, now refused** (was `create_parents_witness`: DESIGN §9 #11) — limit 4, three
    mailboxes present, `CREATE p/q/r/s` (three missing superiors): the first check sees 3 < 4, the
    second 3 + 4 - 1 = 6 ≥ 4: refused, nothing is created. -/
theorem create_parents_refused_example :
    let l := newIMAPLimits 4 100 100 100
    let w : World := { mailboxes := 3, count := 0, uidNext := 1, passed := [] }
    Within l w ∧ runEvs l [.create 3] w = w ∧ (runEvs l [.create 0] w).mailboxes = 4 := by
  refine ⟨by decide, by decide, by decide⟩

/-- **RENAME keeps the mailbox limit, implicit parents included** — no hypothesis on the history, the
    limits or the number of missing superiors of the new name (the new home of a renamed INBOX counted
    among them): from a world within the limits a RENAME leaves a world within the limits. -/
theorem rename_within (l : IMAP) (w : World) (hw : Within l w) (parents : Nat) :
    Within l (step l w (.renameParents parents)) := by
  simp only [step]
  split
  · exact hw
  · rename_i hck
    unfold Within at hw ⊢
    simp only [Int.natCast_add]
    by_cases hp0 : parents = 0
    · subst hp0; simp; omega
    · have hpos : parents > 0 := by omega
      simp only [hpos, decide_true, Bool.true_and, Bool.not_eq_false, Bool.not_eq_eq_eq_not, Bool.not_true,
        Option.isNone_iff_eq_none, checkMailBoxCount] at hck
      split at hck
      · simp at hck
      · omega

/-- **RENAME is applied exactly when everything it creates fits** — with nothing to create it is always
    applied (the mailbox count does not change: no check may refuse it); otherwise the `parents` new
    mailboxes are created iff `mailboxes + parents ≤ maxMailboxCount`, and a refusal is the identity
    (nothing created, nothing renamed: no partial effect). -/
theorem rename_applied_iff_fits (l : IMAP) (w : World) (parents : Nat) :
    step l w (.renameParents parents) =
      if parents = 0 ∨ (w.mailboxes : Int) + parents ≤ l.maxMailboxCount then { w with mailboxes := w.mailboxes + parents }
      else w := by
  simp only [step, checkMailBoxCount]
  by_cases hp0 : parents = 0
  · subst hp0; simp
  · have hpos : parents > 0 := by omega
    by_cases h : (w.mailboxes : Int) + parents ≤ l.maxMailboxCount
    · have h2 : ¬ ((w.mailboxes : Int) + (parents : Int) - 1 ≥ l.maxMailboxCount) := by omega
      simp [h, h2]
    · have h2 : (w.mailboxes : Int) + (parents : Int) - 1 ≥ l.maxMailboxCount := by omega
      simp [hp0, hpos, h, h2]

/-- **The former RENAME defect, now refused** (was `rename_parents_witness`; real server before the repair:
    limit 3, three mailboxes, `RENAME a p/q/r/s` -> 6) — limit 4, three mailboxes present, three missing
    superiors of the new name: 3 + 3 - 1 = 5 ≥ 4: refused, the world is unchanged; a RENAME with no missing
    superior is applied even AT the limit; one missing superior still fits. -/
theorem rename_parents_refused_example :
    let l := newIMAPLimits 4 100 100 100
    let w : World := { mailboxes := 3, count := 0, uidNext := 1, passed := [] }
    let full : World := { mailboxes := 4, count := 0, uidNext := 1, passed := [] }
    Within l w ∧ runEvs l [.renameParents 3] w = w ∧ (runEvs l [.renameParents 1] w).mailboxes = 4 ∧
      runEvs l [.renameParents 0] full = full ∧ runEvs l [.renameParents 1] full = full := by
  refine ⟨by decide, by decide, by decide, by decide, by decide⟩

/-- **`ChecksInsideTx` is needed** — message limit 1, empty mailbox, two sessions APPEND at the
    same time with the schedule check₁ check₂ insert₁ insert₂: both checks see 0 + 1 ≤ 1 and both
    inserts happen: 2 messages. -/
theorem append_race_witness :
    let l := newIMAPLimits 10 1 100 100
    let w : World := { mailboxes := 1, count := 0, uidNext := 1, passed := [] }
    let evs : List Ev := [.check 1 1, .check 2 1, .insert 1, .insert 2]
    Within l w ∧ ¬ ChecksInsideTx evs ∧
      (runEvs l evs w).count = 2 ∧ ¬ Within l (runEvs l evs w) := by
  refine ⟨by decide, by simp [ChecksInsideTx, CheckThenInsert], by decide, by decide⟩

/-! ## COPY / MOVE onto a destination that already holds some of the messages -/

/-- **A replaced copy takes no room but consumes a UID** — an accepted COPY / MOVE of `n` messages of
    which `k` already have a copy in the destination leaves `count - k + n` messages and advances
    UIDNEXT by the full `n`, whatever `k` is (repeating a COPY consumes UIDs without growth). -/
theorem replace_accepted (l : IMAP) (w : World) (k n : Nat)
    (h : msgChecks l { w with count := w.count - k } n = true) :
    step l w (.replaceTx k n) = { w with count := w.count - k + n, uidNext := w.uidNext + n } := by
  simp [step, h]

/-- **A refused COPY / MOVE has no partial effect** — when a check fails the world is exactly what it
    was; in particular the `k` copies the destination held are still there (their removal is part of
    the refused transaction). -/
theorem replace_refused_unchanged (l : IMAP) (w : World) (k n : Nat)
    (h : msgChecks l { w with count := w.count - k } n = false) :
    step l w (.replaceTx k n) = w := by
  simp [step, h]

/-- **COPY / MOVE with duplicates keeps the limits** — from any world within the limits, for every
    `k` and `n`: the message count and UIDNEXT stay within the maxima (no hypothesis on the history:
    checks and insert are one transaction). -/
theorem replace_within (l : IMAP) (hl : U32Limits l) (w : World) (hw : Within l w) (k n : Nat)
    (hn : (n : Int) < 2 ^ 63) : Within l (step l w (.replaceTx k n)) := by
  simp only [step]
  split
  · rename_i hck
    have hw' : Within l { w with count := w.count - k } := by
      unfold Within at *
      simp only
      omega
    have := msgChecks_sound l hl _ hw' n hn hck
    simp only at this
    unfold Within at *
    simp only [Int.natCast_add]
    omega
  · exact hw

/-- **Fitting COPY / MOVE with duplicates is accepted** — if the destination without the `k` stale
    copies has room for `n` more and `n` further UIDs are available, the step is not refused. -/
theorem replace_complete (l : IMAP) (hl : U32Limits l) (w : World) (k n : Nat)
    (h1 : ((w.count - k : Nat) : Int) + n ≤ l.maxMessageCountPerMailbox) (h2 : (w.uidNext : Int) + n ≤ l.maxUID) :
    step l w (.replaceTx k n) = { w with count := w.count - k + n, uidNext := w.uidNext + n } := by
  apply replace_accepted
  unfold U32Limits at hl
  have := check_complete l ((w.count - k : Nat) : Int) n w.uidNext (by omega) (by omega) h1 h2 (by omega) (by omega)
  simp [msgChecks, this.1, this.2]

/-- **The UID check has to count the replaced copies** — maximum UID 7, destination with 3 messages
    and UIDNEXT 7, COPY of the same 3 messages again (`k = n = 3`): a UID check on the `n - k = 0`
    messages that take additional room would pass, yet the insert hands out the UIDs 7, 8, 9.  The
    machine (the source as it is: both checks on the full `n`) refuses and changes nothing. -/
theorem uid_check_counts_duplicates_witness :
    let l := newIMAPLimits 10 5 7 100
    let w : World := { mailboxes := 2, count := 3, uidNext := 7, passed := [] }
    Within l w ∧ checkUIDCount l w.uidNext ((3 - 3 : Nat) : Int) = none ∧
      checkMailBoxMessageCount l w.count ((3 - 3 : Nat) : Int) = none ∧
      ¬ ((w.uidNext : Int) + 3 ≤ l.maxUID) ∧ step l w (.replaceTx 3 3) = w := by
  decide

/-! ## multi-message operations of any length: all or nothing -/

/-- **A batch is all-or-nothing, whatever its length** — an in-transaction add of `n` messages (a
    connector batch, the insertion of a COPY / MOVE) either leaves the world exactly as it was or adds
    exactly `n` messages and consumes exactly `n` UIDs; there is no third outcome, for no `n`. -/
theorem batch_all_or_nothing (l : IMAP) (w : World) (n : Nat) :
    step l w (.addTx n) = w ∨
    step l w (.addTx n) = { w with count := w.count + n, uidNext := w.uidNext + n } := by
  simp only [step]
  split
  · right; rfl
  · left; rfl

/-- **…and which of the two is decided by whether the WHOLE batch fits** — for every constructible
    limit configuration and every world within the limits: the batch is applied iff count + n and
    UIDNEXT + n are within the maxima (so a batch whose first 1000 messages would fit is refused as a
    whole when the 1001st does not). -/
theorem batch_applied_iff_fits (l : IMAP) (hl : U32Limits l) (w : World) (hw : Within l w) (n : Nat)
    (hn : (n : Int) < 2 ^ 63) :
    msgChecks l w n = true ↔
      ((w.count : Int) + n ≤ l.maxMessageCountPerMailbox ∧ (w.uidNext : Int) + n ≤ l.maxUID) := by
  constructor
  · exact msgChecks_sound l hl w hw n hn
  · intro ⟨h1, h2⟩
    unfold U32Limits at hl
    have := check_complete l (w.count : Int) n w.uidNext (by omega) (by omega) h1 h2 (by omega) (by omega)
    simp [msgChecks, this.1, this.2]

/-- **One transaction per slice would NOT be all-or-nothing** — limit 2, empty mailbox, a batch of 3
    cut into slices of 2: the whole batch is refused (the machine = the source: nothing changes), the
    sliced variant keeps the first slice: 2 messages, UIDNEXT 3, although the update is answered with
    the limit error.  (With `db.ChunkLimit` = 1000 this is: limit 1000, batch of 1001 → 1000 left.) -/
theorem sliced_batch_partial_effect_witness :
    let l := newIMAPLimits 10 2 100 100
    let w : World := { mailboxes := 1, count := 0, uidNext := 1, passed := [] }
    sliceSizes 2 3 = [2, 1] ∧ step l w (.addTx 3) = w ∧
      addSlices l w (sliceSizes 2 3) = { w with count := 2, uidNext := 3 } ∧
      addSlices l w (sliceSizes 2 3) ≠ w := by
  decide

/-- **…and it shows only when the batch is refused after a full slice went in** — if the whole batch
    fits, cutting it into slices (of any sizes) gives the same world as the single transaction: batches
    that fit, and batches of at most one slice, cannot tell the two apart. -/
theorem sliced_same_when_whole_fits (l : IMAP) (hl : U32Limits l) (ks : List Nat) (w : World)
    (h1 : (w.count : Int) + (ks.sum : Nat) ≤ l.maxMessageCountPerMailbox)
    (h2 : (w.uidNext : Int) + (ks.sum : Nat) ≤ l.maxUID) :
    addSlices l w ks = { w with count := w.count + ks.sum, uidNext := w.uidNext + ks.sum } := by
  induction ks generalizing w with
  | nil => cases w; simp [addSlices]
  | cons k ks ih =>
    simp only [List.sum_cons, Int.natCast_add] at h1 h2
    have hk : msgChecks l w k = true := by
      unfold U32Limits at hl
      have := check_complete l (w.count : Int) k w.uidNext (by omega) (by omega) (by omega) (by omega) (by omega) (by omega)
      simp [msgChecks, this.1, this.2]
    simp only [addSlices, hk, if_true, step]
    rw [ih _ (by simp only [Int.natCast_add]; omega) (by simp only [Int.natCast_add]; omega)]
    simp only [List.sum_cons, Nat.add_assoc]

-- non-vacuity of `batch_applied_iff_fits` / `sliced_same_when_whole_fits`: a batch of 5 that fits exactly,
-- whole and in slices of 2
example :
    let l := newIMAPLimits 10 5 100 100
    let w : World := { mailboxes := 1, count := 0, uidNext := 1, passed := [] }
    U32Limits l ∧ Within l w ∧ msgChecks l w 5 = true ∧ msgChecks l w 6 = false ∧
      addSlices l w (sliceSizes 2 5) = step l w (.addTx 5) ∧ (step l w (.addTx 5)).count = 5 := by
  decide

/-! ## what the source does today (regenerated facts) -/

/-- **Placement of the checks in the current source** (by `decide` over the regenerated table):
    1. every `Check*` call site was classified (no unknown shape);
    2. the only count / UID checks evaluated on values read *outside* a write transaction are the
       two in `Mailbox.AppendRegular` — so `ChecksInsideTx` is not guaranteed for APPEND and is
       guaranteed by construction for every other checked path;
    3. `State.Create` reads the mailbox count, checks it bare (room for one more), builds the list of the
       missing superiors and the named mailbox, and — after the last `append` to that list and before
       the loop over it, the only place `actionCreateMailbox` (which tells the connector) is called —
       checks `count + len(list) - 1` (room for all of them): the `create` step of the model, with no
       hypothesis about implicit parents (`create_within`, `create_applied_iff_fits`);
    4. the functions that insert a mailbox or a message with no check of their own are exactly
       these four (`actionCreateMailbox` is covered once per CREATE by `State.Create`,
       `actionCreateAndGetMailbox` - `renameInbox`'s new mailbox - by `State.Rename`'s check (item 5),
       `actionCreateMessage` by `AppendRegular`'s outside check; the recovery mailbox is not covered by any check);
    5. `State.Rename` counts what it is about to create — `len` of the list of missing superiors its creating
       loop ranges over, one more when INBOX is renamed, nothing else —, and, after the last `append` to that
       list and before the loop and before every call that creates, renames or tells the connector, checks
       `count + thatNumber - 1` (count = `GetMailboxCount()`) when the number is positive: the
       `renameParents` step of the model (`rename_within`, `rename_applied_iff_fits`). -/
theorem limit_sites_today :
    (∀ s ∈ Facts.limitCheckSites, s.ctx ≠ "unknown") ∧
    ((Facts.limitCheckSites.filter (fun s => s.ctx == "read")).map (fun s => (s.func, s.method))
        = [("Mailbox.AppendRegular", "CheckMailBoxMessageCount"), ("Mailbox.AppendRegular", "CheckUIDCount")]) ∧
    (∀ s ∈ Facts.limitCheckSites, s.method ≠ "CheckUIDValidity" → s.ctx ≠ "read" →
        s.ctx = "tx" ∨ s.ctx = "tx-field") ∧
    Facts.stateCreateShape =
      { found := true, checkCalls := 2, countVar := "mailboxCount", loopOver := "mboxesToCreate", bareChecks := 1,
        wholeListChecks := 1, wholeCheckAfterListBeforeLoop := some true, createsOutsideLoop := 0,
        createsBeforeWholeCheck := 0, createInLoop := some true, checkInLoop := some false } ∧
    ((Facts.limitInsertSites.filter (fun s => !s.localCheck)).map (·.func)
        = ["State.actionCreateAndGetMailbox", "State.actionCreateMailbox", "State.actionCreateMessage",
           "State.actionCreateRecoveredMessage"]) ∧
    Facts.stateRenameShape =
      { found := true, checkCalls := 1, countVar := "mailboxCount", loopOver := "mboxesToCreate", quantityVar := "newMailboxes",
        quantityIsLenOfList := true, inboxCountsOneMore := true, otherQuantityWrites := 0,
        checkArgIsCountPlusQuantityMinusOne := true, guardedByQuantityPositive := true, checkAfterListBeforeLoop := true,
        effectsBeforeCheck := 0, effects := 5 } := by
  decide

/-- **Which limits, which quantity, how many transactions** (by `decide` over the regenerated tables):
    1. every `Check*` is called on the configured limits — a `….imapLimits` field (set from
       `gluon.WithIMAPLimits`) or a `limits.IMAP` parameter handed down (item 4) — never on
       `limits.DefaultLimits()` or a local value;
    2. the quantity of every mailbox-count check is "one more" (a bare count), in `State.Rename` the counted number
       of mailboxes it is about to create (`stateRenameShape.quantityVar`, see `limit_sites_today` item 5) or, in `State.Create`,
       "`len` of the list more" — `State.Create` has exactly these two, the second on the list its
       creating loop ranges over (`stateCreateShape.loopOver`); the quantity of every message-count / UID check is the literal 1 (APPEND) or `len` of a slice
       parameter of the function, and that very slice is what the function then inserts
       (`tx.AddMessagesToMailbox(…, p)`): no check on a discounted or otherwise derived number
       (cf. `uid_check_counts_duplicates_witness`); an unknown shape fails here;
    3. the shared insertion helpers with a limits parameter are called from exactly these five
       functions;
    4. every argument passed for a `limits.IMAP` parameter anywhere in internal/state,
       internal/backend, internal/session and the root package is a configured field or a
       passed-through parameter;
    5. `Mailbox.Copy` and `Mailbox.Move` open exactly one write transaction each: de-duplication,
       checks, removal from the source and insertion commit or roll back together
       (`replace_refused_unchanged` is the model's statement of that). -/
theorem limit_quantities_today :
    (∀ s ∈ Facts.limitCheckSites, s.limitsKind = "configured" ∨ s.limitsKind = "param") ∧
    ((∀ s ∈ Facts.limitCheckSites, (s.quantity = "n/a" ∧ s.method = "CheckUIDValidity") ∨
          (s.quantity = "one-more" ∧ s.method = "CheckMailBoxCount") ∨ s.quantity = "one" ∨ s.quantity = "len-of-param" ∨
          (s.quantity = "len-of-list-more" ∧ s.func = "State.Create") ∨
          (s.quantity = "var-more" ∧ s.func = "State.Rename" ∧ s.quantityOf = Facts.stateRenameShape.quantityVar ∧ s.ctx = "tx")) ∧
      ((Facts.limitCheckSites.filter (fun s => s.func == "State.Create" && s.method == "CheckMailBoxCount")).map
          (fun s => (s.quantity, s.quantityOf, s.ctx))
        = [("one-more", "", "tx"), ("len-of-list-more", Facts.stateCreateShape.loopOver, "tx")]) ∧
      (Facts.limitCheckSites.all fun s => s.quantity != "len-of-param" ||
        Facts.limitInsertSites.any fun i => i.func == s.func && i.kind == "message" && i.what == s.quantityOf) = true) ∧
    ((Facts.limitArgSites.filter (fun a => a.callee == "state.AddMessagesToMailbox" || a.callee == "state.MoveMessagesFromMailbox")).map (·.func)
        = ["user.applyMessagesAddedToMailbox", "user.applyMessageUpdated", "State.actionAddMessagesToMailbox",
           "State.actionAddRecoveredMessagesToMailbox", "State.actionMoveMessages"]) ∧
    (∀ a ∈ Facts.limitArgSites, a.kind = "configured" ∨ a.kind = "param") ∧
    ((Facts.mailboxTxShapes.filter (fun s => s.func == "Mailbox.Copy" || s.func == "Mailbox.Move")).map (fun s => (s.func, s.writes))
        = [("Mailbox.Copy", 1), ("Mailbox.Move", 1)]) := by
  decide

/-- **A connector update is one write transaction, whatever its length** (by `decide` over the
    regenerated table `Facts.updateTxShapes`, read off internal/backend/connector_updates.go):
    1. `applyMessagesCreated` opens exactly one write transaction (`userDBWrite`) in its own body, none
       through a method it calls, and not from inside a `for` / `range` statement — the limit checks of
       the whole batch and all its insertions commit or roll back together (`batch_all_or_nothing` is
       the model's statement; a handler that cuts the update into slices with a transaction each is
       `addSlices`, `sliced_batch_partial_effect_witness`);
    2. no handler of any update kind opens a write transaction from inside a loop, directly or through
       another `user` method;
    3. every handler opens at most one write transaction on any path (`applyMessageUpdated` has two
       call sites on exclusive paths: its own, and `applyMessagesCreated` for an unknown message). -/
theorem connector_update_one_transaction_today :
    ((Facts.updateTxShapes.filter (fun s => s.func == "user.applyMessagesCreated")).map
        (fun s => (s.writes, s.writesInLoop, s.txTotal, s.txInLoop)) = [(1, 0, 1, false)]) ∧
    (∀ s ∈ Facts.updateTxShapes, s.txInLoop = false ∧ s.writesInLoop = 0) ∧
    ((Facts.updateTxShapes.filter (fun s => s.func != "user.apply" && s.txTotal > 1)).map (fun s => (s.func, s.writes, s.txTotal))
        = [("user.applyMessageUpdated", 1, 2)]) := by
  decide

-- non-vacuity of `replace_accepted` / `replace_within` / `replace_complete`: the same three messages copied a second
-- time into a full mailbox (k = n = 3) are accepted and consume three UIDs
example :
    let l := newIMAPLimits 10 3 10 100
    let w : World := { mailboxes := 2, count := 3, uidNext := 4, passed := [] }
    U32Limits l ∧ Within l w ∧ step l w (.replaceTx 3 3) = { w with uidNext := 7 } := by
  decide

-- non-vacuity of `replace_refused_unchanged`: one duplicate, two further messages, room for one
example :
    let l := newIMAPLimits 10 3 100 100
    let w : World := { mailboxes := 2, count := 3, uidNext := 4, passed := [] }
    msgChecks l { w with count := w.count - 1 } 2 = false ∧ step l w (.replaceTx 1 2) = w := by
  decide

-- non-vacuity of `limits_invariant_partial`: a history that satisfies all hypotheses and fills the
-- mailbox exactly to its limit, then is refused
example :
    let l := newIMAPLimits 3 3 100 100
    let w : World := { mailboxes := 1, count := 0, uidNext := 1, passed := [] }
    let evs : List Ev := [.create 1, .create 0, .renameParents 0, .renameParents 1, .addTx 2, .check 7 1, .insert 7, .addTx 1, .remove 1, .addTx 1, .replaceTx 2 2]
    U32Limits l ∧ Within l w ∧ ChecksInsideTx evs ∧ EvsInt64 evs ∧
      runEvs l evs w = { mailboxes := 3, count := 3, uidNext := 7, passed := [] } := by
  refine ⟨by decide, by decide, by simp [ChecksInsideTx, CheckThenInsert],
    by simp [EvsInt64], by decide⟩

end Gluon.C17
