/-
C16 — Message sets select exactly the messages RFC 3501 says, or the command fails.

Property theorems only; helper lemmas live in `GluonModel/Lemmas/SeqSet*.lean`.

Model: `GluonModel/Model/SeqSet.lean` — from the TEXT of a sequence set (`rfcparser.ParseNumber`,
`command.ParseSeqSet`) to the selected messages (`snapMsgList.getMessagesInSeqRange` /
`getMessagesInUIDRange` with `resolveSeq`, `resolveUID`, `getWithSeqID`, `seqRange`, `uidRange`,
the binary search), Go's `int → uint32` conversions, 64-bit wrap-around and slice panics explicit.
Spec: `GluonModel/Spec/SeqSetSpec.lean` — RFC 3501 selection over a view, numbers unbounded.
Tie: correspondence dialects `resolve` (verifhooks.Resolve) and `seqset-parse` (the real parser,
then the real resolve functions), judged by `judge-c16-*`.

`selectText uidMode s text` is the whole pipeline.  Its outcomes: `.bad` (parse error) and
`.failed .noSuchMessage` (ErrNoSuchMessage) both become a tagged BAD; `.failed .panic` is a Go panic;
`.selected ms` are the messages the command works on.

History: before fix d71238c (`ParseNumber` rejects values above 2^32-1) the full statements were
false — `FETCH 4294967297` selected message 1, `FETCH 4294967296` panicked.  The raw resolve
functions still behave like that on out-of-range `SeqNum`s (`raw_resolve_truncates`,
`raw_resolve_panics` below); `parser_range` shows such values no longer reach them.  Before fix
5288904 (`snapshot.getMessagesInRange` removes repetitions) `COPY 1,1` failed with NO
(`overlapping_items_selected_once`).
-/
import GluonModel.Lemmas.SeqSetSearch
import GluonModel.Generated.Facts.MsgSet

namespace Gluon.C16

open Gluon Gluon.SeqSet Gluon.SeqSetSpec

/-! ### the parser -/

/-- **Any digit string, any magnitude** — `ParseNumber` on a non-empty string of digits (any
    length, leading zeros allowed) followed by a non-digit returns its decimal value if that is at
    most 2^32-1 and a parse error otherwise.  There is no wrap-around at 2^64 and no truncation. -/
theorem parseNumber_any_digit_string (ds : List Char) (rest : Input) (hne : ds ≠ [])
    (hd : AllDigits ds) (hr : NoDigitHead rest) :
    parseNumber (ds ++ rest) = if decVal ds ≤ 4294967295 then some (((decVal ds : Nat) : Int), rest) else none :=
  parseNumber_spec ds rest hne hd hr

/-- **What the parser lets through** — for every input text whatsoever, every number of a
    successfully parsed sequence set is `*` (0) or lies in 1 … 2^32-1: `imap.SeqID(number)` and
    `imap.UID(number)` never truncate on parser output. -/
theorem parser_range (text : Input) (set : List SeqRange) (rest : Input)
    (h : parseSeqSet text = some (set, rest)) : InParserRange set :=
  parseSeqSet_range text set rest h

/-- **The text of an RFC sequence set parses to that set** — for every abstract set (numbers of
    any magnitude) the text an RFC-conforming client sends for it parses to exactly its items when
    all numbers fit into 32 bits, and is a parse error (BAD) otherwise. -/
theorem parse_rfc_text (S : SSet) (h : RFCSet S) :
    parseSeqSet (renderSet S) = if S.all fitsItem then some (S.map concItem, []) else none :=
  parseSeqSet_render S h.1 h.2

/-! ### message sequence numbers -/

/-- **Sequence sets, resolve level** — for every snapshot and every set with numbers in the
    parser's range, `getMessagesInSeqRange` returns exactly the RFC 3501 selection (single numbers,
    ranges in either order, `*` = last message, unions, in set order) or fails with
    ErrNoSuchMessage exactly when RFC 3501 demands BAD. -/
theorem seqset_spec (s : Snap) (set : List SeqRange) (hl : s.length < 4294967296) (hr : InParserRange set) :
    match selectSeq s.uids (absSet set) with
    | some sel => ∃ ms, getMessagesInSeqRange s set = .ok ms ∧ ms.map obs = sel
    | none => getMessagesInSeqRange s set = .error .noSuchMessage := by
  rw [getMessagesInSeqRange_eq]
  exact seqSet_spec s set hl hr

/-- **Rejected sets, whole pipeline, all magnitudes** — for every RFC sequence set `S` (numbers
    unbounded) for which RFC 3501 demands BAD (a number beyond the count, `*` on an empty mailbox),
    the command fails: with a parse error when a number does not fit into 32 bits, with
    ErrNoSuchMessage otherwise. -/
theorem text_seqset_rejected (s : Snap) (S : SSet) (hS : RFCSet S) (hl : s.length < 4294967296)
    (hnone : selectSeq s.uids S = none) :
    selectText false s (renderSet S) = if S.all fitsItem then .failed .noSuchMessage else .bad := by
  have hp := parse_rfc_text S hS
  by_cases hfit : S.all fitsItem = true
  · rw [if_pos hfit] at hp
    have h := seqset_spec s (S.map concItem) hl (inParserRange_concSet S hfit)
    rw [selectSeq_abs s.uids S hS.2, hnone] at h
    simp only [hfit, if_true]
    exact selectText_err hp (getMessagesInRange_err (by simpa using h))
  · rw [if_neg hfit] at hp
    simp only [hfit]
    exact selectText_bad hp

/-- **Sequence sets, whole pipeline, all magnitudes** — for every RFC sequence set `S` (numbers
    unbounded) and every view satisfying the snapshot invariant: if RFC 3501 selects messages
    (`sel`, listed item by item), the command works on exactly those messages, each once (a
    message named by several items is selected once — `snapshot.getMessagesInRange`), in the order
    of their first occurrence; otherwise the command fails (`text_seqset_rejected`). -/
theorem text_seqset_spec (s : Snap) (inv : Snap.Inv s) (S : SSet) (hS : RFCSet S) (hl : s.length < 4294967296) :
    match selectSeq s.uids S with
    | some sel => ∃ ms, selectText false s (renderSet S) = .selected ms ∧ ms.map obs = asSet sel
    | none => selectText false s (renderSet S) = if S.all fitsItem then .failed .noSuchMessage else .bad := by
  cases hsel : selectSeq s.uids S with
  | none => exact text_seqset_rejected s S hS hl hsel
  | some sel =>
    have hfit : S.all fitsItem = true := by
      apply Classical.byContradiction
      intro hfit
      obtain ⟨it, hit, n, hn, hbig⟩ := exists_big_of_not_fits S hfit
      have := selectSeq_none_of_beyond s.uids S it hit n hn (by rw [uids_length]; omega)
      rw [hsel] at this; cases this
    have hp := parse_rfc_text S hS
    rw [if_pos hfit] at hp
    have h := seqset_spec s (S.map concItem) hl (inParserRange_concSet S hfit)
    rw [selectSeq_abs s.uids S hS.2, hsel] at h
    obtain ⟨msgs, hms, hobs⟩ := h
    obtain ⟨ms, h1, _, _, _, h5⟩ := range_selection false s inv hl (S.map concItem) msgs (by simpa using hms)
    rw [hobs] at h5
    exact ⟨ms, selectText_ok hp h1, h5⟩

/-- **Beyond the count is an error — however large** — if an RFC sequence set contains a number
    `n` greater than the number of messages in the view (any `n : Nat`: 2^32+1, 2^64+1, 10^30 …),
    the command fails with BAD (parse error or ErrNoSuchMessage); the number is never mapped onto
    some other message, and nothing panics. -/
theorem beyond_count_is_error (s : Snap) (S : SSet) (hS : RFCSet S) (hl : s.length < 4294967296)
    (it : SItem) (hit : it ∈ S) (n : Nat) (hn : SNum.num n ∈ it.nums) (hbeyond : s.length < n) :
    selectText false s (renderSet S) = .bad ∨ selectText false s (renderSet S) = .failed .noSuchMessage := by
  have h := text_seqset_rejected s S hS hl
    (selectSeq_none_of_beyond s.uids S it hit n hn (by rw [uids_length]; exact hbeyond))
  by_cases hfit : S.all fitsItem = true
  · right; simpa [hfit] using h
  · left; simpa [hfit] using h

/-- **`*` on an empty mailbox is an error** (RFC 3501: "This includes "*" if the selected mailbox
    is empty"). -/
theorem star_on_empty_is_error (S : SSet) (hS : RFCSet S) (it : SItem) (hit : it ∈ S) (hstar : SNum.star ∈ it.nums) :
    selectText false [] (renderSet S) = .bad ∨ selectText false [] (renderSet S) = .failed .noSuchMessage := by
  have hnone : selectSeq (Snap.uids []) S = none := by
    induction S with
    | nil => simp at hit
    | cons it' rest ih =>
      simp only [selectSeq]
      simp only [List.mem_cons] at hit
      rcases hit with rfl | hit
      · have hv : seqVal (Snap.uids []) .star = none := rfl
        have : selectSeqItem (Snap.uids []) it = none := by
          cases it with
          | one a =>
            simp only [SItem.nums, List.mem_singleton] at hstar
            subst hstar; exact selectSeqItem_one_none hv
          | range a b =>
            simp only [SItem.nums, List.mem_cons, List.not_mem_nil, or_false] at hstar
            rcases hstar with rfl | rfl
            · exact selectSeqItem_range_none_left hv
            · exact selectSeqItem_range_none_right hv
        simp [this]
      · rw [ih ⟨by intro h; simp [h] at hit, fun x hx => hS.2 x (by simp [hx])⟩ hit]
        cases selectSeqItem (Snap.uids []) it' <;> rfl
  have h := text_seqset_rejected [] S hS (by decide) hnone
  by_cases hfit : S.all fitsItem = true
  · right; simpa [hfit] using h
  · left; simpa [hfit] using h

/-- **The reference selection is the RFC rule** — the list `selectSeq` computes (what the theorems
    above compare the implementation with) succeeds exactly when every number of the set is a
    sequence number of the view (`ValidSeq`: `n ≤ count`, `*` only on a non-empty view), and then
    contains exactly the sequence numbers `k` that some item selects (`SelectedSeq`: `k` is the
    number, or lies between the two ends of a range taken in either order, `*` = count). -/
theorem reference_selection_is_rfc_rule (v : View) (S : SSet) :
    ((selectSeq v S).isSome ↔ ValidSeq v S) ∧
      ∀ l, selectSeq v S = some l → ∀ k, (∃ u, (k, u) ∈ l) ↔ SelectedSeq v S k :=
  ⟨selectSeq_isSome_iff v S, fun l h k => selectSeq_mem_iff v S l h k⟩

/-- **The length hypothesis is a fact about 32-bit UIDs** — a snapshot satisfying the invariant
    whose UIDs are non-zero `uint32` values has fewer than 2^32 messages (the hypothesis
    `s.length < 2^32` of the other theorems, needed because `imap.SeqID(len)` is a conversion). -/
theorem view_length_fits (s : Snap) (inv : Snap.Inv s) (h : ∀ m ∈ s, 1 ≤ m.uid ∧ m.uid < 4294967296) :
    s.length < 4294967296 :=
  length_lt_of_u32 s inv.asc h

/-! ### UIDs -/

/-- **UID sets, resolve level** — on a snapshot satisfying the snapshot invariant, for every set
    with numbers in the parser's range, `getMessagesInUIDRange` never fails and returns exactly the
    RFC 3501 selection of the items that are judged (absent UIDs skipped silently, `*` = highest
    UID, ranges in either order); the one excluded case, `n:*` with `n` above the highest UID,
    contributes nothing. -/
theorem uidset_spec (s : Snap) (inv : Snap.Inv s) (set : List SeqRange) (hl : s.length < 4294967296)
    (hr : InParserRange set) :
    ∃ ms, getMessagesInUIDRange s set = .ok ms ∧
      ms.map obs = selectUID s.uids ((absSet set).filter (fun it => !excludedUIDItem s.uids it)) := by
  by_cases hne : s.length = 0
  · have : s = [] := List.eq_nil_of_length_eq_zero hne
    subst this
    exact ⟨[], by simp [getMessagesInUIDRange], by simp [selectUID, Snap.uids]⟩
  · rw [getMessagesInUIDRange_eq s hne]
    obtain ⟨ms, hms, hobs⟩ := uidSet_spec s inv.asc hl set hr
    refine ⟨ms, hms, ?_⟩
    have : s.uids ≠ [] := by
      intro h; apply hne; rw [← uids_length, h]; rfl
    simp only [selectUID, this, if_false, hobs]

/-- **UID sets, whole pipeline, all magnitudes** — for every RFC sequence set (numbers unbounded)
    used as a UID set: when all numbers fit into 32 bits the command works on exactly the messages
    of the RFC 3501 selection of the judged items (see `uidset_spec`), each once; a number of 2^32
    or more — which is not an `nz-number` of the grammar — is a parse error (BAD), never some other
    UID. -/
theorem text_uidset_spec (s : Snap) (inv : Snap.Inv s) (S : SSet) (hS : RFCSet S) (hl : s.length < 4294967296) :
    if S.all fitsItem then
      ∃ ms, selectText true s (renderSet S) = .selected ms ∧
        ms.map obs = asSet (selectUID s.uids (S.filter (fun it => !excludedUIDItem s.uids it)))
    else selectText true s (renderSet S) = .bad := by
  have hp := parse_rfc_text S hS
  by_cases hfit : S.all fitsItem = true
  · rw [if_pos hfit] at hp
    simp only [hfit, if_true]
    obtain ⟨msgs, hms, hobs⟩ := uidset_spec s inv (S.map concItem) hl (inParserRange_concSet S hfit)
    obtain ⟨ms, h1, _, _, _, h6⟩ := range_selection true s inv hl (S.map concItem) msgs (by simpa using hms)
    refine ⟨ms, selectText_ok hp h1, ?_⟩
    have : selectUID s.uids ((absSet (S.map concItem)).filter (fun it => !excludedUIDItem s.uids it))
        = selectUID s.uids (S.filter (fun it => !excludedUIDItem s.uids it)) := by
      by_cases hv : s.uids = []
      · simp [selectUID, hv]
      · simp only [selectUID, hv, if_false]
        exact selectUID_filter_abs s.uids S hS.2
    rw [hobs, this] at h6
    exact h6
  · rw [if_neg hfit] at hp
    simp only [hfit]
    exact selectText_bad hp

/-- **No excluded range, no exception** — if the set has no `n:*` with `n` above the highest UID,
    a UID command works on exactly the messages of the RFC 3501 selection, each once. -/
theorem text_uidset_spec_full (s : Snap) (inv : Snap.Inv s) (S : SSet) (hS : RFCSet S) (hl : s.length < 4294967296)
    (hfit : S.all fitsItem = true) (hex : ∀ it ∈ S, excludedUIDItem s.uids it = false) :
    ∃ ms, selectText true s (renderSet S) = .selected ms ∧ ms.map obs = asSet (selectUID s.uids S) := by
  have h := text_uidset_spec s inv S hS hl
  simp only [hfit, if_true] at h
  obtain ⟨ms, h1, h3⟩ := h
  refine ⟨ms, h1, ?_⟩
  have : S.filter (fun it => !excludedUIDItem s.uids it) = S := by
    apply List.filter_eq_self.mpr
    intro it hit; simp [hex it hit]
  rw [this] at h3
  exact h3

/-- **The excluded case is what the property says it is** — a UID range `n:*` with `n` above the
    highest UID selects nothing ("the server deliberately returns nothing"). -/
theorem uid_excluded_range_selects_nothing (s : Snap) (inv : Snap.Inv s) (hl : s.length < 4294967296)
    (n : Nat) (h1 : 1 ≤ n) (h32 : n < 4294967296) (hn : maxUID s.uids < n) :
    getMessagesInUIDRange s [⟨(n : Int), 0⟩] = .ok [] := by
  obtain ⟨ms, hms, hobs⟩ := uidset_spec s inv [⟨(n : Int), 0⟩] hl (by
    intro r hr; simp only [List.mem_singleton] at hr; subst hr; simp only []; omega)
  have hn0 : ¬ n = 0 := by omega
  have hex : excludedUIDItem s.uids (absRange ⟨(n : Int), 0⟩) = true := by
    simp [absRange, absNum, excludedUIDItem, hn0, hn]
  have : ms.map obs = [] := by
    rw [hobs]; simp [absSet, hex, selectUID]
  rw [hms]
  cases ms with
  | nil => rfl
  | cons m ms => simp at this

/-! ### no panic, and the pairs returned are genuine -/

/-- **No slice or index panic for any input text** — whatever bytes arrive as the message-set
    argument (valid or not, any magnitude), in sequence-number and in UID mode, resolution never
    panics: not in `getWithSeqID`, `seqRange`, `uidRange`, `getWithUID`, `last`. -/
theorem no_panic (uidMode : Bool) (s : Snap) (inv : Snap.Inv s) (hl : s.length < 4294967296) (text : Input) :
    selectText uidMode s text ≠ .failed .panic := by
  cases hp : parseSeqSet text with
  | none => rw [selectText_bad hp]; intro h; cases h
  | some p =>
    obtain ⟨set, rest⟩ := p
    have hr := parser_range text set rest hp
    cases uidMode with
    | true =>
      obtain ⟨ms, hms, _⟩ := uidset_spec s inv set hl hr
      rw [selectText_ok hp (getMessagesInRange_ok (by simpa using hms))]
      intro h; cases h
    | false =>
      have h := seqset_spec s set hl hr
      cases hsel : selectSeq s.uids (absSet set) with
      | some sel =>
        rw [hsel] at h
        obtain ⟨ms, hms, _⟩ := h
        rw [selectText_ok hp (getMessagesInRange_ok (by simpa using hms))]
        intro h; cases h
      | none =>
        rw [hsel] at h
        rw [selectText_err hp (getMessagesInRange_err (by simpa using h))]
        intro h; cases h

/-- **UID resolution never fails or panics, even on raw values** — on a snapshot satisfying the
    invariant, `getMessagesInUIDRange` returns without error for every list of Go-int pairs
    (negative, ≥ 2^32, anything). -/
theorem uid_resolution_total (s : Snap) (inv : Snap.Inv s) (set : List SeqRange) :
    ∃ ms, getMessagesInUIDRange s set = .ok ms := by
  by_cases hne : s.length = 0
  · exact ⟨[], by simp [getMessagesInUIDRange, hne]⟩
  · rw [getMessagesInUIDRange_eq s hne]
    exact uid_collect_ok s inv.asc _ set

/-- **A returned sequence number names the message returned with it** — for every list of Go-int
    pairs (raw values included), whenever resolution succeeds each returned `(Seq, message)` pair
    is genuine: the message is the one at position `Seq` of the snapshot.  (FETCH / STORE / COPY
    report and modify the message the client addressed, never a neighbour.) -/
theorem selected_messages_sound (s : Snap) (inv : Snap.Inv s) (hl : s.length < 4294967296)
    (set : List SeqRange) (ms : List SeqMsg) :
    (getMessagesInSeqRange s set = .ok ms ∨ getMessagesInUIDRange s set = .ok ms ∨
      (∃ uidMode, getMessagesInRange uidMode s set = .ok ms)) →
      ∀ m ∈ ms, 1 ≤ m.seq ∧ s[m.seq - 1]? = some m.msg := by
  intro h
  rcases h with h | h | ⟨uidMode, h⟩
  · exact seqResolve_sound s hl set ms h
  · exact uidResolve_sound s inv.asc hl set ms h
  · cases hu : (if uidMode then getMessagesInUIDRange s set else getMessagesInSeqRange s set) with
    | error e => rw [getMessagesInRange_err hu] at h; cases h
    | ok msgs =>
      rw [getMessagesInRange_ok hu] at h
      cases h
      have hs : ∀ m ∈ msgs, SoundAt s m := by
        cases uidMode with
        | true => exact uidResolve_sound s inv.asc hl set msgs (by simpa using hu)
        | false => exact seqResolve_sound s hl set msgs (by simpa using hu)
      exact fun m hm => hs m ((uniqueById_sublist [] msgs).subset hm)

/-- **A selection is a set** — whatever the resolve functions return (for every list of Go-int
    pairs), `snapshot.getMessagesInRange` hands FETCH / STORE / COPY / MOVE / UID EXPUNGE the same
    messages with every message exactly once, in the order of first occurrence (fix 5288904:
    `COPY 1,1` used to insert the message twice and fail). -/
theorem selection_is_a_set (uidMode : Bool) (s : Snap) (inv : Snap.Inv s) (hl : s.length < 4294967296)
    (set : List SeqRange) (msgs : List SeqMsg)
    (h : (if uidMode then getMessagesInUIDRange s set else getMessagesInSeqRange s set) = .ok msgs) :
    ∃ ms, getMessagesInRange uidMode s set = .ok ms ∧ (ms.map (·.msg.id)).Nodup ∧ ms.Sublist msgs ∧
      (∀ m, m ∈ ms ↔ m ∈ msgs) ∧ ms.map obs = asSet (msgs.map obs) := by
  exact range_selection uidMode s inv hl set msgs h

/-- **`asSet` is the set** — the duplicate-free list the theorems above equate the command's
    selection with has no repetition, exactly the members of the item-by-item list, in the order
    of first mention (it is a sublist of it): RFC 3501's set semantics for FETCH, STORE, COPY, MOVE
    and UID EXPUNGE at full strength. -/
theorem selection_set_semantics (l : List Sel) :
    (asSet l).Nodup ∧ (asSet l).Sublist l ∧ ∀ e, e ∈ asSet l ↔ e ∈ l :=
  asSet_spec l

/-- **The binary search finds the insertion point** — on ascending UIDs the loop of
    `slices.BinarySearchFunc` (as written, with `int(s1.UID) - int(s2.UID)`) returns the number of
    messages with a smaller UID. -/
theorem binary_search_is_lower_bound (s : Snap) (inv : Snap.Inv s) (uid : Nat) :
    (binarySearchByUID s uid).1 = Snap.lowerBound s uid :=
  binarySearch_fst s uid inv.asc

/-! ### which code gets to see a message set (regenerated from the source) -/

/-- **Message sets reach only the modelled functions** — the table of every use of a
    `[]command.SeqRange` value in internal/session and internal/state (regenerated with go/types on
    every check, `Generated/Facts/MsgSet.lean`) is exactly this: the session handlers hand
    `cmd.SeqSet` to `Mailbox.Copy/Move/Store/Expunge` (FETCH hands over the whole command); the
    Mailbox methods hand it to `snapshot.getMessagesInRange` and nothing else (`Expunge` also tests
    it for nil: plain EXPUNGE); the two SEARCH keys hand it to `snapshot.resolveSeqInterval` /
    `resolveUIDInterval`; the snapshot wrappers forward to the `snapMsgList` functions of the Lean
    model; and only `snapMsgList.resolveSeqInterval` / `resolveUIDInterval` take a set apart
    (`range`, `len`).  A handler that walks a set itself or a new consumer changes the table and
    this theorem no longer checks. -/
theorem message_sets_reach_only_modelled_functions :
    Facts.msgSetProblems = [] ∧
    Facts.msgSetUses.map (fun u => (u.fn, u.kind, u.callee, u.arg)) = [
      ("Session.handleCopy", "arg", "Mailbox.Copy", 1),
      ("Session.handleMove", "arg", "Mailbox.Move", 1),
      ("Session.handleStore", "arg", "Mailbox.Store", 1),
      ("Session.handleUIDExpunge", "arg", "Mailbox.Expunge", 1),
      ("Mailbox.Copy", "arg", "snapshot.getMessagesInRange", 1),
      ("Mailbox.Expunge", "arg", "snapshot.getMessagesInRange", 1),
      ("Mailbox.Expunge", "other", "test:seq != nil", 0),
      ("Mailbox.Fetch", "arg", "snapshot.getMessagesInRange", 1),
      ("Mailbox.Move", "arg", "snapshot.getMessagesInRange", 1),
      ("Mailbox.Store", "arg", "snapshot.getMessagesInRange", 1),
      ("buildSearchOpSeqSet", "arg", "snapshot.resolveSeqInterval", 0),
      ("buildSearchOpUID", "arg", "snapshot.resolveUIDInterval", 0),
      ("snapMsgList.getMessagesInSeqRange", "arg", "snapMsgList.resolveSeqInterval", 0),
      ("snapMsgList.getMessagesInUIDRange", "arg", "snapMsgList.resolveUIDInterval", 0),
      ("snapMsgList.resolveSeqInterval", "other", "*ast.RangeStmt", 0),
      ("snapMsgList.resolveSeqInterval", "arg", "builtin.len", 0),
      ("snapMsgList.resolveUIDInterval", "other", "*ast.RangeStmt", 0),
      ("snapMsgList.resolveUIDInterval", "arg", "builtin.len", 0),
      ("snapshot.getMessagesInRange", "arg", "snapshot.getMessagesInSeqRange", 0),
      ("snapshot.getMessagesInRange", "arg", "snapshot.getMessagesInUIDRange", 0),
      ("snapshot.getMessagesInSeqRange", "arg", "snapMsgList.getMessagesInSeqRange", 0),
      ("snapshot.getMessagesInUIDRange", "arg", "snapMsgList.getMessagesInUIDRange", 0),
      ("snapshot.resolveSeqInterval", "arg", "snapMsgList.resolveSeqInterval", 0),
      ("snapshot.resolveUIDInterval", "arg", "snapMsgList.resolveUIDInterval", 0)] := by
  decide

/-! ### SEARCH with a message-set key -/

/-- **SEARCH does not reject a number beyond the count** (the full statement "any sequence number
    beyond the count makes the command fail" is FALSE for SEARCH today) — `SEARCH 7` on a
    three-message view answers with an empty result instead of failing, and `SEARCH *` on an empty
    mailbox likewise: `buildSearchOpSeqSet` only resolves the set, the `existsWithSeqID` checks of
    `getMessagesInSeqRange` are missing.  Replayed on the real server by the oracle `c16wire`
    (`case SEARCH 2 3`). -/
theorem search_beyond_count_not_rejected :
    searchSeqSet [Snap.mkMsg 1 3 [], Snap.mkMsg 2 5 [], Snap.mkMsg 3 9 []] [⟨7, 7⟩] = .ok [] ∧
    searchSeqSet [] [⟨0, 0⟩] = .ok [] ∧
    getMessagesInSeqRange [Snap.mkMsg 1 3 [], Snap.mkMsg 2 5 [], Snap.mkMsg 3 9 []] [⟨7, 7⟩] = .error .noSuchMessage := by
  refine ⟨by rfl, by rfl, by rfl⟩

/-- **SEARCH on a valid set** (partial: hypothesis `hvalid` = no number of the set lies beyond
    the count, i.e. RFC 3501 selects `sel`) — `SEARCH <sequence set>` answers with exactly the
    messages RFC 3501 selects, each under its own sequence number. -/
theorem search_seqset_partial (s : Snap) (set : List SeqRange) (hl : s.length < 4294967296)
    (hr : InParserRange set) (sel : List Sel) (hvalid : selectSeq s.uids (absSet set) = some sel) :
    ∃ ms, searchSeqSet s set = .ok ms ∧ (∀ m ∈ ms, 1 ≤ m.seq ∧ s[m.seq - 1]? = some m.msg) ∧
      ∀ k, (∃ m ∈ ms, m.seq = k) ↔ ∃ u, (k, u) ∈ sel := by
  refine ⟨_, searchSeqSet_eq s set, ?_, ?_⟩
  · intro m hm
    exact allWithSeq_sound s hl m (List.mem_filter.mp hm).1
  · intro k
    constructor
    · rintro ⟨m, hm, rfl⟩
      exact (valid_cover s hl set hr sel hvalid m.seq).mp (List.mem_filter.mp hm).2
    · rintro ⟨u, hu⟩
      obtain ⟨h1, h2⟩ := mem_selectSeq_bounds s.uids _ sel hvalid k u hu
      have hlt : k - 1 < s.length := by
        have := (List.getElem?_eq_some_iff.mp h2).1
        rw [uids_length] at this; exact this
      refine ⟨⟨k, s[k - 1]⟩, List.mem_filter.mpr ⟨allWithSeq_complete s hl k _ h1 (List.getElem?_eq_getElem hlt), ?_⟩, rfl⟩
      exact (valid_cover s hl set hr sel hvalid k).mpr ⟨u, hu⟩

/-- **SEARCH UID on an empty mailbox fails** (the full statement "UID sets silently skip UIDs that
    do not exist" is FALSE for SEARCH on an empty mailbox today) — `resolveUID` returns
    ErrNoSuchMessage on an empty snapshot; `getMessagesInUIDRange` shields it with its early return
    (UID FETCH 1 answers OK), `buildSearchOpUID` does not (`SEARCH UID 1` answers NO).  Replayed on
    the real server by the oracle `c16wire` (`case SEARCHUID 0 1`). -/
theorem search_uid_on_empty_fails :
    searchUIDSet [] [⟨1, 1⟩] = .error .noSuchMessage ∧ getMessagesInUIDRange [] [⟨1, 1⟩] = .ok [] := by
  refine ⟨by rfl, by rfl⟩

/-- **SEARCH UID on a non-empty mailbox** (partial: hypothesis `hne`) — `SEARCH UID <set>`
    answers with exactly the messages of the RFC 3501 UID selection of the judged items (`n:*`
    above the highest UID contributes nothing, as for UID FETCH). -/
theorem search_uidset_partial (s : Snap) (inv : Snap.Inv s) (set : List SeqRange) (hl : s.length < 4294967296)
    (hr : InParserRange set) (hne : s.length ≠ 0) :
    ∃ ms, searchUIDSet s set = .ok ms ∧
      ∀ m, m ∈ ms ↔ (m ∈ allWithSeq s ∧
        obs m ∈ selectUID s.uids ((absSet set).filter (fun it => !excludedUIDItem s.uids it))) := by
  refine ⟨_, searchUIDSet_eq s hne set, ?_⟩
  intro m
  have hv : s.uids ≠ [] := by
    intro h; apply hne; rw [← uids_length, h]; rfl
  simp only [selectUID, hv, if_false, List.mem_filter]
  constructor
  · rintro ⟨h1, h2⟩
    exact ⟨h1, (uid_cover s inv.asc hl set hr m h1).mp h2⟩
  · rintro ⟨h1, h2⟩
    exact ⟨h1, (uid_cover s inv.asc hl set hr m h1).mpr h2⟩

/-- **Overlapping items, raw resolve function** — `1,1` (or `1:3,2`, `*,1:*`) makes
    `snapMsgList.getMessagesInSeqRange` return the same message twice (the item-by-item list
    `selectSeq` describes). -/
theorem overlapping_items_select_twice :
    getMessagesInSeqRange [Snap.mkMsg 1 3 []] [⟨1, 1⟩, ⟨1, 1⟩] = .ok [⟨1, Snap.mkMsg 1 3 []⟩, ⟨1, Snap.mkMsg 1 3 []⟩] := by
  rfl

/-- **Overlapping items, what the command sees** — `snapshot.getMessagesInRange` removes the
    repetition (fix 5288904; before it COPY and MOVE inserted the message twice and failed with NO —
    finding F1, wire reproducer `case COPY 2 1,1`). -/
theorem overlapping_items_selected_once :
    getMessagesInRange false [Snap.mkMsg 1 3 []] [⟨1, 1⟩, ⟨1, 1⟩] = .ok [⟨1, Snap.mkMsg 1 3 []⟩] := by
  rfl

/-! ### the raw resolve functions outside the parser's range (history of defect #1) -/

/-- `getMessagesInSeqRange` given the raw `SeqNum` 2^32+1 on a one-message view returns message 1:
    `imap.SeqID(number)` truncates.  Since fix d71238c the parser never produces such a value
    (`parser_range`); the text `4294967297` is rejected (`text_beyond_32_bits_is_bad`). -/
theorem raw_resolve_truncates :
    getMessagesInSeqRange [Snap.mkMsg 1 1 []] [⟨4294967297, 4294967297⟩] = .ok [⟨1, Snap.mkMsg 1 1 []⟩] := by
  rfl

/-- the raw `SeqNum` 2^32 truncates to `SeqID` 0 and `list.msg[-1]` panics. -/
theorem raw_resolve_panics :
    getMessagesInSeqRange [Snap.mkMsg 1 1 []] [⟨4294967296, 4294967296⟩] = .error .panic := by
  rfl

/-- the former reproducers as text: `FETCH 4294967297`, `FETCH 18446744073709551617`,
    `FETCH 4294967296` on a one-message mailbox are now parse errors. -/
theorem text_beyond_32_bits_is_bad :
    selectText false [Snap.mkMsg 1 1 []] "4294967297".toList = .bad ∧
    selectText false [Snap.mkMsg 1 1 []] "18446744073709551617".toList = .bad ∧
    selectText false [Snap.mkMsg 1 1 []] "4294967296".toList = .bad ∧
    selectText true [Snap.mkMsg 1 1 []] "4294967297".toList = .bad := by
  decide +kernel

/-! ### non-vacuity -/

/-- a three-message view with gaps in the UIDs -/
def view3 : Snap := [Snap.mkMsg 1 3 [], Snap.mkMsg 2 5 [], Snap.mkMsg 3 9 []]

example : Snap.Inv view3 := ⟨by decide, by decide⟩
example : view3.length < 4294967296 := by decide

/-- `2:*,1` and `3:1` are RFC sets; the hypotheses of the text theorems are satisfiable -/
example : RFCSet [.range (.num 2) .star, .one (.num 1)] := ⟨by simp, by simp [wfItem, wfNum]⟩

/-- FETCH 2:*,1 on view3 selects 2,3,1 — the pipeline really selects something -/
example : selectText false view3 "2:*,1".toList
    = .selected [⟨2, Snap.mkMsg 2 5 []⟩, ⟨3, Snap.mkMsg 3 9 []⟩, ⟨1, Snap.mkMsg 1 3 []⟩] := by decide +kernel

example : renderSet [.range (.num 2) .star, .one (.num 1)] = "2:*,1".toList := by decide +kernel

example : selectSeq view3.uids [.range (.num 2) .star, .one (.num 1)] = some [(2, 5), (3, 9), (1, 3)] := by decide

/-- FETCH 1:3,2,* on view3: overlapping items, every message once -/
example : selectText false view3 "1:3,2,*".toList
    = .selected [⟨1, Snap.mkMsg 1 3 []⟩, ⟨2, Snap.mkMsg 2 5 []⟩, ⟨3, Snap.mkMsg 3 9 []⟩] := by decide +kernel

/-- FETCH 4 on view3: beyond the count, the hypothesis of `beyond_count_is_error` is satisfiable and
    the outcome is the ErrNoSuchMessage branch -/
example : selectText false view3 "4".toList = .failed .noSuchMessage := by decide +kernel

/-- UID FETCH 4:8,*,10:* on view3 selects UID 5, UID 9, and nothing for the excluded `10:*` -/
example : selectText true view3 "4:8,*,10:*".toList
    = .selected [⟨2, Snap.mkMsg 2 5 []⟩, ⟨3, Snap.mkMsg 3 9 []⟩] := by decide +kernel

example : excludedUIDItem view3.uids (.range (.num 10) .star) = true := by decide

/-- `SEARCH 2:*` on view3: the hypothesis `hvalid` of `search_seqset_partial` is satisfiable and the
    answer is not empty -/
example : selectSeq view3.uids (absSet [⟨2, 0⟩]) = some [(2, 5), (3, 9)] := by decide
example : searchSeqSet view3 [⟨2, 0⟩] = .ok [⟨2, Snap.mkMsg 2 5 []⟩, ⟨3, Snap.mkMsg 3 9 []⟩] := by rfl
/-- `SEARCH UID 4:8,10:*` on view3 (non-empty: `hne` holds) -/
example : searchUIDSet view3 [⟨4, 8⟩, ⟨10, 0⟩] = .ok [⟨2, Snap.mkMsg 2 5 []⟩] := by rfl

/-- a set that is in the parser's range -/
example : InParserRange [⟨2, 0⟩, ⟨4294967295, 1⟩] := by
  intro r hr
  simp only [List.mem_cons, List.not_mem_nil, or_false] at hr
  rcases hr with rfl | rfl <;> simp

/-- a digit string with leading zeros and 31 digits: hypotheses of `parseNumber_any_digit_string` -/
example : parseNumber "0000000000000000000000000000042,".toList = some (42, [',']) := by decide +kernel
example : parseNumber "1000000000000000000000000000000".toList = none := by decide +kernel

end Gluon.C16
