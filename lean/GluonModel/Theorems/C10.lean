/-
C10 — every valid IMAP command parses to exactly the command that was written.

Theorems over the parser model `GluonModel/Model/Parse/{Scanner,Prim,Ast,Grammar}.lean` (tied to
`rfcparser` and `imap/command` by the `parse` correspondence dialect) and the printer
`Model/Parse/Print.lean`, which is the definition of "the command as written": RFC 3501 / 2971 /
4315 / 6851 / 2177 / 3691 syntax in the printing direction, with a stream of `Choices` deciding, for
every string argument separately, atom / quoted / literal (where admissible) and, for every keyword
letter separately, upper / lower case (and optional quotes of dates, one- or two-digit days, `n` or
`n:n`, NIL or `""`, parenthesised or bare flag lists, ...).

`RT p w v ok` (Lemmas/ParseCore.lean) reads: from every parser state whose unread input is `w ++ rest`,
with `rest` satisfying the follow condition `ok`, the parser `p` succeeds with value `v` and leaves
exactly `rest` unread. The `…OK` predicates delimit the values the grammar can express (numbers below
2^32, non-empty sequence sets, atoms made of ATOM-CHARs, dates with a month 1..12, ...) and carry the
loop fuel the model needs; they are spelled out in `Lemmas/Parse*.lean`.

`_partial` forms: two classes of valid input are excluded by the printer because the current code
mis-handles them; each exclusion has its witness theorem here (`lbracket_atom_witness`,
`list_literal_witness`). (A third one, the empty literal `{0}`, was repaired by commit e5f2a7d and is now
inside `string_roundtrip`.)

Pipelines (`pipeline_roundtrip`, `pipeline_command_independent`): one parser serves a connection and the
reader goroutine parses the next command while the session still executes the previous one. The theorems
say that the i-th `Parse` returns the i-th written command whatever was parsed before; that a returned
command stays what it was is a property of values in the model and of memory in Go: fact
`literal_result_fresh` plus the `c10pipe` correspondence dialect (every command of a pipelined stream is
rendered only after the last one was parsed) and the wire oracle `c10pipeline`.
-/
import GluonModel.Lemmas.ParsePipe
import GluonModel.Generated.Facts.ParseAlias

namespace Gluon.C10
open Gluon.Parse

/-! ## strings and numbers -/

/-- Every byte string below the literal size cap, in every encoding the printer may choose for it
(atom if admissible, quoted if without NUL/CR/LF, literal always — also the empty `{0}`; preference
`e`), followed by anything that is not an astring character, is read back by `ParseAString` as exactly
that byte string, with exactly the encoding's bytes consumed. -/
theorem string_roundtrip (e : Nat) (s : Bytes) (hs : StrOK s) (fuel : Nat) (hf : s.length + 1 < fuel)
    (c : Ctx) (rest : Bytes) (hr : isAStringChar (headTy rest) = false) :
    ∃ c', parseAString fuel (load c (printAString e s ++ rest)) = .ok s (load c' rest) :=
  rt_parseAString e s hs fuel hf c rest hr

example : StrOK [0, 13, 10, 34, 92, 255] ∧ isAStringChar (headTy [32]) = false := by
  constructor
  · unfold StrOK; decide
  · decide

/-- `string = quoted / literal` (no atom form), no condition on what follows. -/
theorem string_roundtrip_string (e : Nat) (s : Bytes) (hs : StrOK s) (fuel : Nat) (hf : s.length + 1 < fuel)
    (c : Ctx) (rest : Bytes) :
    ∃ c', parseString fuel (load c (printString e s ++ rest)) = .ok s (load c' rest) :=
  rt_parseString e s hs fuel hf c rest trivial

/-- the empty string as the literal `{0}` CRLF is one of the encodings covered (repaired #17) -/
example : printString 1 [] = kw "{0}\r\n" ∧ printAString 2 [] = kw "{0}\r\n" ∧ printAString 1 [] = kw "\"\"" := by
  decide +kernel

/-- `[` is an ATOM-CHAR by RFC 3501 (it is not among the atom-specials), but `IsAtomChar` excludes it:
`a SELECT foo[bar` is rejected. Hence `atomOK` excludes `[` (`_partial` form of the atom case). -/
theorem lbracket_atom_witness :
    (match parse 100 (kw "a SELECT foo[bar\r\n") with
      | .err (.parse _) _ => true
      | _ => false) = true := by decide +kernel

/-- `IsAtomChar` lets `{` through, and `parseListMailbox` tests for a list character before it tests
for a string: a list-mailbox written as a literal is read as the atom `{1}`; the literal's data stays in
the stream as the next "command". Hence the printer never writes a list-mailbox as a literal
(`ListPatOK`). -/
theorem list_literal_witness :
    (match parse 100 (kw "a LIST \"\" {1}\r\nx\r\n") with
      | .ok ⟨_, .list _ pat⟩ s => pat == kw "{1}" && s.rest == kw "x\r\n"
      | _ => false) = true := by decide +kernel

/-- `ParseNumber` reads the decimal digits of every `n < 2^32` (RFC 3501 `number`) as `n` (what follows
is not a digit). -/
theorem number_roundtrip (n : Nat) (h : n ≤ 4294967295) (fuel : Nat)
    (hf : (natDigits n).length < fuel) (c : Ctx) (rest : Bytes) (hr : (headTy rest == .digit) = false) :
    ∃ c', parseNumber fuel (load c (natDigits n ++ rest)) = .ok (n : Int) (load c' rest) :=
  rt_parseNumber n h fuel hf c rest hr

/-- Every decimal number that does not fit into 32 bits is rejected with a parser error (carrying the
digit at which the bound was exceeded): no wrap-around, no truncation (commit d71238c). -/
theorem number_too_big (n : Nat) (h : n > 4294967295) (fuel : Nat)
    (hf : (natDigits n).length < fuel) (c : Ctx) (rest : Bytes) :
    ∃ s, parseNumber fuel (load c (natDigits n ++ rest)) = .err (.parse .digit) s :=
  parseNumber_too_big n h fuel hf c rest

example : (4294967296 : Nat) > 4294967295 ∧ (natDigits 4294967296).length < 11 := by decide +kernel

/-! ## the building blocks of the grammar -/

/-- Every non-empty sequence set of `*` / 32-bit numbers / ranges, with each range written `n` or `b:e`
by choice, is read back by `ParseSeqSet` (what follows is not a digit, `:` or `,`). -/
theorem seqset_roundtrip (c : Choices) (s : SeqSet) (h : SeqSetOK s) (fuel : Nat) (hf : s.length + 10 < fuel) :
    RT (parseSeqSet fuel) (printSeqSet c s) s seqFollow :=
  rt_parseSeqSet c s h fuel hf

example : SeqSetOK [⟨1, 0⟩, ⟨4294967295, 7⟩, ⟨5, 5⟩] := by
  refine ⟨by decide, fun r hr => ?_⟩
  simp only [List.mem_cons, List.mem_nil_iff, or_false] at hr
  rcases hr with rfl | rfl | rfl <;> (unfold SeqRangeOK SeqNumOK; decide)

/-- Every parenthesised flag list (system flags, keywords, `\`-extensions other than `\Recent`; possibly
empty) is read back by `ParseFlagList`, flag by flag, in order. -/
theorem flaglist_roundtrip (c : Choices) (fl : List BStr) (h : ∀ x ∈ fl, FlagOK x) (fuel : Nat)
    (hf : ListFuel fl fuel) : RT (parseFlagList fuel) (printFlagList c fl) fl anyRest :=
  rt_parseFlagList c fl h fuel hf

/-- Every date (`d-Mon-yyyy`, day with one or two digits, month name in any case, quoted or not) is read
back by `ParseDate` as the same year / month / day. -/
theorem date_roundtrip (c : Choices) (d : Date) (h : DateOK d) : RT parseDate (printDate c d) d anyRest :=
  rt_parseDate c d h

example : DateOK ⟨2024, 2, 29⟩ := by unfold DateOK; simp only; omega

/-- Every date-time (`"dd-Mon-yyyy hh:mm:ss +zzzz"`, day `" d"` or `"0d"` by choice) is read back by
`ParseDateTime` with the same fields and the same zone offset. -/
theorem datetime_roundtrip (c : Choices) (d : DateTime) (h : DateTimeOK d) :
    RT parseDateTime (printDateTime c d) d anyRest :=
  rt_parseDateTime c d h

example : DateTimeOK ⟨1999, 12, 31, 23, 59, 59, -34200⟩ := by unfold DateTimeOK; simp only; omega

/-- Structural induction over the search-key tree: every key — NOT, OR and parenthesised lists nested to
any depth, strings in any encoding (literals included), dates, numbers, sequence sets — is read back by
`parseSearchKey`, provided the number of levels `d` it may still descend exceeds the nesting depth of the key
(at the top level `d = searchBudget = maxSearchKeyDepth + 1`, /repo c30e930: keys nested deeper are refused,
so `CommandOK` for SEARCH includes `keyDepth k < searchBudget`). -/
theorem searchkey_roundtrip (k : SearchKey) (c : Choices) (d fuel : Nat) (hf : 12 < fuel)
    (hk : KeyOK fuel k) (hd : keyDepth k < d) :
    RT (parseSearchKey d fuel) (printKey c k) k keyFollow :=
  keyRT k c d fuel hf hk hd

/-- Every fetch attribute other than the macros ALL / FULL / FAST — including `BODY[section]<partial>`
and `BODY.PEEK[…]` — is read back by `parseFetchAttribute`. -/
theorem fetchattr_roundtrip (c : Choices) (a : FetchAttr) (fuel : Nat) (h : FetchAttrOK fuel a)
    (hf : 14 < fuel) : RT (parseFetchAttribute fuel) (printFetchAttr c a) a fetchFollow :=
  rt_parseFetchAttribute c a fuel h hf

/-- Every body section (`HEADER`, `HEADER.FIELDS (…)`, `HEADER.FIELDS.NOT (…)`, `TEXT`, `n.m…`,
`n.m.MIME`, `n.m.HEADER…`) is read back by `parseSectionSpec`. -/
theorem section_roundtrip (c : Choices) (s : Section) (fuel : Nat) (hs : SectionOK fuel s)
    (hf : sectionPartLen s + 10 < fuel) :
    RT (parseSectionSpec fuel) (printSection c s) s (nextIs .rbracket) :=
  rt_parseSectionSpec c s fuel hs hf

/-- Every partial `<offset.count>` (32-bit offset, non-zero 32-bit count) — or its absence — is read
back. -/
theorem partial_roundtrip (part : Option (Int × Int)) (h : PartialOK part) (fuel : Nat) (hf : 10 < fuel) :
    RT (partialP fuel) (printPartial part) part fetchFollow :=
  rt_partial part h fuel hf

/-! ## whole commands -/

/-- **Every valid command line parses to exactly the command that was written.** For each of the 28
commands of the dispatch table and DONE — CAPABILITY IDLE NOOP LOGOUT CHECK CLOSE EXPUNGE UNSELECT STARTTLS
LOGIN SELECT EXAMINE CREATE DELETE SUBSCRIBE UNSUBSCRIBE RENAME LIST LSUB STATUS STORE COPY MOVE UID
(COPY MOVE FETCH SEARCH STORE EXPUNGE) FETCH APPEND SEARCH ID — for every well-formed value of its
arguments and every stream of encoding / case choices, `Parser.Parse` on the printed line followed by
arbitrary further bytes `tail` returns exactly that tag and that command, and has consumed exactly the
line (the final LF is the look-ahead token, `tail` is unread). No argument is dropped, reordered,
truncated or re-interpreted. -/
theorem cmd_roundtrip (fuel : Nat) (c : Choices) (cmd : Command) (h : CommandOK fuel cmd) (tail : Bytes) :
    ∃ s, parse fuel (print c cmd ++ tail) = .ok cmd s ∧ s.rest = tail :=
  parse_print fuel c cmd h tail

/-- The result depends neither on the letter case of keywords nor on the encoding chosen for any string
nor on any other choice of the printer: two printings of the same command parse to the same command. -/
theorem keyword_case_irrelevant (fuel : Nat) (c c' : Choices) (cmd : Command) (h : CommandOK fuel cmd)
    (tail tail' : Bytes) :
    ∃ s s', parse fuel (print c cmd ++ tail) = .ok cmd s ∧ parse fuel (print c' cmd ++ tail') = .ok cmd s' := by
  obtain ⟨s, hs, _⟩ := parse_print fuel c cmd h tail
  obtain ⟨s', hs', _⟩ := parse_print fuel c' cmd h tail'
  exact ⟨s, s', hs, hs'⟩

/-- The hypotheses of `cmd_roundtrip` are satisfiable by non-trivial commands, and this is what the
printer writes for three different choice streams. -/
example : CommandOK 100 ⟨kw "a1", .login (kw "joe") (kw "p w")⟩ := by
  refine ⟨by decide, Or.inr ⟨⟨by decide, by decide, by decide⟩, by decide, ?_⟩⟩
  show StrOK _ ∧ StrOK _ ∧ _
  unfold StrOK
  decide

example : print (fun _ => 0) ⟨kw "a1", .login (kw "joe") (kw "pw")⟩ = kw "a1 login joe pw\r\n" := by
  decide +kernel
example : print (fun _ => 1) ⟨kw "a1", .login (kw "joe") (kw "p w")⟩ = kw "a1 LOGIN \"joe\" \"p w\"\r\n" := by
  decide +kernel
example : print (fun _ => 2) ⟨kw "a1", .login (kw "joe") (kw "pw")⟩ = kw "a1 login {3}\r\njoe {2}\r\npw\r\n" := by
  decide +kernel

/-! ## pipelines: one parser per connection -/

/-- **A command parses to the command that was written wherever it stands on the connection.** From
every parser state `s` — in particular the state any earlier `Parse` calls on the same parser left behind
(previous/current token, current byte, number of continuation requests sent) — whose unread input starts
with the printed line, `Parse` returns exactly that command and consumes exactly that line. Nothing a
previous command contained (literals of any length, its keyword case, its encoding choices) has any
influence on how the next one is read. -/
theorem pipeline_command_independent (fuel : Nat) (c : Choices) (cmd : Command) (h : CommandOK fuel cmd)
    (tail : Bytes) (s : PState) (hs : s.rest = print c cmd ++ tail) :
    ∃ s', parseLine fuel s = .ok cmd s' ∧ s'.rest = tail :=
  parseLine_print_from fuel c cmd h tail s hs

/-- **Pipelining.** A client writes any number of valid commands back to back, each with its own encoding
and case choices, without waiting for replies (`printStream`); the reader loop of the session
(`parseStream`: `Parse` called again and again on ONE parser) returns exactly these commands, in this
order, none dropped, merged, split or altered, and leaves exactly what followed them (`tail`) unread. -/
theorem pipeline_roundtrip (fuel : Nat) (l : List (Choices × Command))
    (h : ∀ x ∈ l, CommandOK fuel x.2) (tail : Bytes) (s : PState) (hs : s.rest = printStream l ++ tail) :
    ∃ s', parseStream fuel l.length s = (l.map (·.2), s') ∧ s'.rest = tail :=
  parseStream_print fuel l h tail s hs

/-- the same from the start of a connection -/
theorem pipeline_roundtrip_init (fuel : Nat) (l : List (Choices × Command))
    (h : ∀ x ∈ l, CommandOK fuel x.2) (tail : Bytes) :
    ∃ s', parseStream fuel l.length (PState.init (printStream l ++ tail)) = (l.map (·.2), s') ∧ s'.rest = tail :=
  parseStream_print fuel l h tail _ rfl

/-- a pipeline of an APPEND (the one payload that keeps a byte slice) followed by a LOGIN whose arguments
are literals, then a NOOP: what the model's reader loop returns -/
example : (match (parseStream 200 3 (PState.init (kw "a APPEND x {3}\r\nabc\r\nb LOGIN {1}\r\nu {2}\r\npw\r\nc noop\r\n"))).1 with
    | [⟨a, .append m [] none lit⟩, ⟨b, .login u p⟩, ⟨c, .noop⟩] =>
      a == kw "a" && m == kw "x" && lit == kw "abc" && b == kw "b" && u == kw "u" && p == kw "pw" && c == kw "c"
    | _ => false) = true := by
  decide +kernel

example : printStream [(fun _ => 2, ⟨kw "a", .login (kw "u") (kw "p")⟩), (fun _ => 0, ⟨kw "b", .noop⟩)] =
    kw "a login {1}\r\nu {1}\r\np\r\nb noop\r\n" := by decide +kernel

/-- **A returned literal does not share memory with any later one** (regenerated from
rfcparser/parser.go by harness/facts_c10alias.go): every successful return of `ParseLiteral` hands out a
slice created in that very call (`Facts.literalOrigins`: a composite literal or `make`), not a buffer
owned by the parser, a pool or the reader. This is the assumption under which the model's commands — values —
stand for Go's `command.Command`, whose `Append.Literal` IS that slice (`Facts.payloadByteFields`) and is
read by the session goroutine while the reader goroutine already parses the next pipelined command. -/
theorem literal_result_fresh : Facts.literalResultFresh = true := by decide

end Gluon.C10
