/-
C18, wire-level jail check — why the client-side measurement used by the oracle `c18auth`
(harness/o_auth.go, judge `GluonModel/Driver/DJudgeAuth.lean`) is sound.

The judge runs `Gluon.Auth.attempt` over the LOGIN attempts of a trace with the *earliest possible*
timing of each attempt: it arrives at `getUserID` when the client sent the command, `Authorize`
takes no time, the jail timer fires with no latency.  The server's real timings are unknown but can
only be later (a command is not handled before it was sent).  The theorem below says that then every
real decision time is at least the one the judge computed, and that the counter / blocked outcomes do
not depend on the timings at all.  Since a reply is received after the decision, "reply received no
earlier than the judge's decision time" can never raise a false alarm — whatever the load.
-/
import GluonModel.Model.Auth

namespace Gluon.C18

open Gluon Gluon.Auth

/-- login state `a` is the same as `b` except that its times are no later -/
def NoLater (a b : LoginSt) : Prop :=
  a.count = b.count ∧ a.free ≤ b.free ∧
  match a.jailedUntil, b.jailedUntil with
  | none, none => True
  | some x, some y => x ≤ y
  | _, _ => False

/-- timing inputs `t` are no later / no longer than `t'` -/
def Earlier (t t' : Timing) : Prop := t.arrive ≤ t'.arrive ∧ t.dur ≤ t'.dur ∧ t.slack ≤ t'.slack

/-- decision time and blocked flag of each attempt of a sequence of attempts (timing, credentials accepted) -/
def decisions (maxAttempts jail : Nat) : LoginSt → List (Timing × Bool) → List (Nat × Bool)
  | _, [] => []
  | s, (t, acc) :: rest =>
    (((attempt maxAttempts jail s t acc).decided, (attempt maxAttempts jail s t acc).blocked)) ::
      decisions maxAttempts jail (attempt maxAttempts jail s t acc).st rest

/-- attempt by attempt: the first list's decision time is no later, the blocked flags coincide -/
def LowerBound : List (Nat × Bool) → List (Nat × Bool) → Prop
  | [], [] => True
  | e :: es, r :: rs => e.1 ≤ r.1 ∧ e.2 = r.2 ∧ LowerBound es rs
  | _, _ => False

/-- **One attempt is monotone in time** — with an earlier login state and earlier timing inputs the
    attempt succeeds / is blocked exactly as before, is decided no later, and leaves a login state
    that is again no later. -/
theorem attempt_mono (maxAttempts jail : Nat) (s s' : LoginSt) (t t' : Timing) (acc : Bool)
    (hs : NoLater s s') (ht : Earlier t t') :
    (attempt maxAttempts jail s t acc).success = (attempt maxAttempts jail s' t' acc).success ∧
    (attempt maxAttempts jail s t acc).blocked = (attempt maxAttempts jail s' t' acc).blocked ∧
    (attempt maxAttempts jail s t acc).decided ≤ (attempt maxAttempts jail s' t' acc).decided ∧
    NoLater (attempt maxAttempts jail s t acc).st (attempt maxAttempts jail s' t' acc).st := by
  obtain ⟨c, j, f⟩ := s
  obtain ⟨c', j', f'⟩ := s'
  obtain ⟨a, d, k⟩ := t
  obtain ⟨a', d', k'⟩ := t'
  obtain ⟨hc, hf, hj⟩ := hs
  obtain ⟨ha, hd, hk⟩ := ht
  simp only at hc hf hj ha hd hk
  subst hc
  cases j with
  | none =>
    cases j' with
    | none =>
      cases acc
      · by_cases hm : c + 1 = maxAttempts
        · simp [attempt, startTime, effCount, hm, NoLater]; omega
        · simp [attempt, startTime, effCount, hm, NoLater]; omega
      · simp [attempt, startTime, NoLater]; omega
    | some y => simp at hj
  | some x =>
    cases j' with
    | none => simp at hj
    | some y =>
      simp only at hj
      cases acc
      · by_cases hm : 0 + 1 = maxAttempts
        · simp [attempt, startTime, effCount, hm, NoLater]; omega
        · simp [attempt, startTime, effCount, hm, NoLater]; omega
      · simp [attempt, startTime, NoLater]; omega

/-- **The judge's earliest schedule is a lower bound of every real schedule** — for every sequence
    of login attempts (any length, any mix of accepted and refused credentials), if each attempt's
    real timing is no earlier than the timing the judge assumed, then attempt by attempt the real
    decision time is no earlier than the judge's and the blocked flags coincide.  (Hence: the client
    receives the reply to the attempt after a blocked one no earlier than `jail` after it *sent*
    the blocked one — `Gluon.C18.jail_after_blocked` measured from the client.) -/
theorem earliest_schedule_lower_bound (maxAttempts jail : Nat) :
    ∀ (xs : List (Timing × Timing × Bool)) (s s' : LoginSt), NoLater s s' →
      (∀ x ∈ xs, Earlier x.1 x.2.1) →
      LowerBound
        (decisions maxAttempts jail s (xs.map fun x => (x.1, x.2.2)))
        (decisions maxAttempts jail s' (xs.map fun x => (x.2.1, x.2.2))) := by
  intro xs
  induction xs with
  | nil => intro s s' _ _; simp [decisions, LowerBound]
  | cons x rest ih =>
    intro s s' hs hx
    obtain ⟨_, hb, hd, hst⟩ := attempt_mono maxAttempts jail s s' x.1 x.2.1 x.2.2 hs (hx x (List.mem_cons_self ..))
    simp only [List.map_cons, decisions]
    exact ⟨hd, hb, ih _ _ hst (fun y hy => hx y (List.mem_cons_of_mem _ hy))⟩

-- non-vacuity: three failures then the right password; the real server was slower at every point
example :
    decisions 3 300 LoginSt.init [(⟨10, 0, 0⟩, false), (⟨20, 0, 0⟩, false), (⟨30, 0, 0⟩, false), (⟨40, 0, 0⟩, true)]
      = [(10, false), (20, false), (30, true), (330, false)] ∧
    decisions 3 300 LoginSt.init [(⟨11, 2, 0⟩, false), (⟨25, 1, 0⟩, false), (⟨31, 3, 5⟩, false), (⟨41, 1, 0⟩, true)]
      = [(13, false), (26, false), (34, true), (340, false)] := by
  decide

end Gluon.C18
