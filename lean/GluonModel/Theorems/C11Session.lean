/-
C11 — arbitrary client bytes never crash, hang or bloat the server: the SESSION-LOOP part.

Theorems over `Model/SessionLoop.lean` (the reader goroutine `startCommandReader` and `serve`, on top of the
parser model), tied to the real server by oracle `c11session` (every observation is judged against this
model by `judge-c11-session`). `run cfg B b0 input` is one session: the client sends `input`; the result
holds the lines the reader found, per line the completion results written for it, and how the session
ended. The command handlers are abstract (`Backend`: any state machine that answers a handled command with
exactly one completion of class OK / NO / BAD); every theorem holds for EVERY backend and EVERY byte stream
unless it names a hypothesis.

What is true of the current code (after the repairs /repo d36bee1, 6e0070e, d270f6a) and what is not:
* termination / no panic of the loop: full strength (`session_loop_terminates`).
* one completion per line: full strength in the form the code really has (`one_completion_per_line`): every
  line the reader hands on is answered by exactly one completion — the only exception is an accepted IDLE,
  which is answered together with the ONE line that follows it (`idle_is_the_only_unanswered_line`,
  `idle_ended_by_next_line`). What a "line" is: `lines_partition_the_stream`, `every_line_ends_with_lf`; and
  under the named hypotheses `NoCurly` (no `{`) and `lfOk` (no bare LF) a line is the bytes up to the FIRST LF
  and the number of completions is the number of CRLF pairs (`line_is_up_to_first_lf_partial`,
  `completions_eq_crlf_lines_partial`). "A line ends at CRLF" is FALSE of the code when the stream contains a
  bare LF (`bare_lf_splits_line`).
* tags: full strength (`completion_tag_is_line_tag_or_star`, `error_tag`): the completion carries the line's own
  tag when it has one and `*` otherwise. Before the repairs this was false in two ways (late errors, empty
  instead of `*`): the former witnesses are kept as regression examples.
* lines that are dropped without any reply: `first_line_with_bad_first_byte_is_dropped` and
  `bare_lf_swallows_next_line` (witnesses; still in the code), besides the deliberate TLS-record-header close. STARTTLS without TLS configuration is
  answered NO now (regression example).
* `max_errors_close`, `fewer_errors_do_not_close`, `success_resets_counter`, `session_usable_after_error`:
  full strength over the model, given the facts `sessionCfg` is built from (`session_facts_known`).
-/
import GluonModel.Lemmas.SessionReader
import GluonModel.Lemmas.SessionServe
import GluonModel.Lemmas.SessionLines
import GluonModel.Model.SessionLoopFacts

namespace Gluon.C11
open Gluon.Parse Gluon.SessionLoop

/-! ## the facts the model is instantiated with -/

/-- Every statement shape of `serve`, `startCommandReader`, `handleStartTLS`, `handleIdle`, `Parser.Parse`
and `response.Bad` that `Model/SessionLoop.lean` was written against is what the regenerated facts say the
source looks like now (a change makes this fail, so that the model is looked at again). -/
theorem session_facts_known : sessionShapesKnown = true := by decide

/-- `maxSessionError` was found and is positive: the session is not closed by the first error, and it is
closed by some number of them. -/
theorem session_max_errors_positive (tls : Bool) : 0 < (sessionCfg tls).maxErr := by
  cases tls <;> decide

/-- the current source resets the error counter on a successfully parsed command -/
theorem session_resets_on_success (tls : Bool) : (sessionCfg tls).resetOnSuccess = true := by
  cases tls <;> decide

/-- the current source keeps the parsed tag for every parse error (/repo d36bee1), writes `*` for an empty tag
argument of `response.Bad` / `response.No` (6e0070e), and answers STARTTLS without TLS configuration (d270f6a) -/
theorem session_repairs_in_place (tls : Bool) :
    (sessionCfg tls).lateErrDropsTag = false ∧ (sessionCfg tls).emptyTagIsStar = true ∧
    (sessionCfg tls).starttlsNoTLSDrops = false := by
  cases tls <;> decide

/-! ## termination, no panic -/

/-- **The loop terminates and does not panic, for every byte stream and every backend**: with the iteration
budget `|input| + 1` and the parser fuel `2·|input| + 16` the session never ends in `hang` (a parser loop
that does not stop), `outOfFuel` (the reader loop itself not stopping) or `panic`. Every iteration that
hands a line to `serve` has consumed at least one byte (`Advance`) and leaves a suffix of the unread input
behind — also after a FAILED `Parse` followed by `ConsumeInvalidInput` (`Lemmas/ParseMono.lean`) — so the
colleague's `parse_terminates` / `parse_no_panic`, generalised to arbitrary parser states, apply to every
line. -/
theorem session_loop_terminates (cfg : Cfg) (B : Backend σ) (b0 : σ) (input : Bytes) :
    (run cfg B b0 input).fin ≠ .reader .hang ∧
    (run cfg B b0 input).fin ≠ .reader .outOfFuel ∧
    (run cfg B b0 input).fin ≠ .reader .panic := by
  have hex := readAll_exit cfg (fuelFor input) (iterFor input) (PState.init input)
  have hinit : (PState.init input).rest = input := rfl
  have key : ∀ e, (run cfg B b0 input).fin = .reader e →
      e = (readAll cfg (fuelFor input) (iterFor input) (PState.init input)).2 := by
    intro e h
    unfold run at h
    exact ((serveAll_length cfg B _ _ _).2.1 e h).2
  have notbad : ∀ e, e = .hang ∨ e = .outOfFuel ∨ e = .panic →
      (readAll cfg (fuelFor input) (iterFor input) (PState.init input)).2 ≠ e := by
    intro e he heq
    rcases hex with ⟨h1, h2⟩ | h | ⟨s', hle, hstep⟩
    · rw [hinit] at h2; unfold iterFor at h2; omega
    · rw [h] at heq
      rcases he with h | h | h <;> rw [h] at heq <;> cases heq
    · rw [heq] at hstep
      rw [hinit] at hle
      rcases he with h | h | h
      · rw [h] at hstep
        exact readStep_noHang cfg (fuelFor input) s' (by unfold fuelFor; omega) hstep
      · rw [h] at hstep; exact readStep_noOutOfFuel cfg _ s' hstep
      · rw [h] at hstep; exact readStep_noPanic cfg _ s' hstep
  refine ⟨fun h => ?_, fun h => ?_, fun h => ?_⟩
  · exact notbad .hang (Or.inl rfl) (key _ h).symm
  · exact notbad .outOfFuel (Or.inr (Or.inl rfl)) (key _ h).symm
  · exact notbad .panic (Or.inr (Or.inr rfl)) (key _ h).symm

/-! ## lines -/

/-- **The reader's lines partition what it consumed**: concatenated in order, the bytes of the lines are a
prefix of the stream — no byte is skipped, none is looked at twice, a line begins where the previous one
ended. -/
theorem lines_partition_the_stream (cfg : Cfg) (B : Backend σ) (b0 : σ) (input : Bytes) :
    ((run cfg B b0 input).lines.map (·.bytes)).flatten <+: input :=
  readAll_prefix cfg (fuelFor input) (iterFor input) (PState.init input)

/-- **Every line ends with LF**: a line the reader hands on — parsed, or failed and skipped by
`ConsumeInvalidInput` — ends with the byte LF (a parsed one with a CR token before it); the reader then
stands right behind that LF. Bytes after the last LF of the stream belong to no line and are never answered
(the stream was cut off there). -/
theorem every_line_ends_with_lf (cfg : Cfg) (fuel : Nat) (s : PState) (l : Line) (s' : PState)
    (h : readStep cfg fuel s = .line l s') : ∃ A, l.bytes = A ++ [10] ∧ s.rest = l.bytes ++ s'.rest :=
  readStep_line_lf cfg fuel s l s' h

/-- "A line ends at CRLF" is FALSE of the code: after a parse error the reader skips to the next LF, bare or
not. `a NOOP␍X␊b NOOP␍␊` contains one CRLF and gets two completions. (RFC 3501 knows no bare LF; this half of
the behaviour is lenient, not dangerous: the oracle counts it, it does not report it.) -/
theorem bare_lf_splits_line :
    crlfCount (kw "a NOOP\rX\nb NOOP\r\n") = 1 ∧
    ((run (sessionCfg false) okBackend () (kw "a NOOP\rX\nb NOOP\r\n")).out.map (·.cls)) = [.bad, .ok] := by
  constructor <;> decide +kernel

/-- the statement shape of `Parser.ConsumeInvalidInput` is one the model knows (`Generated/Facts/Parse.lean`) -/
theorem skip_shape_known : consumeInvalidInputShapeKnown = true := by decide

/-- **A well-formed line can be LOST** (`cause=bare-lf-swallows-next-line`): when a line is ended by a bare LF
directly after something the parser takes to the end (`a NOOP␊`, `a FOO␊`), the failed `Parse` stops with that
LF as its look-ahead token — the LF has already left the source — and `ConsumeInvalidInput`
(`ReadBytes('\n')` on the source) skips the NEXT line, whatever it is. The client gets no answer to `a NOOP␊`
until it has sent another line, then `a BAD`, and never an answer to that other line: `b NOOP` below is a
complete, well-formed command line that is not answered. Stated under what the facts say the source does: with
the repair the model provides for (`skipStopsAtLookaheadLF`: return at once when the current token is LF) the
same stream gets three completions. -/
theorem bare_lf_swallows_next_line :
    (skipStopsAtLookaheadLF = false →
      (run (sessionCfg false) okBackend () (kw "a NOOP\nb NOOP\r\nc NOOP\r\n")).out = [⟨kw "a", .bad⟩, ⟨kw "c", .ok⟩]) ∧
    (skipStopsAtLookaheadLF = true →
      (run (sessionCfg false) okBackend () (kw "a NOOP\nb NOOP\r\nc NOOP\r\n")).out
        = [⟨kw "a", .bad⟩, ⟨kw "b", .ok⟩, ⟨kw "c", .ok⟩]) := by
  constructor <;> decide +kernel

/-- **`line_is_up_to_first_lf_partial`** — what a line is, independently of the parser, under two NAMED hypotheses
on the unread stream: `NoCurly` (it contains no `{`, so no literal can be announced) and `lfOk` (no bare LF:
every LF is the second half of a CRLF). Then every line the reader hands on contains exactly ONE LF, its last
byte: the reader's lines are the CRLF-terminated lines of the stream. (No parsing function of the grammar
moves over a CR or an LF, `Lemmas/ParsePlain.lean`; `Parse` itself moves over one CR and stops at the LF; a
failed `Parse` has not reached the LF, and `ConsumeInvalidInput` skips to it.) Without `lfOk`:
`bare_lf_splits_line`; with `{`: a literal's bytes belong to the line that announces it. -/
theorem line_is_up_to_first_lf_partial (cfg : Cfg) (fuel : Nat) (s : PState) (l : Line) (s' : PState)
    (hNoCurly : NoCurly s.rest) (hNoBareLF : lfOk s.rest = true) (h : readStep cfg fuel s = .line l s') :
    ∃ A, l.bytes = A ++ [10] ∧ (10 : UInt8) ∉ A ∧ s.rest = l.bytes ++ s'.rest :=
  readStep_one_lf cfg fuel s l s' hNoCurly hNoBareLF h

/-! ## one completion per line -/

/-- **`one_completion_per_line`**, for EVERY byte stream and every backend. With `r := run …`:
1. `serve` answers the reader's lines in order: there are never more reply groups than lines, and exactly as
   many when the session ends because the reader returned (input exhausted, or one of the reader's closes)
   rather than because `serve` closed it (too many errors, LOGOUT, BYE);
2. every reply group holds at most one completion result;
3. so the number of completion results is the number of answered lines minus the empty groups — and an
   empty group is an accepted IDLE and nothing else (`idle_is_the_only_unanswered_line`), answered by the
   next line (`idle_ended_by_next_line`). -/
theorem one_completion_per_line (cfg : Cfg) (B : Backend σ) (b0 : σ) (input : Bytes) :
    let r := run cfg B b0 input
    r.replies.length ≤ r.lines.length ∧
    (∀ e, r.fin = .reader e → r.replies.length = r.lines.length) ∧
    (∀ out ∈ r.replies, out.length ≤ 1) ∧
    r.out.length + (r.replies.filter (·.isEmpty)).length = r.replies.length := by
  intro r
  have hl := serveAll_length cfg B
    ((readAll cfg (fuelFor input) (iterFor input) (PState.init input)).1.map (·.res)) (SState.init b0)
    (readAll cfg (fuelFor input) (iterFor input) (PState.init input)).2
  have h1 := serveAll_each_le_one cfg B
    ((readAll cfg (fuelFor input) (iterFor input) (PState.init input)).1.map (·.res)) (SState.init b0)
    (readAll cfg (fuelFor input) (iterFor input) (PState.init input)).2
  refine ⟨?_, ?_, h1, flatten_length_of_le_one _ h1⟩
  · have := hl.1; simpa [r, run] using this
  · intro e he
    have := (hl.2.1 e he).1
    simpa [r, run] using this

/-- **`completions_eq_crlf_lines_partial`** — the property as DESIGN states it, for the streams where "line" has a
parser-independent meaning: under the NAMED hypotheses `NoCurly input` (no `{`), `lfOk input` (no bare LF)
and for a session that ends because the stream is exhausted at a line boundary (`fin = reader (eof true)`:
every line was complete, and neither `serve` nor the reader closed the session before the end), the number
of lines the reader found IS the number of CRLF pairs of the stream, every one of them was answered, and the
number of completion results plus the number of accepted IDLEs (each answered together with its next line)
equals the number of CRLF pairs. -/
theorem completions_eq_crlf_lines_partial (cfg : Cfg) (B : Backend σ) (b0 : σ) (input : Bytes)
    (hNoCurly : NoCurly input) (hNoBareLF : lfOk input = true)
    (hfin : (run cfg B b0 input).fin = .reader (.eof true)) :
    (run cfg B b0 input).lines.length = crlfCount input ∧
    (run cfg B b0 input).replies.length = crlfCount input ∧
    (run cfg B b0 input).out.length + ((run cfg B b0 input).replies.filter (·.isEmpty)).length = crlfCount input := by
  obtain ⟨_, h2, _, h4⟩ := one_completion_per_line cfg B b0 input
  have hex : (readAll cfg (fuelFor input) (iterFor input) (PState.init input)).2 = .eof true := by
    have h := hfin
    unfold run at h
    exact (((serveAll_length cfg B _ _ _).2.1 (.eof true) h).2).symm
  obtain ⟨hone, hall⟩ := readAll_lines cfg (fuelFor input) (iterFor input) (PState.init input) hNoCurly hNoBareLF
  have hflat := hall hex
  have hcount : (run cfg B b0 input).lines.length = crlfCount input := by
    have h1 : ((run cfg B b0 input).lines.map (·.bytes)).flatten.count 10 = ((run cfg B b0 input).lines.map (·.bytes)).length :=
      count_flatten_ones _ (by
        intro x hx
        obtain ⟨l, hl, rfl⟩ := List.mem_map.mp hx
        exact hone l hl)
    have h3 : ((run cfg B b0 input).lines.map (·.bytes)).flatten = input := hflat
    rw [h3, List.length_map] at h1
    unfold crlfCount
    rw [crlfCountAux_eq_count input false hNoBareLF]
    exact h1.symm
  have hrep := h2 (.eof true) hfin
  exact ⟨hcount, by rw [hrep]; exact hcount, by rw [h4, hrep]; exact hcount⟩

/-- non-vacuity: a stream of five CRLF lines — well-formed, erroneous in three different ways, well-formed — satisfies
the hypotheses, and gets five completions -/
example :
    NoCurly (kw "a NOOP\r\nb FOO\r\nc NOOP x\r\n((\r\ne NOOP\r\n") ∧
    lfOk (kw "a NOOP\r\nb FOO\r\nc NOOP x\r\n((\r\ne NOOP\r\n") = true ∧
    (run (sessionCfg false) okBackend () (kw "a NOOP\r\nb FOO\r\nc NOOP x\r\n((\r\ne NOOP\r\n")).fin = .reader (.eof true) ∧
    (run (sessionCfg false) okBackend () (kw "a NOOP\r\nb FOO\r\nc NOOP x\r\n((\r\ne NOOP\r\n")).out.length = 5 ∧
    crlfCount (kw "a NOOP\r\nb FOO\r\nc NOOP x\r\n((\r\ne NOOP\r\n") = 5 := by
  refine ⟨by unfold NoCurly; decide +kernel, ?_, ?_, ?_, ?_⟩ <;> decide +kernel

/-- **The only line without a completion of its own is an accepted IDLE**: if `serve` writes nothing for a
reader result, that result is a parsed IDLE command, `serve` was not already idling, and it now waits
(mode `idle`) for the next line with the IDLE's tag in hand. (IDLE in a session that is not authenticated
is answered NO at once.) -/
theorem idle_is_the_only_unanswered_line (cfg : Cfg) (B : Backend σ) (st : SState σ) (r : ReadRes) (nx : Next σ)
    (h : serveStep cfg B st r = ([], nx)) :
    ∃ c, r = .cmd c ∧ isIdleCmd c.payload = true ∧ st.mode = .normal ∧
      ∃ st', nx = .cont st' ∧ st'.mode = .idle c.tag :=
  serveStep_nil cfg B st r nx h

/-- **IDLE is ended by the very next line, whatever it is**: DONE (OK), any other command (BAD, the command
is NOT executed), or a line that does not parse (NO) — exactly one completion, tagged with the IDLE's tag;
`serve` is back in normal mode and the error counter is untouched. So IDLE plus the following line are
answered by exactly one completion. (The RFC's "until DONE" is not what the code does.) -/
theorem idle_ended_by_next_line (cfg : Cfg) (B : Backend σ) (st : SState σ) (it : Bytes) (hm : st.mode = .idle it)
    (r : ReadRes) (hr : ∀ t, r ≠ .tlsOk t ∧ r ≠ .tlsNo t) :
    ∃ cls st', serveStep cfg B st r = ([mkC cfg it cls], .cont st') ∧ st'.mode = .normal ∧ st'.errs = st.errs := by
  rcases serveStep_idle cfg B st it hm r with h | ⟨t, h | h⟩
  · exact h
  · exact absurd h (hr t).1
  · exact absurd h (hr t).2

/-! ## tags -/

/-- **`completion_tag_is_line_tag_or_star`**, full strength over the model with the two repaired behaviours (`Parse`
keeps the tag on every error; `response.Bad` / `response.No` write `*` for an empty tag): for a line the reader
hands on (parser fuel above the number of unread bytes, as in `run`) and `serve` answers outside IDLE with a
completion `x`: `x` is the untagged BYE of the invalid-state close, or `x.tag` is the line's own tag
(`lineTag` of its bytes: the longest prefix of tag characters, not DONE) when it has one, and `*` when it has
none. Never an empty tag, never another line's tag, for every class of completion and every backend. -/
theorem completion_tag_is_line_tag_or_star (cfg : Cfg) (hk : cfg.lateErrDropsTag = false)
    (hstar : cfg.emptyTagIsStar = true) (fuel : Nat) (s : PState) (hf : s.rest.length < fuel) (l : Line) (s' : PState)
    (h : readStep cfg fuel s = .line l s') (B : Backend σ) (st : SState σ) (hm : st.mode = .normal)
    (x : Completion) (nx : Next σ) (hs : serveStep cfg B st l.res = ([x], nx)) :
    x = ⟨star, .bye⟩ ∨ x.tag = (lineTag l.bytes).getD star := by
  have ht := readStep_tag_exact cfg hk fuel s hf l s' h
  -- what `mkC` writes for a tag that is the line's tag, or empty when it has none
  have wire_some : ∀ (t : Bytes) (cls : Cls), lineTag l.bytes = some t → (mkC cfg t cls).tag = (lineTag l.bytes).getD star := by
    intro t cls hl
    have hne := lineTag_some_ne hl
    have he : t.isEmpty = false := by cases t with | nil => exact absurd rfl hne | cons _ _ => rfl
    rw [hl]
    cases cls <;> simp [mkC, wireTag, he]
  have wire_none : ∀ (cls : Cls), (cls = .no ∨ cls = .bad) → lineTag l.bytes = none →
      (mkC cfg [] cls).tag = (lineTag l.bytes).getD star := by
    intro cls hc hl
    rw [hl]
    rcases hc with hc | hc <;> simp [hc, mkC, wireTag, hstar]
  unfold serveStep at hs
  cases hres : l.res with
  | tlsOk t =>
    rw [hres] at hs ht; simp only at hs ht; cases hs; exact Or.inr (wire_some t .ok ht)
  | tlsNo t =>
    rw [hres] at hs ht; simp only at hs ht; cases hs; exact Or.inr (wire_some t .no ht)
  | err t =>
    rw [hres] at ht
    rw [hres, hm] at hs
    simp only at hs ht
    cases hs
    right
    cases hl : lineTag l.bytes with
    | none => rw [hl] at ht; simp only [Option.getD_none] at ht; rw [ht, ← hl]; exact wire_none .bad (Or.inr rfl) hl
    | some u => rw [hl] at ht; simp only [Option.getD_some] at ht; rw [ht, ← hl]; exact wire_some u .bad hl
  | cmd c =>
    rw [hres] at ht
    rw [hres, hm] at hs
    simp only at hs ht
    -- a command that is not DONE carries the line's tag
    have notDone : (c.payload = .done → False) → lineTag l.bytes = some c.tag := by
      intro hnd
      rcases ht with ⟨hd, _, _⟩ | ht
      · exact absurd (isDoneCmd_eq hd) hnd
      · exact ht
    split at hs
    all_goals
      split at hs
      · cases hs; exact Or.inl rfl
      · split at hs
        · rename_i hp
          cases hs
          exact Or.inr (wire_some c.tag .ok (notDone (fun e => by rw [hp] at e; cases e)))
        · rename_i hp
          split at hs
          · cases hs
          · cases hs
            exact Or.inr (wire_some c.tag .no (notDone (fun e => by rw [hp] at e; cases e)))
        · cases hs
          right
          rcases ht with ⟨_, h0, hl⟩ | ht
          · rw [h0]; exact wire_none .no (Or.inl rfl) hl
          · exact wire_some c.tag .no ht
        · rename_i _ _ hnd
          cases hs
          exact Or.inr (wire_some c.tag _ (notDone hnd))

/-- … on the model of the current source: no hypothesis about the configuration is left -/
theorem completion_tag_is_line_tag_or_star_now (tls : Bool) (fuel : Nat) (s : PState) (hf : s.rest.length < fuel)
    (l : Line) (s' : PState) (h : readStep (sessionCfg tls) fuel s = .line l s') (B : Backend σ) (st : SState σ)
    (hm : st.mode = .normal) (x : Completion) (nx : Next σ) (hs : serveStep (sessionCfg tls) B st l.res = ([x], nx)) :
    x = ⟨star, .bye⟩ ∨ x.tag = (lineTag l.bytes).getD star :=
  completion_tag_is_line_tag_or_star (sessionCfg tls) (session_repairs_in_place tls).1 (session_repairs_in_place tls).2.1
    fuel s hf l s' h B st hm x nx hs

/-- **`error_tag`** (was `error_tag_partial` with the hypothesis `lateErrDropsTag = false`, which the repaired `Parse`
satisfies): on the model of the current source the tag the reader reports to `serve` for a line that does not
parse is exactly the line's tag (empty when it has none, which `response.Bad` writes as `*`). -/
theorem error_tag (tls : Bool) (fuel : Nat) (s : PState) (hf : s.rest.length < fuel) (bytes t : Bytes) (s' : PState)
    (h : readStep (sessionCfg tls) fuel s = .line ⟨bytes, .err t⟩ s') : t = (lineTag bytes).getD [] :=
  readStep_tag_exact (sessionCfg tls) (session_repairs_in_place tls).1 fuel s hf _ s' h

/-- regression of `cause=late-error-empty-tag` (repaired by /repo d36bee1; was the witness `late_error_loses_tag`):
trailing garbage after a complete command — an error `Parse` finds at the final CR / LF — is answered with the
line's own tag; so is a bare-LF line (what becomes of the line after it: `bare_lf_swallows_next_line`) -/
example :
    (run (sessionCfg false) okBackend () (kw "a NOOP x\r\nb NOOP\r\n")).out = [⟨kw "a", .bad⟩, ⟨kw "b", .ok⟩] ∧
    (run (sessionCfg false) okBackend () (kw "a NOOP\nb NOOP\r\nc NOOP\r\n")).out.head? = some ⟨kw "a", .bad⟩ := by
  decide +kernel

/-- regression of `cause=untagged-line-empty-tag` (repaired by /repo 6e0070e; was the witness
`untagged_line_gets_empty_tag`): a line without a tag is answered `* BAD`, DONE outside IDLE `* NO` -/
example :
    (run (sessionCfg false) okBackend () (kw "a NOOP\r\n (\r\nb NOOP\r\n")).out
      = [⟨kw "a", .ok⟩, ⟨star, .bad⟩, ⟨kw "b", .ok⟩] ∧
    lineTag (kw " (\r\n") = none ∧
    (run (sessionCfg false) okBackend () (kw "DONE\r\n")).out = [⟨star, .no⟩] := by
  decide +kernel

/-- what the two repairs changed, on the model: with the former behaviour (`lateErrDropsTag`, no `*` rule) the same
streams get EMPTY tags -/
example :
    (run { sessionCfg false with lateErrDropsTag := true, emptyTagIsStar := false } okBackend ()
      (kw "a NOOP x\r\n (\r\nb NOOP\r\n")).out = [⟨[], .bad⟩, ⟨[], .bad⟩, ⟨kw "b", .ok⟩] := by
  decide +kernel

/-! ## lines dropped without a reply -/

/-- A complete line can still be dropped without ANY reply (known finding): `MakeError` reports the PREVIOUS token,
which before the first line of a connection is the zero token, of type EOF; so a first line that starts
with a byte that cannot start a tag (space, `(`, a control character, …) is taken for end of input: the
reader returns, the connection is closed, nothing is written — although the same line sent second is
answered BAD. Oracle label `cause=first-line-bad-tag-drops`. -/
theorem first_line_with_bad_first_byte_is_dropped :
    (run (sessionCfg false) okBackend () (kw " a NOOP\r\nb NOOP\r\n")).out = [] ∧
    (run (sessionCfg false) okBackend () (kw " a NOOP\r\nb NOOP\r\n")).fin = .reader .eofTokenDrop ∧
    (run (sessionCfg false) okBackend () (kw "x NOOP\r\n a NOOP\r\nb NOOP\r\n")).out.map (·.cls) = [.ok, .bad, .ok] := by
  decide +kernel

/-- regression of `cause=starttls-without-tls-drops` (repaired by /repo d270f6a; was the witness
`starttls_without_tls_is_dropped`): STARTTLS on a server without TLS configuration is answered `<tag> NO` by
the reader, and the session carries on -/
example :
    (run (sessionCfg false) okBackend () (kw "a STARTTLS\r\nb NOOP\r\n")).out = [⟨kw "a", .no⟩, ⟨kw "b", .ok⟩] ∧
    (run (sessionCfg false) okBackend () (kw "a STARTTLS\r\nb NOOP\r\n")).fin = .reader (.eof true) := by
  decide +kernel

/-- the deliberate one: a line that does not parse and starts with a TLS record header (a client speaking TLS
to the plain port) closes the connection without a reply -/
example : (run (sessionCfg false) okBackend () ([0x61, 0x20, 0x4e, 0x4f, 0x4f, 0x50, 13, 10, 0x16, 3, 1, 0x41, 13, 10] ++ kw "b NOOP\r\n")).fin
    = .reader .tlsHandshake := by decide +kernel

/-! ## errors in a row -/

/-- **`max_errors_close`**: when `serve` is not idling and the error counter stands at `st.errs`, the run of
erroneous lines that brings it to `maxSessionError` is answered BAD, one for one, and then the session is
CLOSED: nothing the client has sent after them (`more`) is looked at. From a fresh session, or after any
successfully parsed command (`success_resets_counter`), that is exactly `maxSessionError` consecutive
erroneous lines. -/
theorem max_errors_close (cfg : Cfg) (B : Backend σ) (st : SState σ) (hm : st.mode = .normal)
    (tags : List Bytes) (hne : tags ≠ []) (hcount : st.errs + tags.length = cfg.maxErr)
    (more : List ReadRes) (e : ReaderExit) :
    serveAll cfg B st (tags.map .err ++ more) e = (tags.map (fun t => [mkC cfg t .bad]), .closed .tooManyErrors) :=
  serveAll_errs_close cfg B more e tags st hm hne hcount

/-- **… and not earlier**: a run of erroneous lines that keeps the counter below `maxSessionError` is answered
BAD, one for one, and the session goes on with whatever follows. -/
theorem fewer_errors_do_not_close (cfg : Cfg) (B : Backend σ) (st : SState σ) (hm : st.mode = .normal)
    (tags : List Bytes) (hcount : st.errs + tags.length < cfg.maxErr) (more : List ReadRes) (e : ReaderExit) :
    serveAll cfg B st (tags.map .err ++ more) e =
      (tags.map (fun t => [mkC cfg t .bad]) ++ (serveAll cfg B { st with errs := st.errs + tags.length } more e).1,
       (serveAll cfg B { st with errs := st.errs + tags.length } more e).2) :=
  serveAll_errs_below cfg B more e tags st hm hcount

/-- the two on the model of the current source, end to end (reader and serve): 20 erroneous lines close the
session — the 21st line, well-formed, is not answered; 19 do not — the well-formed line after them is
answered, and so is a second run of 19 after it -/
example :
    let bad (n : Nat) := (List.replicate n (kw "t FOO\r\n")).flatten
    (run (sessionCfg false) okBackend () (bad 20 ++ kw "z NOOP\r\n")).out.length = 20 ∧
    (run (sessionCfg false) okBackend () (bad 20 ++ kw "z NOOP\r\n")).fin = .closed .tooManyErrors ∧
    (run (sessionCfg false) okBackend () (bad 19 ++ kw "z NOOP\r\n" ++ bad 19 ++ kw "y NOOP\r\n")).out.length = 40 ∧
    (run (sessionCfg false) okBackend () (bad 19 ++ kw "z NOOP\r\n" ++ bad 19 ++ kw "y NOOP\r\n")).fin = .reader (.eof true) := by
  decide +kernel

/-- **`success_resets_counter`**: after a successfully parsed command (outside IDLE), if `serve` goes on at all
the error counter is zero — whatever it was; and what that command does, and all that follows, does not
depend on the errors before it. (`resetOnSuccess` is what the facts say about the `else` branch of `serve`:
`session_resets_on_success`.) -/
theorem success_resets_counter (cfg : Cfg) (B : Backend σ) (hr : cfg.resetOnSuccess = true) (st : SState σ)
    (hm : st.mode = .normal) (c : Command) :
    (∀ out st', serveStep cfg B st (.cmd c) = (out, .cont st') → st'.errs = 0) ∧
    (∀ k, serveStep cfg B { st with errs := k } (.cmd c) = serveStep cfg B st (.cmd c)) :=
  ⟨fun out st' h => serveStep_cmd_resets cfg B hr st hm c out st' h, fun k => serveStep_cmd_indep cfg B hr st hm k c⟩

/-! ## the session stays usable -/

/-- **`session_usable_after_error`, `serve`'s half**: an erroneous line that does not itself close the session
(`st.errs + 1 < maxSessionError`) followed by a line that parses: the erroneous one is answered BAD, and
the second line and EVERYTHING after it are answered exactly as if the erroneous line had not been sent —
same completions, same end of the session, same backend state (the backend is not touched by the error). -/
theorem session_usable_after_error (cfg : Cfg) (B : Backend σ) (hr : cfg.resetOnSuccess = true) (st : SState σ)
    (hm : st.mode = .normal) (hlt : st.errs + 1 < cfg.maxErr) (t : Bytes) (c : Command) (more : List ReadRes)
    (e : ReaderExit) :
    serveAll cfg B st (.err t :: .cmd c :: more) e =
      ([mkC cfg t .bad] :: (serveAll cfg B st (.cmd c :: more) e).1, (serveAll cfg B st (.cmd c :: more) e).2) := by
  rw [serveAll_cons, serveStep_err cfg B st hm]
  have : ¬ st.errs + 1 ≥ cfg.maxErr := by omega
  simp only [this, if_false]
  have h2 : serveAll cfg B { st with errs := st.errs + 1 } (.cmd c :: more) e = serveAll cfg B st (.cmd c :: more) e := by
    rw [serveAll_cons, serveAll_cons, serveStep_cmd_indep cfg B hr st hm]
  rw [h2]

/-- **… the reader's half**: after an erroneous line the reader stands right behind that line's LF
(`every_line_ends_with_lf`), and the next `Parse` does not depend on what the parser has been through: any
two parser states with the same unread bytes (and the same count of continuation requests) whose next byte
can start a tag give the same result. (For a next byte that cannot start a tag the results differ in the
error's token type only — which is how the first line of a connection comes to be dropped,
`first_line_with_bad_first_byte_is_dropped`.) -/
theorem reader_forgets_history (fuel : Nat) (a b : PState) (x : UInt8) (xs : Bytes) (ha : a.rest = x :: xs)
    (hb : b.rest = x :: xs) (hc : a.conts = b.conts) (hx : isTagByte x = true) :
    parseLine fuel a = parseLine fuel b := by
  have hx' : isTagChar (Tok.ofByte x).ty = true := hx
  -- the states after `Advance` differ in `prev` only; after the `ConsumeWith` of `parseTag` they are equal
  have key : ∀ s : PState, s.rest = x :: xs →
      parseLine fuel s =
        ((collectWhilePrev isTagChar fuel) >>= fun tag => (do
          let cmd ← (do
            if lowerBytes tag = kw "done" then pure (Command.mk [] .done)
            else do
              consume .sp
              let p ← parseCommand fuel
              pure (Command.mk tag p))
          consume .cr
          if !(← check .lf) then makeError
          else pure cmd))
        (match xs with
          | [] => { rest := [], prev := Tok.ofByte x, cur := Tok.eof, curByte := x, conts := s.conts }
          | y :: ys => { rest := ys, prev := Tok.ofByte x, cur := Tok.ofByte y, curByte := y, conts := s.conts }) := by
    intro s hs
    rw [parseLine_eq, bind_eq]
    unfold advance
    simp only [hs]
    unfold parseLineBody parseTag
    rw [bind_eq, bind_eq]
    unfold consumeWith
    simp only [hx', if_true]
    unfold advance
    cases xs <;> rfl
  rw [key a ha, key b hb, hc]

/-- the two halves on the model of the current source, end to end: the well-formed lines are answered the
same with and without erroneous lines of every kind between them -/
example :
    (run (sessionCfg false) okBackend () (kw "a NOOP\r\n\x00\x01\r\nb FOO\r\nc NOOP x\r\n(((\r\nd LOGIN \"x\r\ne NOOP\r\n")).out.filter (·.cls == .ok)
      = (run (sessionCfg false) okBackend () (kw "a NOOP\r\ne NOOP\r\n")).out := by
  decide +kernel

end Gluon.C11
