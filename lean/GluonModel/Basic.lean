def hello := "world"
