/-
M-SEARCH: model of SEARCH / UID SEARCH (property C15).

  internal/session/handle_search.go   handleSearch (charset lookup, decoder, reply)
  internal/state/mailbox_search.go    Mailbox.Search, buildSearchData, applySearch, buildSearchOp and
                                      every buildSearchOp* function, convertToDateWithoutTZ
  internal/state/snapshot.go          SeqInterval.contains, UIDInterval.contains
  internal/state/snapshot_messages.go resolveSeq, resolveUID, resolveSeqInterval, resolveUIDInterval
  imap/command/search_keys.go         the key types (`Leaf`, `Key`)
  rfc822/header.go                    Header.Get (first entry of the lower-cased name)

The model starts at the parsed command (`command.Search{Charset, Keys}`): numbers are Go `int`s as
`rfcparser.ParseNumber` produced them (the parser is C10/C16's; it refuses numbers of 2^32 or more), dates
are the `time.Date(y, m, d, 0,0,0,0, UTC)` values of `ParseDateText`, represented by their day number.

Two phases, as in the code: `build` turns the key tree into closures (`COp`; build errors: charset
decoder error, `resolveUID` on an empty snapshot), `Search` then runs the closure on every message of
the snapshot.  `parallel.DoContext(ctx, parallelism, msgCount, f)` calls `f(i)` for every index with
`result[i]` written by call `i` only, and returns an error iff some call did: the evaluation of message
`i` is a function of (snapshot, message data, closure) alone, so the sequential loop `searchLoop` is
the same function for every `parallelism` — up to WHICH error is returned when several calls fail
(the harness compares "failed" only).

Abstract per-message data (`MsgData`): what the closures read through the database, the store and the
rfc822 / rfc5322 packages.  Each field is the value of a function this model does not look into:
  size, date   `GetMessageDateAndSize` (the `time.Time` as scanned from SQLite: instant + the zone
               offset it was stored with; sub-second parts never matter: every comparison below is
               against whole-second boundaries)
  text         `state.getLiteral` (the stored literal, INCLUDING gluon's `X-Pm-Gluon-Id` header line)
  hdr          `rfc822.NewHeader(Split(text).header)`: keyed entries in order, (name as written,
               `getMerged` value = the UNFOLDED value); `none` = NewHeader returned an error.  As a function of
               `text` this is `Search.hdrOfLiteral` (Model/SearchHeader.lean)
  sent         `rfc5322.ParseDateTime(header.Get("Date"))`; `none` = parse error
  body         `rfc822.Parse(text).Body()`
Not modelled: store / database failures (every message of the view is loadable — gluon keeps the data
of messages that a live state still references), context cancellation, Unicode case mapping
(`strings.ToLower` / `bytes.ToLower` are modelled on ASCII letters only; the tie generates cased
letters in ASCII only), `len(snapshot) < 2^32` (`imap.SeqID(i+1)` is not truncated).

The interval resolution functions (`resolveSeqInterval`, `resolveUIDInterval`, `Interval.contains`, `toU32`) are
C16's `Model/SeqSet.lean`, re-exported into this namespace.
-/
import GluonModel.Model.SeqSet

namespace Gluon
namespace Search

abbrev Bytes := List UInt8

deriving instance DecidableEq for Except

/-! ### message sets: C16's model (`Model/SeqSet.lean`) -/

export SeqSet (toU32 SeqRange Interval Interval.contains resolveSeq resolveUID resolveOne resolveAll
  resolveSeqInterval resolveUIDInterval)

/-! ### bytes: `ToLower` (ASCII part) and `Contains` -/

def lowerByte (c : UInt8) : UInt8 := if 65 ≤ c && c ≤ 90 then c + 32 else c
/-- `strings.ToLower` / `bytes.ToLower` (ASCII letters) -/
def lower (b : Bytes) : Bytes := b.map lowerByte

/-- `strings.Contains(hay, needle)` / `bytes.Contains` -/
def contains : Bytes → Bytes → Bool
  | [], needle => needle.isEmpty
  | c :: tl, needle => needle.isPrefixOf (c :: tl) || contains tl needle

/-! ### time.Time as far as this file looks at it -/

structure Time where
  /-- the instant: seconds since 1970-01-01T00:00:00Z -/
  unix : Int
  /-- offset of the value's Location, seconds east of UTC -/
  off : Int
deriving DecidableEq, Repr, Inhabited

/-- day number (days since 1970-01-01) of the instant read in UTC -/
def Time.utcDay (t : Time) : Int := t.unix / 86400
/-- day number of the civil date `t.Year(), t.Month(), t.Day()` (read in the value's own zone) -/
def Time.localDay (t : Time) : Int := (t.unix + t.off) / 86400

/-- instant of a key date `time.Date(y, m, d, 0, 0, 0, 0, time.UTC)` with day number `k` -/
def keyInstant (k : Int) : Int := k * 86400

/-- `t.Truncate(24 * time.Hour)`: rounds the absolute time down to a multiple of 24h counted from the
    zero time (0001-01-01T00:00:00Z = day -719162, itself a day boundary): a UTC day boundary. -/
def truncate24h (unix : Int) : Int := unix / 86400 * 86400

/-- `convertToDateWithoutTZ(t)` = `time.Date(t.Year(), t.Month(), t.Day(), 0,0,0,0, UTC)`, as a day number -/
def convertToDateWithoutTZ (t : Time) : Int := t.localDay

/-! ### message data -/

structure MsgData where
  size : Int
  date : Time
  hdr : Option (List (Bytes × Bytes))
  sent : Option Time
  body : Bytes
  text : Bytes
deriving Repr, Inhabited

/-- `header.Get(key)`: `h.keys[strings.ToLower(key)]`, first entry, merged value; `""` if absent. -/
def hdrGet (h : List (Bytes × Bytes)) (key : Bytes) : Bytes :=
  match h.find? (fun e => lower e.1 == lower key) with
  | some e => e.2
  | none => []

/-! ### search keys (imap/command/search_keys.go) -/

/-- the non-recursive `command.SearchKey*` types -/
inductive Leaf where
  | all | answered
  | bcc (v : Bytes)
  | before (day : Int)
  | body (v : Bytes)
  | cc (v : Bytes)
  | deleted | draft | flagged
  | «from» (v : Bytes)
  | header (field : Bytes) (v : Bytes)
  | keyword (atom : String)
  | larger (n : Int)
  | new | old
  | on (day : Int)
  | recent | seen
  | sentBefore (day : Int) | sentOn (day : Int) | sentSince (day : Int)
  | since (day : Int)
  | smaller (n : Int)
  | subject (v : Bytes)
  | text (v : Bytes)
  | to (v : Bytes)
  | uid (set : List SeqRange)
  | unanswered | undeleted | undraft | unflagged
  | unkeyword (atom : String)
  | unseen
  | seqSet (set : List SeqRange)
deriving DecidableEq, Repr

/-- `command.SearchKey`: a leaf, `SearchKeyNot`, `SearchKeyOr`, `SearchKeyList` -/
inductive Key where
  | leaf (l : Leaf)
  | not (k : Key)
  | or (a b : Key)
  | list (ks : List Key)
deriving Repr, Inhabited

mutual
/-- the leaves of a key tree, left to right -/
def Key.leaves : Key → List Leaf
  | .leaf l => [l]
  | .not k => k.leaves
  | .or a b => a.leaves ++ b.leaves
  | .list ks => Key.leavesAll ks
def Key.leavesAll : List Key → List Leaf
  | [] => []
  | k :: ks => k.leaves ++ Key.leavesAll ks
end

/-! ### closures -/

inductive SErr where
  | noSuchMessage   -- state.ErrNoSuchMessage (resolveUID on an empty snapshot)
  | decode          -- decoder.Bytes returned an error
  | header          -- rfc822.NewHeader returned an error
  | date            -- rfc5322.ParseDateTime returned an error
deriving DecidableEq, Repr

/-- what the closure of one leaf has captured and does -/
inductive Op where
  | const (b : Bool)
  /-- `flags.ContainsUnchecked(f)`, negated for the UN… keys and OLD -/
  | hasFlag (f : Flag) (neg : Bool)
  | new
  /-- `strings.Contains(strings.ToLower(header.Get(field)), lowKey)` -/
  | header (field : Bytes) (lowKey : Bytes)
  | body (lowKey : Bytes)
  | text (lowKey : Bytes)
  | before (day : Int) | on (day : Int) | since (day : Int)
  | sentBefore (day : Int) | sentOn (day : Int) | sentSince (day : Int)
  | larger (n : Int) | smaller (n : Int)
  | uidIn (ivs : List Interval)
  | seqIn (ivs : List Interval)
deriving DecidableEq, Repr

inductive COp where
  | leaf (o : Op)
  | not (c : COp)
  | or (a b : COp)
  | list (cs : List COp)
deriving Repr, Inhabited

/-- `buildSearchOpResult.needs*` -/
structure Needs where
  literal : Bool := false
  message : Bool := false
  header : Bool := false
deriving DecidableEq, Repr

def Needs.merge (a b : Needs) : Needs :=
  { literal := a.literal || b.literal, message := a.message || b.message, header := a.header || b.header }

def Op.needs : Op → Needs
  | .header _ _ | .sentBefore _ | .sentOn _ | .sentSince _ => { literal := true, header := true }  -- needsHeader()
  | .body _ | .text _ => { literal := true }                                                     -- needsLiteral()
  | .before _ | .on _ | .since _ | .larger _ | .smaller _ => { message := true }                 -- needsDBMessage()
  | _ => {}

mutual
def COp.needs : COp → Needs
  | .leaf o => o.needs
  | .not c => c.needs
  | .or a b => (Needs.merge a.needs b.needs)
  | .list cs => COp.needsList cs
def COp.needsList : List COp → Needs
  | [] => {}
  | c :: cs => Needs.merge c.needs (COp.needsList cs)
end

/-- `searchData` for one message: the snapshot entry with its sequence number, and the data -/
structure SData where
  seq : Nat
  msg : SMsg
  d : MsgData

def flagAnswered : Flag := "\\answered"
def flagDraft : Flag := "\\draft"
def flagFlagged : Flag := "\\flagged"

/-- the three string-key builders that decode and lower-case the key -/
def decodeLower (dec : Bytes → Option Bytes) (v : Bytes) : Except SErr Bytes :=
  match dec v with
  | none => .error .decode
  | some k => .ok (lower k)

def hName (s : String) : Bytes := s.toUTF8.toList

/-- `buildSearchOp` for the non-recursive keys -/
def buildLeaf (s : Snap) (dec : Bytes → Option Bytes) : Leaf → Except SErr Op
  | .all => .ok (.const true)
  | .answered => .ok (.hasFlag flagAnswered false)
  | .bcc v => do let k ← decodeLower dec v; .ok (.header (hName "Bcc") k)
  | .before d => .ok (.before d)
  | .body v => do let k ← decodeLower dec v; .ok (.body k)
  | .cc v => do let k ← decodeLower dec v; .ok (.header (hName "Cc") k)
  | .deleted => .ok (.hasFlag Flags.deleted false)
  | .draft => .ok (.hasFlag flagDraft false)
  | .flagged => .ok (.hasFlag flagFlagged false)
  | .from v => do let k ← decodeLower dec v; .ok (.header (hName "From") k)
  | .header f v => do let k ← decodeLower dec v; .ok (.header f k)
  | .keyword a => .ok (.hasFlag a.toLower false)
  | .larger n => .ok (.larger n)
  | .new => .ok .new
  | .old => .ok (.hasFlag Flags.recent true)
  | .on d => .ok (.on d)
  | .recent => .ok (.hasFlag Flags.recent false)
  | .seen => .ok (.hasFlag Flags.seen false)
  | .sentBefore d => .ok (.sentBefore d)
  | .sentOn d => .ok (.sentOn d)
  | .sentSince d => .ok (.sentSince d)
  | .since d => .ok (.since d)
  | .smaller n => .ok (.smaller n)
  | .subject v => do let k ← decodeLower dec v; .ok (.header (hName "Subject") k)
  | .text v => do let k ← decodeLower dec v; .ok (.text k)
  | .to v => do let k ← decodeLower dec v; .ok (.header (hName "To") k)
  | .uid set =>
    match resolveUIDInterval s set with
    | .ok ivs => .ok (.uidIn ivs)
    | .error _ => .error .noSuchMessage
  | .unanswered => .ok (.hasFlag flagAnswered true)
  | .undeleted => .ok (.hasFlag Flags.deleted true)
  | .undraft => .ok (.hasFlag flagDraft true)
  | .unflagged => .ok (.hasFlag flagFlagged true)
  | .unkeyword a => .ok (.hasFlag a.toLower true)
  | .unseen => .ok (.hasFlag Flags.seen true)
  | .seqSet set =>
    match resolveSeqInterval s set with
    | .ok ivs => .ok (.seqIn ivs)
    | .error _ => .error .noSuchMessage

mutual
/-- `buildSearchOp` -/
def build (s : Snap) (dec : Bytes → Option Bytes) : Key → Except SErr COp
  | .leaf l => do let o ← buildLeaf s dec l; .ok (.leaf o)
  | .not k => do let c ← build s dec k; .ok (.not c)
  | .or a b => do
    let ca ← build s dec a
    let cb ← build s dec b
    .ok (.or ca cb)
  | .list ks => do let cs ← buildList s dec ks; .ok (.list cs)
/-- the loop of `buildSearchOpListWithKeys`: every key is built (first error wins) -/
def buildList (s : Snap) (dec : Bytes → Option Bytes) : List Key → Except SErr (List COp)
  | [] => .ok []
  | k :: ks => do
    let c ← build s dec k
    let cs ← buildList s dec ks
    .ok (c :: cs)
end

/-- the closure bodies of the leaves -/
def Op.eval (x : SData) : Op → Except SErr Bool
  | .const b => .ok b
  | .hasFlag f neg => .ok (x.msg.flags.contains f != neg)
  | .new => .ok (x.msg.flags.contains Flags.recent && !x.msg.flags.contains Flags.seen)
  | .header field k => .ok (contains (lower (hdrGet (x.d.hdr.getD []) field)) k)
  | .body k => .ok (contains (lower x.d.body) k)
  | .text k => .ok (contains (lower x.d.text) k)
  -- s.dbMessage.date.Before(key.Value)
  | .before d => .ok (decide (x.d.date.unix < keyInstant d))
  -- onDate.Truncate(24h).Equal(s.dbMessage.date.Truncate(24h))
  | .on d => .ok (truncate24h (keyInstant d) == truncate24h x.d.date.unix)
  -- date := convertToDateWithoutTZ(s.dbMessage.date); date.Equal(since) || date.After(since)
  | .since d => .ok (decide (convertToDateWithoutTZ x.d.date ≥ d))
  | .sentBefore d =>
    match x.d.sent with
    | none => .error .date
    | some t => .ok (decide (convertToDateWithoutTZ t < d))
  | .sentOn d =>
    match x.d.sent with
    | none => .error .date
    | some t => .ok (decide (convertToDateWithoutTZ t = d))
  | .sentSince d =>
    match x.d.sent with
    | none => .error .date
    | some t => .ok (decide (convertToDateWithoutTZ t ≥ d))
  | .larger n => .ok (decide (x.d.size > n))
  | .smaller n => .ok (decide (x.d.size < n))
  | .uidIn ivs => .ok (ivs.any (·.contains x.msg.uid))
  | .seqIn ivs => .ok (ivs.any (·.contains x.seq))

mutual
/-- running a built closure -/
def COp.eval (x : SData) : COp → Except SErr Bool
  | .leaf o => o.eval x
  | .not c => do let r ← c.eval x; .ok (!r)
  -- both sides are evaluated, left first; no short circuit
  | .or a b => do
    let l ← a.eval x
    let r ← b.eval x
    .ok (l || r)
  | .list cs => COp.evalList x cs
/-- the closure of `buildSearchOpListWithKeys`: `result = result && ok; if !result { break }` -/
def COp.evalList (x : SData) : List COp → Except SErr Bool
  | [] => .ok true
  | c :: cs => do
    let ok ← c.eval x
    if ok then COp.evalList x cs else .ok false
end

/-- `buildSearchData`: the only modelled failure is `rfc822.NewHeader` when the header is needed -/
def buildSearchData (n : Needs) (seq : Nat) (m : SMsg) (d : MsgData) : Except SErr SData :=
  if n.header && d.hdr.isNone then .error .header else .ok ⟨seq, m, d⟩

/-- `applySearch` -/
def applySearch (n : Needs) (op : List COp) (seq : Nat) (m : SMsg) (d : MsgData) : Except SErr Bool := do
  let x ← buildSearchData n seq m d
  COp.evalList x op

/-- the body of `parallel.DoContext` for the indices `i, i+1, …` (`getWithSeqID(i+1)` is `msg[i]` with
    `Seq = i+1`); `result[i] = mapFn(msg)` if it matches, 0 otherwise -/
def searchLoop (apply : Nat → SMsg → Except SErr Bool) (mapFn : Nat → SMsg → Nat) :
    Nat → List SMsg → Except SErr (List Nat)
  | _, [] => .ok []
  | i, m :: rest => do
    let ok ← apply (i + 1) m
    let tl ← searchLoop apply mapFn (i + 1) rest
    .ok ((if ok then mapFn (i + 1) m else 0) :: tl)

/-- `Mailbox.Search`: the top-level keys are one list (`buildSearchOpListWithKeys(m, keys, decoder)`);
    zero entries are filtered out at the end. -/
def search (uidMode : Bool) (s : Snap) (data : MsgId → MsgData) (dec : Bytes → Option Bytes)
    (keys : List Key) : Except SErr (List Nat) := do
  let op ← buildList s dec keys
  let n := COp.needsList op
  let result ← searchLoop (fun seq m => applySearch n op seq m (data m.id))
    (fun seq m => if uidMode then m.uid else seq) 0 s
  .ok (result.filter (· != 0))

/-! ### handleSearch -/

/-- outcome of `ianaindex.IANA.Encoding(cmd.Charset)` -/
inductive Charset where
  | absent                                   -- no CHARSET argument: `encoding.Nop.NewDecoder()`
  | unknown                                  -- Encoding returned an error
  | unsupported                              -- Encoding returned (nil, nil): known name without decoder
  | decoder (dec : Bytes → Option Bytes)

inductive Outcome where
  | results (nums : List Nat)     -- `* SEARCH …` + tagged OK
  | no                            -- an error from Mailbox.Search: tagged NO
  | badCharset                    -- tagged NO [BADCHARSET]
  | panic                         -- a Go panic (none is left in `handleSearch`; kept so that the harness can report one)
deriving DecidableEq, Repr

/-- `handleSearch` -/
def handleSearch (cs : Charset) (uidMode : Bool) (s : Snap) (data : MsgId → MsgData) (keys : List Key) : Outcome :=
  let run (dec : Bytes → Option Bytes) : Outcome :=
    match search uidMode s data dec keys with
    | .ok nums => .results nums
    | .error _ => .no
  match cs with
  | .absent => run some
  | .unknown => .badCharset
  -- `if err != nil || encoding == nil { return NO [BADCHARSET] }` (before fix 3279020 the nil encoding was
  -- dereferenced: `encoding.NewDecoder()` panicked)
  | .unsupported => .badCharset
  | .decoder dec => run dec

end Search
end Gluon
