/-
M-AUTH — the session protocol state machine of /repo/internal/session (serve loop →
handleOther → handleCommand → handle{Any,NotAuthenticated,Authenticated,Selected}Command) and the
login attempt counter / jail of /repo/internal/backend/backend.go `getUserID`.

The machine is *driven by* the regenerated facts (`DispatchFacts`, filled from
`Generated/Facts/Dispatch.lean` in `Theorems/C18.lean`): which payload type goes to which handler
class, and whether each class handler starts with its guard.  A handler class whose guard the
translator did not find is modelled as running its body without an authenticated state — the
model records that as `breach := true` (in Go: a nil dereference or worse), so the theorems fail
to check as soon as a guard disappears from the source.

Abstractions: the users' data is an arbitrary type `σ` per user and the effect of a handled
mailbox/message command is an arbitrary function `Env.exec` of the command and that user's data
only (justified by `newUser` giving every user its own database, store and connector — assumption,
not checked here); whether SELECT/EXAMINE/CLOSE… succeed is an input (`Cmd.ok`); which users'
connectors accept a LOGIN's credentials is an input (`Cmd.accepting`, `Cmd.pick` = the map
iteration order of `for _, user := range b.users`).  That an accepted LOGIN is bound to one of the
*accepting* users (`chosen`) and to nobody else is the shape of `getUserID` / `GetState` the fact
`userFromAuthorize` stands for: every return of `getUserID` without an error comes straight out of
a successful `user.connector.Authorize(ctx, username, password)` on the presented credentials in the
same call — there is no other source of a user id (cache, map of earlier logins, default); without
that fact a LOGIN is a `breach`.  Time is abstract (`Nat`).

Not modelled: BYE on an invalidated state (deleted selected mailbox), parse errors and the
`maxSessionError` disconnect (C11), TLS, the contents of responses.
-/
namespace Gluon.Auth

abbrev UserId := Nat

/-- facts the machine is driven by (see `Theorems/C18.lean` `facts`) -/
structure DispatchFacts where
  table : List (String × String)    -- handleCommand: payload type → "any" | "notauth" | "auth" | "selected" | other
  serve : List (String × String)    -- serve loop special cases: payload type → handler
  reader : List String              -- payload types consumed by the command reader (STARTTLS)
  defaultRefuses : Bool             -- handleCommand's default clause returns an error
  authGuard : Bool                  -- handleAuthenticatedCommand starts with the nil-state guard
  selectedGuard : Bool              -- handleSelectedCommand starts with the nil-state guard
  idleGuard : Bool                  -- handleIdle starts with the nil-state guard
  loginGuard : Bool                 -- handleLogin refuses when already authenticated
  selectedNeedsSnap : Bool          -- handleSelectedCommand runs only through State.Selected, which refuses without a snapshot
  anyNilSafe : Bool                 -- the any-state handlers touch s.state only under `s.state != nil`
  loginOnlyOnSuccess : Bool         -- s.state is assigned only when GetState succeeded, GetState fails without a user
  maxAttempts : Nat                 -- maxLoginAttempts
  jailShape : Bool                  -- getUserID has the shape modelled by `attempt`
  userFromAuthorize : Bool          -- the only source of a session's user: every non-error return of getUserID hands out the
                                    -- range user whose connector.Authorize has just accepted the presented (username, password)
                                    -- (no cache / map / remembered id), GetState takes the state from b.users[that id],
                                    -- handleLogin presents the command's own credentials, b.users is keyed by the user's own id
deriving DecidableEq, Repr

/-- how the code routes a payload type -/
inductive Route where
  | starttls | logout | idle | any | login | auth | selected
  | bad        -- falls into `default: return fmt.Errorf("bad command")`
  | unknown    -- a shape the facts translator did not recognise
deriving DecidableEq, Repr

def route (F : DispatchFacts) (ty : String) : Route :=
  if F.reader.contains ty then .starttls
  else match F.serve.lookup ty with
    | some "handleLogout" => .logout
    | some "handleIdle" => .idle
    | some _ => .unknown
    | none =>
      match F.table.lookup ty with
      | some "any" => .any
      | some "notauth" => .login
      | some "auth" => .auth
      | some "selected" => .selected
      | some _ => .unknown
      | none => if F.defaultRefuses then .bad else .unknown

/-! ### login attempts (Backend.getUserID) -/

structure LoginSt where
  count : Nat                -- loginErrorCount
  jailedUntil : Option Nat   -- a jail timer is armed (loginWG counter is 1) and fires at this time
  free : Nat                 -- time at which loginLock was last released
deriving DecidableEq, Repr

def LoginSt.init : LoginSt := { count := 0, jailedUntil := none, free := 0 }

/-- timing inputs of one attempt -/
structure Timing where
  arrive : Nat    -- when the session calls getUserID
  dur : Nat       -- time spent in the Authorize loop
  slack : Nat     -- how much later than `loginJailTime` the runtime fires a timer armed by this attempt
deriving DecidableEq, Repr

structure AttemptResult where
  st : LoginSt
  success : Bool
  blocked : Bool      -- this attempt was the `maxLoginAttempts`-th failure in a row: ErrLoginBlocked, timer armed
  decided : Nat       -- time at which getUserID returned

/-- when the Authorize loop starts: after `loginLock` is free and, if a jail timer is armed,
    after it has fired (`loginWG.Wait()`) -/
def startTime (s : LoginSt) (t : Timing) : Nat :=
  match s.jailedUntil with
  | some j => max (max t.arrive s.free) j
  | none => max t.arrive s.free

/-- the counter the attempt sees: the timer it waited for has reset it -/
def effCount (s : LoginSt) : Nat :=
  match s.jailedUntil with
  | some _ => 0
  | none => s.count

/-- one `getUserID` call.  `loginLock` serialises the calls; `loginWG.Wait()` returns once an armed
    timer has fired, which also reset the counter. -/
def attempt (maxAttempts jail : Nat) (s : LoginSt) (t : Timing) (accepted : Bool) : AttemptResult :=
  let t2 := startTime s t + t.dur
  if accepted then
    { st := { count := 0, jailedUntil := none, free := t2 }, success := true, blocked := false, decided := t2 }
  else if effCount s + 1 = maxAttempts then
    { st := { count := effCount s + 1, jailedUntil := some (t2 + jail + t.slack), free := t2 },
      success := false, blocked := true, decided := t2 }
  else
    { st := { count := effCount s + 1, jailedUntil := none, free := t2 }, success := false, blocked := false, decided := t2 }

/-! ### sessions -/

inductive Proto where
  | notAuth
  | auth (u : UserId)
  | selected (u : UserId)
  | closed
deriving DecidableEq, Repr

def Proto.user : Proto → Option UserId
  | .auth u => some u
  | .selected u => some u
  | _ => none

structure Cmd where
  ty : String                  -- Go payload type name ("Noop", "Login", "Fetch", …)
  ok : Bool                    -- the handler succeeds (mailbox exists, …)
  accepting : List UserId      -- LOGIN: users whose connector.Authorize accepts the credentials
  pick : Nat                   -- LOGIN: which of them the map iteration reaches first
  timing : Timing              -- LOGIN: timing inputs
deriving DecidableEq, Repr

inductive Resp where
  | ok | no | bad | bye | tls | none
deriving DecidableEq, Repr

structure Env (σ : Type) where
  exec : String → Bool → σ → σ      -- effect of a handled command (type, success) on the user's own data
  jail : Nat                        -- loginJailTime

structure Sys (σ : Type) where
  store : UserId → σ
  login : LoginSt
  breach : Bool           -- a gated handler body ran without an authenticated state

def updStore {σ : Type} (store : UserId → σ) (u : UserId) (f : σ → σ) : UserId → σ :=
  fun v => if v = u then f (store v) else store v

/-- the user the Authorize loop returns -/
def chosen (c : Cmd) : Option UserId :=
  if c.accepting.isEmpty then none else c.accepting[c.pick % c.accepting.length]?

/-- one command of one session -/
def step {σ : Type} (F : DispatchFacts) (env : Env σ) (p : Proto) (sys : Sys σ) (c : Cmd) : Proto × Sys σ × Resp :=
  match p with
  | .closed => (.closed, sys, .none)
  | _ =>
  match route F c.ty with
  | .starttls => (p, sys, .tls)
  | .logout => (.closed, sys, .bye)
  | .bad => (p, sys, .no)
  | .unknown => (p, { sys with breach := true }, .none)
  | .idle =>
    match p.user with
    | none => if F.idleGuard then (p, sys, .no) else (p, { sys with breach := true }, .none)
    | some _ => (p, sys, .ok)
  | .any =>
    match p.user with
    | none => if F.anyNilSafe then (p, sys, .ok) else (p, { sys with breach := true }, .none)
    | some _ => (p, sys, .ok)
  | .login =>
    match p.user with
    | some _ =>
      if F.loginGuard then (p, sys, .bad)
      else (p, { sys with breach := true }, .none)       -- a second GetState would replace s.state
    | none =>
      if !(F.loginOnlyOnSuccess && F.jailShape && F.userFromAuthorize) then (p, { sys with breach := true }, .none) else
      let r := attempt F.maxAttempts env.jail sys.login c.timing (chosen c).isSome
      match chosen c with
      | some u => (.auth u, { sys with login := r.st }, .ok)
      | none => (p, { sys with login := r.st }, .no)
  | .auth =>
    match p with
    | .auth u | .selected u =>
      let sys' := { sys with store := updStore sys.store u (env.exec c.ty c.ok) }
      if (c.ty == "Select" || c.ty == "Examine") && c.ok then (.selected u, sys', .ok)
      else (p, sys', if c.ok then .ok else .no)
    | _ => if F.authGuard then (p, sys, .no) else (p, { sys with breach := true }, .none)
  | .selected =>
    match p with
    | .selected u =>
      let sys' := { sys with store := updStore sys.store u (env.exec c.ty c.ok) }
      if (c.ty == "Close" || c.ty == "Unselect") && c.ok then (.auth u, sys', .ok)
      else (p, sys', if c.ok then .ok else .no)
    | .auth _ => if F.selectedNeedsSnap then (p, sys, .no) else (p, { sys with breach := true }, .none)
    | _ => if F.selectedGuard then (p, sys, .no) else (p, { sys with breach := true }, .none)

/-- one session's command sequence -/
def run {σ : Type} (F : DispatchFacts) (env : Env σ) : List Cmd → Proto → Sys σ → Proto × Sys σ × List Resp
  | [], p, sys => (p, sys, [])
  | c :: rest, p, sys =>
    let (p1, sys1, r) := step F env p sys c
    let (p2, sys2, rs) := run F env rest p1 sys1
    (p2, sys2, r :: rs)

/-! ### several sessions on one server: an interleaving of (session id, command) -/

structure World (σ : Type) where
  sess : Nat → Proto
  sys : Sys σ

def stepW {σ : Type} (F : DispatchFacts) (env : Env σ) (w : World σ) (e : Nat × Cmd) : World σ :=
  let (p', sys', _) := step F env (w.sess e.1) w.sys e.2
  { sess := fun i => if i = e.1 then p' else w.sess i, sys := sys' }

def runW {σ : Type} (F : DispatchFacts) (env : Env σ) : List (Nat × Cmd) → World σ → World σ
  | [], w => w
  | e :: rest, w => runW F env rest (stepW F env w e)

/-- every routing entry has a shape the model knows (so that no payload type routes to `unknown`) -/
def DispatchFacts.closedWorld (F : DispatchFacts) : Bool :=
  F.serve.all (fun x => x.2 == "handleLogout" || x.2 == "handleIdle") &&
  F.table.all (fun x => x.2 == "any" || x.2 == "notauth" || x.2 == "auth" || x.2 == "selected")

/-- all the guards the theorems need, as one decidable check on the facts -/
def DispatchFacts.wellGated (F : DispatchFacts) : Bool :=
  F.closedWorld && F.defaultRefuses && F.authGuard && F.selectedGuard && F.idleGuard && F.loginGuard &&
  F.selectedNeedsSnap && F.anyNilSafe && F.loginOnlyOnSuccess && F.jailShape && F.userFromAuthorize

end Gluon.Auth
