/-
M-RESP (part 1): untagged responses and `response.Merge`
(internal/response/merge.go, exists.go, recent.go, fetch.go, expunge.go,
item_flags.go, item_uid.go).

Only the responses that responders produce pass through `Merge`: EXISTS, RECENT,
EXPUNGE and FETCH with the items FLAGS and UID.  A FETCH's item list is modelled
as the pair (flags?, uid?): `appendOrMergeItem` replaces an item of the same type
by the newer one and appends otherwise, so only the *order* of the two items is
lost, which is presentation (the harness canonicalises it).
-/
import GluonModel.Model.Snap

namespace Gluon

inductive Resp where
  | exists (n : Nat)
  | recent (n : Nat)
  | expunge (seq : Nat)
  | fetch (seq : Nat) (flags : Option Flags) (uid : Option UID)
deriving DecidableEq, Repr

namespace Resp

def isExpunge : Resp → Bool
  | .expunge _ => true
  | _ => false

/-- outcome of `mergeable.mergeWith(other)`: `none` = nil (not mergeable),
    `some (.ok r)` = merged response that replaces `other`, `some (.error ())` = panic -/
def mergeWith (new other : Resp) : Option (Except Unit Resp) :=
  match new, other with
  | .exists n, .exists m => if m > n then some (.error ()) else some (.ok (.exists n))
  | .recent n, .recent m => if m > n then some (.error ()) else some (.ok (.recent n))
  | .fetch s f u, .fetch s' f' u' =>
      if s' != s then none
      else some (.ok (.fetch s' (f.or f') (u.or u')))
  | _, _ => none

/-- `mergeable.canSkip(other)` -/
def canSkip (new other : Resp) : Bool :=
  match new, other with
  | .exists _, .recent _ => true
  | .exists _, .fetch .. => true
  | .recent _, .exists _ => true
  | .recent _, .fetch .. => true
  | .fetch s _ _, .exists n => s < n
  | .fetch _ _ _, .recent _ => true
  | .fetch s _ _, .fetch s' _ _ => s' != s
  | _, _ => false

/-- is the response a `mergeableResponse` (EXPUNGE is not) -/
def mergeable : Resp → Bool
  | .expunge _ => false
  | _ => true

/-- The backwards scan of `appendOrMergeResponse` over the already merged list,
    given newest-first (`rev` = reversed `input`).  Result: `none` = not merged,
    `some (.ok rev')` = merged in place, `some (.error ())` = panic. -/
def scan (new : Resp) : List Resp → Option (Except Unit (List Resp))
  | [] => none
  | o :: rest =>
    match mergeWith new o with
    | some (.ok r) => some (.ok (r :: rest))
    | some (.error ()) => some (.error ())
    | none =>
      if canSkip new o then
        match scan new rest with
        | some (.ok rest') => some (.ok (o :: rest'))
        | some (.error ()) => some (.error ())
        | none => none
      else none

/-- `appendOrMergeResponse(input, unmerged)` with `input` held reversed. -/
def appendOrMergeRev (rev : List Resp) (new : Resp) : Except Unit (List Resp) :=
  if !new.mergeable then .ok (new :: rev)
  else match scan new rev with
    | some (.ok rev') => .ok rev'
    | some (.error ()) => .error ()
    | none => .ok (new :: rev)

def mergeRevAux : List Resp → List Resp → Except Unit (List Resp)
  | rev, [] => .ok rev
  | rev, r :: rs =>
    match appendOrMergeRev rev r with
    | .ok rev' => mergeRevAux rev' rs
    | .error () => .error ()

/-- `response.Merge(input)`; `.error ()` = the Go function panics. -/
def merge (input : List Resp) : Except Unit (List Resp) :=
  if input.length < 2 then .ok input
  else match mergeRevAux [] input with
    | .ok rev => .ok rev.reverse
    | .error () => .error ()

end Resp
end Gluon
