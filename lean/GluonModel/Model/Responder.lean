/-
M-RESP (part 2): responders, `popResponders`, `flushResponses`, `PushResponder`
(internal/state/responders.go, internal/state/state.go).
-/
import GluonModel.Model.Resp

namespace Gluon

notation "StateId" => Nat

inductive FlagOp where
  | add | rem | set
deriving DecidableEq, Repr

inductive Responder where
  /-- `targetedExists{resp: exists{id, uid, flags}, targetStateID, originStateID/Set}` -/
  | exists (id : MsgId) (uid : UID) (flags : Flags) (target : StateId) (origin : Option StateId)
  /-- `expunge{messageID}` -/
  | expunge (id : MsgId)
  /-- `fetch{messageID, flags, fetchFlagOp, asUID, asSilent, cameFromDifferentMailbox}` -/
  | fetch (id : MsgId) (flags : Flags) (op : FlagOp) (asUID asSilent otherMbox : Bool)
deriving DecidableEq, Repr

namespace Responder

def msgId : Responder → MsgId
  | .exists id .. => id
  | .expunge id => id
  | .fetch id .. => id

def isExpunge : Responder → Bool
  | .expunge _ => true
  | _ => false

/-- the session's own `.SILENT` store (`asSilent`) -/
def isSilent : Responder → Bool
  | .fetch _ _ _ _ s _ => s
  | _ => false

def isExists : Responder → Bool
  | .exists .. => true
  | _ => false

/-- Result of `responder.handle(ctx, snap, stateID)`: the (possibly mutated) snapshot,
    the responses, and whether a `clearRecentFlagRespUpdate` DB update is returned.
    On error the snapshot is returned as the code leaves it. -/
structure HandleOut where
  snap : Snap
  out : List Resp
  clearRecent : Option MsgId := none
  err : Option Err := none
deriving Repr

/-- `handle`; `close` = `contexts.IsClose(ctx)` -/
def handle (r : Responder) (close : Bool) (sid : StateId) (snap : Snap) : HandleOut :=
  match r with
  | .exists id uid flags target origin =>
    if snap.has id then { snap, out := [] }
    else
      let fl := if target != sid then Flags.remove1 flags Flags.recent else flags
      let ins := if origin == some sid then snap.insert id uid fl else snap.insertOutOfOrder id uid fl
      match ins with
      | .error e => { snap, out := [], err := some e }
      | .ok snap' =>
        let recent := snap'.countFlag Flags.recent
        if recent > 0 then
          { snap := snap', out := [.exists snap'.length, .recent recent],
            clearRecent := if fl.contains Flags.recent then some id else none }
        else { snap := snap', out := [.exists snap'.length] }
  | .expunge id =>
    match snap.get? id with
    | none => { snap, out := [] }
    | some (seq, _) =>
      match snap.remove id with
      | none => { snap, out := [], err := some .noSuchMessage }
      | some snap' => if close then { snap := snap', out := [] } else { snap := snap', out := [.expunge seq] }
  | .fetch id flags op asUID asSilent otherMbox =>
    match snap.get? id with
    | none => { snap, out := [] }
    | some (_, m) =>
      let cur := m.flags
      let new0 := match op with
        | .add => Flags.add cur flags
        | .rem => Flags.remove cur flags
        | .set => Flags.norm flags
      let new1 := if otherMbox then Flags.set new0 Flags.deleted (cur.contains Flags.deleted) else new0
      let snap' := snap.setFlags id new1
      match snap'.get? id with
      | none => { snap := snap', out := [], err := some .noSuchMessage }
      | some (seq, m') =>
        if Flags.equals cur m'.flags then { snap := snap', out := [] }
        else if asSilent then { snap := snap', out := [] }
        else { snap := snap', out := [.fetch seq (some m'.flags) (if asUID then some m'.uid else none)] }

end Responder

/-- what `popResponders` does to a responder it holds back behind a held-back EXISTS of the same
    message: a `*fetch` gets `asSilent = false` (it will be applied after the command that asked for
    silence has completed, so it has to be announced then) -/
def Responder.unsilent : Responder → Responder
  | .fetch id fl op a _ o => .fetch id fl op a false o
  | r => r

/-- `len(heldExists) > 0 || heldExpunge.Contains(id)`: is an EXISTS of message `id` held back -/
def holdsExists (hexp hex : List MsgId) (id : MsgId) : Bool := !hex.isEmpty || hexp.contains id

/-- `popResponders(permitExpunge = false)`: (popped, remaining).
    `hexp` = `heldExpunge` (messages with a retained expunge; never removed),
    `hex` = `heldExists` (messages with a retained exists).  The Go sets are modelled by lists;
    only membership and emptiness are ever asked.
    * an `expunge` is retained;
    * a `targetedExists` is retained iff some exists is already held back or its message has a
      retained expunge, else popped;
    * any other responder of a message with a held-back exists is retained (a fetch un-silenced);
    * everything else is popped. -/
def popAux (hexp hex : List MsgId) : List Responder → List Responder × List Responder
  | [] => ([], [])
  | r :: rs =>
    match r with
    | .expunge id =>
      let (p, q) := popAux (id :: hexp) hex rs
      (p, r :: q)
    | .exists id .. =>
      if holdsExists hexp hex id then
        let (p, q) := popAux hexp (id :: hex) rs
        (p, r :: q)
      else
        let (p, q) := popAux hexp hex rs
        (r :: p, q)
    | .fetch id .. =>
      if hex.contains id then
        let (p, q) := popAux hexp hex rs
        (p, r.unsilent :: q)
      else
        let (p, q) := popAux hexp hex rs
        (r :: p, q)

def popResponders (permit : Bool) (res : List Responder) : List Responder × List Responder :=
  if permit then (res, []) else popAux [] [] res

/-- the loop of `flushResponses` over the popped responders -/
def handleAll (close : Bool) (sid : StateId) :
    Snap → List Responder → Snap × List Resp × List MsgId × Option Err
  | snap, [] => (snap, [], [], none)
  | snap, r :: rs =>
    let h := r.handle close sid snap
    match h.err with
    | some e => (h.snap, [], [], some e)
    | none =>
      let (s', out, cl, e) := handleAll close sid h.snap rs
      (s', h.out ++ out, h.clearRecent.toList ++ cl, e)

inductive FlushResult where
  | ok (out : List Resp)
  | err (e : Err)
  | mergePanic
deriving Repr, DecidableEq

structure FlushOut where
  snap : Snap
  rem : List Responder
  clearRecent : List MsgId
  result : FlushResult
deriving Repr

/-- `state.flushResponses(ctx, permitExpunge)`; the popped responders are gone
    whatever happens afterwards, exactly as in the code. -/
def flush (permit close : Bool) (sid : StateId) (snap : Snap) (res : List Responder) : FlushOut :=
  let (pop, rem) := popResponders permit res
  let (snap', raw, cl, e) := handleAll close sid snap pop
  match e with
  | some e => { snap := snap', rem, clearRecent := [], result := .err e }
  | none =>
    -- CLOSE context: nothing is announced (and `Merge` is not called)
    if close then { snap := snap', rem, clearRecent := cl, result := .ok [] }
    else
    match Resp.merge raw with
    | .ok out => { snap := snap', rem, clearRecent := cl, result := .ok out }
    | .error () => { snap := snap', rem, clearRecent := cl, result := .mergePanic }

/-- `Mailbox.ExpungeIssued()` -/
def expungeIssued (res : List Responder) : Bool := res.any (·.isExpunge)

end Gluon
