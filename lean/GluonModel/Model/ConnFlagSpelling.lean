/-
M-ACT (connector part), the spelling of flags — model of `/repo/imap/flags.go` (`imap.FlagSet`) as
`user.setMessageFlags` of `/repo/internal/backend/connector_updates.go` uses it.  Core Lean only.

`Model/ConnUpdates.lean` keeps the flags of a message as *names* (lower-cased: `Msg.flags`).  The code
keeps *spellings*: `type FlagSet map[string]string` maps `strings.ToLower(flag)` to the flag as it was
first given, `message_flags_v2.value` holds that spelling, and every membership test lower-cases
first (`Contains`), resp. compares with `COLLATE NOCASE` (`RemoveFlagFromMessages`).  This file has
the spelled versions; `Lemmas/ConnSpelling.lean` proves that taking names (`flagKey`) maps them onto
the functions of `Model/ConnUpdates.lean` — so everything proved there about names holds of the
spellings — and `Theorems/C06.lean` states what that means for an update that restates the flags of a
message in other letters, in another order, or more than once.

Statement-level correspondence:

* `fsAdd`   — `func (fs FlagSet) add`: `flagLower := strings.ToLower(flag); if fs.ContainsUnchecked(flagLower) { continue }; fs[flagLower] = flag`
* `fsOf`    — `NewFlagSet(flags...)` / repeated `AddToSelf`: the first spelling of a flag stays
* `fsHas`   — `func (fs FlagSet) Contains(flag)`: `_, ok := fs[strings.ToLower(flag)]`
* `setMessageFlagsSp` — `user.setMessageFlags`:
  `for _, v := range flagSet.ToSliceUnsorted() { if !flags.Contains(v) { removeMessageFlags(v) } }`
  `for _, v := range flags.ToSliceUnsorted() { if !flagSet.Contains(v) { addMessageFlags(v) } }`
  (the order of a Go map iteration is unspecified; here: the order of the lists)
-/
import GluonModel.Model.ConnUpdates

namespace Gluon.ConnUpd

/-- the key of a flag in `imap.FlagSet`: `strings.ToLower` (flags are ASCII atoms) -/
def flagKey (f : String) : Flag := lowerAscii f

/-- `FlagSet.Contains` on the list of spellings a set holds -/
def fsHas (fs : List String) (f : String) : Bool := fs.any (fun g => flagKey g == flagKey f)

/-- `FlagSet.add` of one flag: a flag the set has (in any spelling) is skipped -/
def fsAdd (fs : List String) (f : String) : List String := if fsHas fs f then fs else fs ++ [f]

/-- `NewFlagSet(flags...)` -/
def fsOf (l : List String) : List String := l.foldl fsAdd []

/-- no flag twice, in whatever spelling (what `FlagSet` and `message_flags_v2` guarantee) -/
def fsNodup : List String → Bool
  | [] => true
  | f :: fs => !fsHas fs f && fsNodup fs

/-- `user.setMessageFlags` on spellings: the new spelled flags of the message, the spellings handed
    to `removeMessageFlags` (one `RemoteRemoveMessageFlagsStateUpdate` each) and those handed to
    `addMessageFlags` (one `RemoteAddMessageFlagsStateUpdate` each) -/
def setMessageFlagsSp (stored target : List String) : List String × List String × List String :=
  let t := fsOf target
  let rems := stored.filter (fun f => !fsHas t f)
  let adds := t.filter (fun f => !fsHas stored f)
  (stored.filter (fun f => fsHas t f) ++ adds, rems, adds)

end Gluon.ConnUpd
