/-
M-UIDV — model of `imap.EpochUIDValidityGenerator` (/repo/imap/uid_validity_generator.go).

```go
func (e *EpochUIDValidityGenerator) Generate() (UID, error) {
	timeStamp := uint64(time.Now().Sub(e.epochStart).Seconds())          -- (1)
	if timeStamp > uint64(0xFFFFFFFF) { return 0, error }                -- (2)
	timeStampU32 := uint32(timeStamp)                                    -- (3)
	for {
		lastGenerated := atomic.LoadUint32(&e.lastUID)                   -- (4)
		if lastGenerated >= timeStampU32 {                               -- (5)
			if timeStampU32 == 0xFFFFFFFF { return 0, error }            -- (6)
			timeStampU32 += 1                                            -- (7)
			continue
		}
		if !atomic.CompareAndSwapUint32(&e.lastUID, lastGenerated, timeStampU32) { continue }  -- (8)
		return UID(timeStampU32), nil                                    -- (9)
	}
}
```

The clock is an *input*: `ts` is the value of the local `timeStamp` after line (1), an arbitrary
natural number below 2^64 (the theorems quantify over all naturals).  `tsOfSecs` documents how
line (1) turns the (signed, truncated) number of elapsed seconds into that value on amd64:
a negative float converts through `int64`, i.e. two's complement, so an epoch more than a second
in the future makes every call fail at (2); an epoch less than a second in the future gives 0.
`time.Time.Sub` saturates at ±2^63 ns (≈ 292 years), far beyond 2^32 s, so saturation can only
land in the error branch (2) as well.

`lastUID` is the only state and is *not persisted*: a restarted server starts from
`fresh = 0` (`NewEpochUIDValidityGenerator`).  The loop is modelled for one thread; a
concurrent execution linearises at the successful CAS (8) to exactly this function of the value
loaded at (4) in the last iteration (the counter only grows, so every earlier bump (7) was
justified by a value ≤ the final one) — that argument is not formalised here.
-/
namespace Gluon.UidV

/-- `0xFFFFFFFF` -/
def u32max : Nat := 0xFFFFFFFF

/-- line (1), amd64: `uint64(float64)` of the truncated signed elapsed seconds `s`. -/
def tsOfSecs (s : Int) : Nat :=
  if 0 ≤ s then s.toNat else 2 ^ 64 - (-s).toNat

/-- outcome of one `Generate` call -/
inductive Res where
  | ok (uid : Nat)
  | err              -- "failed to generate uid validity, interval exceeded maximum capacity"
deriving DecidableEq, Repr

/-- lines (4)–(9): the `for` loop, run by one thread.  `t` = `timeStampU32`, `last` = `e.lastUID`.
    Returns the outcome and the new `lastUID`.  `fuel` bounds the number of iterations (the loop
    needs at most `last - t + 1` bumps; running out of fuel is reported as `err` and is shown
    unreachable by `Lemmas/UidValidity.generate_eq`). -/
def loop : (fuel : Nat) → (t last : Nat) → Res × Nat
  | 0, _, last => (.err, last)
  | fuel + 1, t, last =>
    if last ≥ t then
      if t = u32max then (.err, last)
      else loop fuel ((t + 1) % 2 ^ 32) last
    else (.ok t, t)

/-- `Generate()` with clock reading `ts` (line 1) and generator state `last`. -/
def generate (ts : Nat) (last : Nat) : Res × Nat :=
  if ts > u32max then (.err, last)
  else
    let t := ts % 2 ^ 32
    loop (last - t + 2) t last

/-- closed form of `generate` (equal to it for every uint32 state: `Lemmas/UidValidity.generate_eq`);
    used by the judge so that an absurd implementation answer cannot make it spin 2^32 times -/
def generateC (ts : Nat) (last : Nat) : Res × Nat :=
  if ts > u32max then (.err, last)
  else if last ≥ ts then (if last = u32max then (.err, last) else (.ok (last + 1), last + 1))
  else (.ok ts, ts)

/-- state of a generator right after `NewEpochUIDValidityGenerator` (= after a server restart) -/
def fresh : Nat := 0

/-- successive `Generate` calls of one process with clock readings `nows` -/
def run : (nows : List Nat) → (last : Nat) → List Res
  | [], _ => []
  | now :: rest, last => (generate now last).1 :: run rest (generate now last).2

/-- state after those calls -/
def runState : (nows : List Nat) → (last : Nat) → Nat
  | [], last => last
  | now :: rest, last => runState rest (generate now last).2

/-- the successfully issued values, in order -/
def okVals : List Res → List Nat
  | [] => []
  | .ok v :: rest => v :: okVals rest
  | .err :: rest => okVals rest

/-! ### histories with restarts -/

inductive Ev where
  | gen (now : Nat)     -- a Generate call that read the clock as `now`
  | restart             -- server restart: the generator is re-created, `lastUID` is lost
deriving DecidableEq, Repr

/-- results of a history, starting from generator state `last` -/
def runH : (evs : List Ev) → (last : Nat) → List Res
  | [], _ => []
  | .gen now :: rest, last => (generate now last).1 :: runH rest (generate now last).2
  | .restart :: rest, _ => runH rest fresh

/-- **Named hypothesis `clockAtRestart > lastIssued`.**  `hi` is the greatest value issued so far
    (it survives restarts — the mailboxes that carry it are persisted), `last` the generator's
    memory of it (lost at a restart).  Whenever the generator's memory is behind (`last < hi`,
    i.e. at the first call after a restart), the clock it reads must be beyond `hi`. -/
def ClockAhead : (evs : List Ev) → (last hi : Nat) → Prop
  | [], _, _ => True
  | .restart :: rest, _, hi => ClockAhead rest fresh hi
  | .gen now :: rest, last, hi =>
    (last < hi → hi < now) ∧
      ClockAhead rest (generate now last).2 (max hi (generate now last).2)

instance decClockAhead : (evs : List Ev) → (last hi : Nat) → Decidable (ClockAhead evs last hi)
  | [], _, _ => isTrue trivial
  | .restart :: rest, _, hi => decClockAhead rest fresh hi
  | .gen now :: rest, last, hi =>
    have := decClockAhead rest (generate now last).2 (max hi (generate now last).2)
    inferInstanceAs (Decidable ((last < hi → hi < now) ∧ _))

/-! ### which command a value was generated for

`State.Create` (internal/state/state.go), `State.Rename` (for missing superiors and for INBOX),
`user.applyMailboxCreated` and `user.applyUIDValidityBumped` all call `Generate` *inside the
command that needs the value* and keep the result in a local variable: when the command then
fails (the name exists or is malformed, the connector refuses, the mailbox-count limit is
reached, the transaction is rolled back) the value is dropped with the stack frame; nothing
remembers it for a later command.  A process history is therefore a list of `Generate` calls,
each tagged with what became of its value. -/

/-- `tags[i] = some name`: the command that made the `i`-th `Generate` call created mailbox
    `name` under the returned value; `none`: the command failed after the call and the value was
    dropped.  (A failing `Generate` fails its command whatever the tag.) -/
def usedFor : List (Option String) → List Res → List (String × Nat)
  | some n :: ts, .ok v :: rs => (n, v) :: usedFor ts rs
  | _ :: ts, _ :: rs => usedFor ts rs
  | _, _ => []

/-- the successive UIDVALIDITY values mailbox name `name` received, oldest first -/
def valuesOf (name : String) (l : List (String × Nat)) : List Nat :=
  (l.filter (fun p => p.1 == name)).map (·.2)

/-- `lst.Pairwise (· < ·)` as a Bool, for `decide` on witnesses and for the judge -/
def strictlyIncreasing : List Nat → Bool
  | [] => true
  | [_] => true
  | a :: b :: rest => a < b && strictlyIncreasing (b :: rest)

end Gluon.UidV
