/-
M-SEARCH, the header side: where `MsgData.hdr` comes from (property C15).

  rfc822/header.go          mergeMultiline (the "unfolded" value of a field), headerEntry.getMerged,
                            Header.Get / Header.Entries
  rfc822/header_parser.go   headerParser.next — C13's model `Rfc822.parseEntries` (Model/Rfc822.lean)
  internal/state/mailbox_search.go  buildSearchData: `rfc822.NewHeader(rfc822.Split(literal).header)`
  Go standard library       bytes.TrimSpace (ASCII fast path + `TrimFunc(unicode.IsSpace)` on UTF-8)

`Model/Search.lean` takes the header of a message as a list of (name as written, merged value).  This file says
which list that is for a given stored literal: `hdrOfLiteral`.  The six header-string keys of SEARCH (BCC CC FROM
SUBJECT TO HEADER) test `strings.Contains(strings.ToLower(header.Get(name)), key)`, and `header.Get` answers
`mergeMultiline(value bytes of the first entry of that name)` — NOT the raw bytes of the header block:

  * the physical lines of the value are split at `\n` (a `\r` right before it is dropped),
  * every line is `bytes.TrimSpace`d (leading and trailing Unicode white space, so also the WSP that starts a
    continuation line, WSP before the line break, a tab, U+00A0 …),
  * an EMPTY line writes nothing; a non-empty line writes its trimmed text and then ONE space if anything is left
    after it (so a continuation line of white space only leaves two spaces, a trailing one a space at the end),
  * the last piece without `\n` is trimmed and written.

So `CRLF WSP+` inside a value reads as exactly one space, whatever white space surrounds the fold, and a search string
that spans a fold (with that single space) matches although it does not occur in the raw header block — and a
string that only occurs in the raw block (doubled blanks, a tab after the line break) does not.
-/
import GluonModel.Model.Search
import GluonModel.Model.Rfc822

namespace Gluon
namespace Search

/-! ### bytes.TrimSpace -/

/-- `asciiSpace` of package bytes: `\t \n \v \f \r` and space -/
def isAsciiSpace (c : UInt8) : Bool := c == 9 || c == 10 || c == 11 || c == 12 || c == 13 || c == 32

/-- third byte of `E2 80 xx` that is white space: U+2000–U+200A, U+2028, U+2029, U+202F -/
def isE280Space (e : UInt8) : Bool := (0x80 ≤ e && e ≤ 0x8A) || e == 0xA8 || e == 0xA9 || e == 0xAF

/-- `bytes.TrimLeftFunc(b, unicode.IsSpace)`: runes are decoded front to back (`utf8.DecodeRune`); the white-space
    runes are the ASCII ones, U+0085, U+00A0, U+1680, U+2000–U+200A, U+2028, U+2029, U+202F, U+205F, U+3000 (each has
    exactly one well-formed encoding); any other rune and every ill-formed byte stops the trimming. -/
def trimLeft : Bytes → Bytes
  | [] => []
  | c :: tl =>
    if isAsciiSpace c then trimLeft tl
    else if c == 0xC2 then
      match tl with
      | d :: tl2 => if d == 0x85 || d == 0xA0 then trimLeft tl2 else c :: tl
      | [] => c :: tl
    else if c == 0xE1 then
      match tl with
      | d :: e :: tl3 => if d == 0x9A && e == 0x80 then trimLeft tl3 else c :: tl
      | _ => c :: tl
    else if c == 0xE2 then
      match tl with
      | d :: e :: tl3 =>
        if (d == 0x80 && isE280Space e) || (d == 0x81 && e == 0x9F) then trimLeft tl3 else c :: tl
      | _ => c :: tl
    else if c == 0xE3 then
      match tl with
      | d :: e :: tl3 => if d == 0x80 && e == 0x80 then trimLeft tl3 else c :: tl
      | _ => c :: tl
    else c :: tl

/-- `bytes.TrimRightFunc(b, unicode.IsSpace)` on the REVERSED byte string: `utf8.DecodeLastRune` answers a white-space
    rune exactly when the bytes end in its encoding (the continuation bytes are no rune starts, the lead byte is, and
    the decoded width reaches the end), so the reversed string starts with the reversed encoding. -/
def trimLeftRev : Bytes → Bytes
  | [] => []
  | c :: tl =>
    if isAsciiSpace c then trimLeftRev tl
    else
      match tl with
      | d :: tl2 =>
        if d == 0xC2 && (c == 0x85 || c == 0xA0) then trimLeftRev tl2
        else
          match tl2 with
          | e :: tl3 =>
            if (e == 0xE1 && d == 0x9A && c == 0x80) || (e == 0xE2 && d == 0x80 && isE280Space c) ||
               (e == 0xE2 && d == 0x81 && c == 0x9F) || (e == 0xE3 && d == 0x80 && c == 0x80) then trimLeftRev tl3
            else c :: tl
          | [] => c :: tl
      | [] => c :: tl

def trimRight (b : Bytes) : Bytes := (trimLeftRev b.reverse).reverse

/-- `bytes.TrimSpace`: the ASCII fast path and the `TrimFunc(…, unicode.IsSpace)` fallback together trim every
    white-space rune from the left, then from the right of what is left. -/
def trimSpace (b : Bytes) : Bytes := trimRight (trimLeft b)

/-! ### mergeMultiline -/

/-- the `for len(remaining) != 0` loop of `mergeMultiline`; `cur` = the bytes of the current physical line read so
    far, newest first.  At a `\n`: `section` = the line without the `\r` that may precede the `\n`;
    `if len(section) != 0 { Write(TrimSpace(section)); if len(remaining) != 0 { WriteRune(' ') } }`.
    At the end (no `\n` left): `Write(TrimSpace(remaining))`. -/
def unfoldGo : Bytes → Bytes → Bytes
  | [], cur => trimSpace cur.reverse
  | c :: tl, cur =>
    if c == 10 then
      let sect := (match cur with
        | c0 :: cur' => if c0 == 13 then cur' else cur
        | [] => []).reverse
      (if sect.isEmpty then [] else trimSpace sect ++ (if tl.isEmpty then [] else [32])) ++ unfoldGo tl []
    else unfoldGo tl (c :: cur)

/-- `mergeMultiline(value)`: the value of a header field as `Header.Get` / `Header.Entries` answer it -/
def unfold (v : Bytes) : Bytes := unfoldGo v []

/-! ### NewHeader + Entries: the header of a literal as `Model/Search.lean` takes it -/

/-- `rfc822.NewHeader(h)` followed by `Entries`: the keyed entries in order, name as written, merged value;
    `none` = NewHeader returned an error -/
def headerOf (h : Bytes) : Option (List (Bytes × Bytes)) :=
  match Rfc822.parseEntries h with
  | .error _ => none
  | .ok es => some ((es.filter Rfc822.Entry.hasKey).map fun e => (e.key h, unfold (e.value h)))

/-- `buildSearchData`: `headerBytes, _ := rfc822.Split(data.literal); rfc822.NewHeader(headerBytes)` -/
def hdrOfLiteral (text : Bytes) : Option (List (Bytes × Bytes)) := headerOf (Rfc822.split text).1

/-- message data whose header is the one of its stored literal (what `buildSearchData` computes) -/
def MsgData.ofLiteral (d : MsgData) : MsgData := { d with hdr := hdrOfLiteral d.text }

/-- a header given as fields with RAW values (as they stand in the header block, folds included) -/
def unfoldFields (fs : List (Bytes × Bytes)) : List (Bytes × Bytes) := fs.map fun f => (f.1, unfold f.2)

end Search
end Gluon
