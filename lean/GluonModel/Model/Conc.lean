/-
M-CONC: transition systems for the concurrency-relevant logic of gluon (C19).  Core Lean only.

1. `Conc.Q*`   async.QueuedChannel (/repo/async/queued_channel.go), interleaving semantics at the
               granularity of its atomic actions (atomic loads/stores, critical sections of cond.L,
               channel operations).
2. `Conc.L*`   generic Mutex / RWMutex semantics over an unbounded set of threads, with accesses that
               have a duration (begin/end), for the lock-order and lockset theorems.
3. `Conc.T*`   the teardown protocol of internal/backend (user.close / removeState / statesWG,
               Backend.RemoveUser / Close holding usersLock, session.done).

What is *not* here (by nature): the Go scheduler, memory model, data races on fields that are not
guarded by a lock.  See Theorems/C19.lean for what is proved and DESIGN.md section 11.
-/

namespace Gluon.Conc

/-! ## 1. QueuedChannel

```go
type QueuedChannel[T] struct { ch chan T; stopCh chan struct{}; items []T; cond *sync.Cond; closed atomicBool; wg }
consumer goroutine:  defer close(ch); defer wg.Done()
                     for { item, ok := pop(); if !ok {return}; select { case ch <- item: ; case <-stopCh: return } }
pop():      lock; for len(items)==0 { if closed.load() {return _, false}; cond.Wait() }; item, items = items[0], items[1:]; unlock
Enqueue(b): if closed.load() {return false}; lock; items = append(items, b...); Broadcast; unlock; return true
Close():    closed.store(true); lock; Broadcast; unlock
CloseAndDiscardQueued(): close(stopCh); Close()
```
-/

/-- where the consumer goroutine is -/
inductive Consumer (α : Type) where
  | atPop                 -- about to run `pop()`'s loop test under the lock (also: just woken up)
  | sleeping              -- inside `cond.Wait()`: needs a Broadcast
  | holding (x : α)       -- at the `select`, holding the popped item
  | exited                -- returned: `ch` is closed, `wg.Done()` ran
deriving DecidableEq, Repr

structure QState (α : Type) where
  cap : Nat                      -- chanBufferSize of the constructor
  items : List α := []           -- q.items
  buf : List α := []             -- buffer of q.ch, head = next to be received
  closed : Bool := false         -- q.closed
  stopped : Bool := false        -- stopCh closed
  consumer : Consumer α := .atPop
  pendingEnq : List (List α) := []   -- Enqueue calls that saw closed == false and have not appended yet
  pendingBcast : Nat := 0            -- Close calls that stored closed = true and have not broadcast yet
  panicked : Bool := false           -- close of closed channel (second CloseAndDiscardQueued)
  -- ghost history
  accepted : List α := []        -- everything appended to q.items so far, in append order
  received : List α := []        -- everything a reader got from q.ch so far
  dropped : List α := []         -- the item the consumer held when it took the stopCh branch
deriving Repr

/-- atomic actions; an action that is not enabled leaves the state unchanged (the thread is blocked
    or the action is a no-op) -/
inductive QStep (α : Type) where
  | enqCheck (batch : List α)   -- Enqueue: `if q.closed.load() { return false }`
  | enqAppend (i : Nat)         -- the i-th pending Enqueue gets the lock: append, Broadcast
  | closeStore                  -- Close: `q.closed.store(true)`
  | closeBcast                  -- Close: lock, Broadcast, unlock
  | stop                        -- CloseAndDiscardQueued: `close(q.stopCh)` (its `q.Close()` = closeStore, closeBcast)
  | consume                     -- consumer: one move of pop() / the `ch <- item` branch of the select
  | consumeStop                 -- consumer: the `<-stopCh` branch of the select
  | recv                        -- a reader receives from GetChannel()
deriving Repr

namespace QState
variable {α : Type}

def init (cap : Nat) : QState α := { cap }

/-- Broadcast: a sleeping consumer becomes runnable and will re-test the loop condition -/
def wake (c : Consumer α) : Consumer α :=
  match c with
  | .sleeping => .atPop
  | c => c

def held (s : QState α) : List α :=
  match s.consumer with
  | .holding x => [x]
  | _ => []

def step (s : QState α) : QStep α → QState α
  | .enqCheck b => if s.closed then s else { s with pendingEnq := s.pendingEnq ++ [b] }
  | .enqAppend i =>
    match s.pendingEnq[i]? with
    | none => s
    | some b =>
      { s with
        pendingEnq := s.pendingEnq.eraseIdx i
        items := s.items ++ b
        accepted := s.accepted ++ b
        consumer := wake s.consumer }
  | .closeStore => { s with closed := true, pendingBcast := s.pendingBcast + 1 }
  | .closeBcast =>
    if s.pendingBcast = 0 then s
    else { s with pendingBcast := s.pendingBcast - 1, consumer := wake s.consumer }
  | .stop => if s.stopped then { s with panicked := true } else { s with stopped := true }
  | .consume =>
    match s.consumer with
    | .atPop =>
      match s.items with
      | [] => if s.closed then { s with consumer := .exited } else { s with consumer := .sleeping }
      | x :: rest => { s with items := rest, consumer := .holding x }
    | .holding x =>
      if s.buf.length < s.cap then { s with buf := s.buf ++ [x], consumer := .atPop } else s
    | .sleeping => s
    | .exited => s
  | .consumeStop =>
    match s.consumer with
    | .holding x => if s.stopped then { s with consumer := .exited, dropped := [x] } else s
    | _ => s
  | .recv =>
    match s.buf with
    | y :: rest => { s with buf := rest, received := s.received ++ [y] }
    | [] =>
      match s.consumer with
      | .holding x => { s with consumer := .atPop, received := s.received ++ [x] }  -- direct hand-off
      | _ => s   -- reader blocked, or (consumer exited) reads "closed"

def run (s : QState α) (steps : List (QStep α)) : QState α := steps.foldl step s

/-- items that are in the machinery and not yet with the reader -/
def load (s : QState α) : Nat := s.buf.length + s.held.length + s.items.length

/-- the consumer goroutine can move (by `consume` or `consumeStop`) -/
def consumerEnabled (s : QState α) : Bool :=
  match s.consumer with
  | .atPop => true
  | .holding _ => decide (s.buf.length < s.cap) || s.stopped
  | .sleeping => false
  | .exited => false

end QState

/-- steps of everybody except a reader and except `close(stopCh)` -/
def QStep.noReaderNoStop {α : Type} : QStep α → Bool
  | .recv => false
  | .stop => false
  | _ => true

/-- steps of the consumer goroutine -/
def QStep.isConsumer {α : Type} : QStep α → Bool
  | .consume => true
  | .consumeStop => true
  | _ => false

/-- steps of the consumer goroutine and of a reader -/
def QStep.isConsumerOrRecv {α : Type} : QStep α → Bool
  | .consume => true
  | .consumeStop => true
  | .recv => true
  | _ => false

/-! ## 2. Locks

Threads are natural numbers (any number of them).  A thread holds a multiset of `(lock, mode)`,
may be waiting for one lock, and may be inside an access to a field.  sync.Mutex = always mode `w`.
Go's locks are not re-entrant and a waiting writer blocks new readers; the deadlock notion below is
therefore generous: a waiting thread counts as blocked as soon as *anybody* holds the lock it wants. -/

inductive Mode where
  | r | w
deriving DecidableEq, Repr

inductive AKind where
  | read | write
deriving DecidableEq, Repr

structure Thread where
  held : List (Nat × Mode) := []
  want : Option (Nat × Mode) := none
  acc : Option (Nat × AKind) := none     -- field being accessed
deriving Repr

abbrev LSys := Nat → Thread

def LSys.init : LSys := fun _ => {}

def LSys.set (s : LSys) (t : Nat) (th : Thread) : LSys := fun u => if u = t then th else s u

def holdsLock (th : Thread) (l : Nat) : Prop := ∃ m, (l, m) ∈ th.held

/-- the lock semantics: when may thread `t` be granted `(l, m)` -/
def grantable (s : LSys) (t l : Nat) (m : Mode) : Prop :=
  match m with
  | .w => ∀ u, u ≠ t → ¬ holdsLock (s u) l
  | .r => ∀ u, u ≠ t → (l, Mode.w) ∉ (s u).held

/-- A discipline: which lock (if any) guards a field -/
abbrev Guard := Nat → Option Nat

/-- does holding `held` entitle to an access of kind `k` to a field guarded by `g`? -/
def entitled (held : List (Nat × Mode)) (g : Option Nat) (k : AKind) : Prop :=
  match g, k with
  | none, _ => True
  | some l, .write => (l, Mode.w) ∈ held
  | some l, .read => ∃ m, (l, m) ∈ held

inductive LStep (lt : Nat → Nat → Prop) (g : Guard) : LSys → LSys → Prop where
  /-- `t` calls Lock/RLock on `l`; the program respects the order `lt`: everything it holds is below `l` -/
  | request (s : LSys) (t l : Nat) (m : Mode) :
      (s t).want = none → (∀ h ∈ (s t).held, lt h.1 l) →
      LStep lt g s (s.set t { s t with want := some (l, m) })
  | grant (s : LSys) (t l : Nat) (m : Mode) :
      (s t).want = some (l, m) → grantable s t l m →
      LStep lt g s (s.set t { s t with want := none, held := (l, m) :: (s t).held })
  /-- Unlock/RUnlock; not while inside an access that the lock entitles to -/
  | release (s : LSys) (t l : Nat) (m : Mode) :
      (l, m) ∈ (s t).held →
      (∀ f k, (s t).acc = some (f, k) → entitled ((s t).held.erase (l, m)) (g f) k) →
      LStep lt g s (s.set t { s t with held := (s t).held.erase (l, m) })
  /-- begin of a read/write of field `f`: the discipline demands the guard -/
  | beginAcc (s : LSys) (t f : Nat) (k : AKind) :
      (s t).acc = none → entitled (s t).held (g f) k →
      LStep lt g s (s.set t { s t with acc := some (f, k) })
  | endAcc (s : LSys) (t : Nat) :
      LStep lt g s (s.set t { s t with acc := none })

inductive LReach (lt : Nat → Nat → Prop) (g : Guard) : LSys → Prop where
  | init : LReach lt g LSys.init
  | step {s s'} : LReach lt g s → LStep lt g s s' → LReach lt g s'

/-- a lock-only deadlock: a non-empty finite set of threads, each waiting for a lock that a member
    of the set holds (in any mode, possibly itself) -/
def Deadlocked (s : LSys) : Prop :=
  ∃ D : List Nat, D ≠ [] ∧
    ∀ t ∈ D, ∃ l m, (s t).want = some (l, m) ∧ ∃ u ∈ D, holdsLock (s u) l

/-- two different threads are inside accesses to field `f` at the same time, one of them writing -/
def ConflictOn (s : LSys) (f : Nat) : Prop :=
  ∃ t u k k', t ≠ u ∧ (s t).acc = some (f, k) ∧ (s u).acc = some (f, k') ∧ (k = .write ∨ k' = .write)

/-! ## 3. Teardown protocol (internal/backend)

```go
Backend.RemoveUser / Close:  usersLock.Lock(); defer Unlock(); user.close(ctx); delete(users, id)
user.close:  close(updateQuitCh); updateWG.Wait(); updateInjector.Close(); connector.Close()   // errors: return
             closeStates()            // statesLock.RLock: for every state in user.states: close(state.doneCh)
             statesWG.Wait()
             store.Close(); db.Close()
Backend.GetState (LOGIN):  usersLock.Lock(); ...; user.newState(): statesLock.Lock; states[id] = st; statesWG.Add(1)
session.serve: select { ... case <-state.Done(): return ... };  defer session.done(ctx)
session.done -> state.ReleaseState(ctx) -> user.removeState(ctx, st):
    ids, err := db.Read(ctx, ...); if err != nil { log; ids = nil }      // (630a898; before: `return err`, i.e. no statesWG.Done())
    statesLock.Lock; delete(states, st.StateID); Unlock
    defer statesWG.Done()
    if err := db.Write(...); err != nil { _ = st.Close(); return err }    // (0873710; before: returned without st.Close())
    store.Delete(...); return st.Close()                                  // closes the state's update queue
```
One user, `n` sessions.  Each critical section of statesLock is one atomic step. -/

inductive Sess where
  | preauth         -- connected, no state
  | running         -- logged in: its state is in user.states
  | relRead         -- in removeState, before the DB read
  | relLock         -- read done, about to take statesLock and delete itself from the map
  | relWrite        -- deleted from the map; `defer statesWG.Done()` armed; DB write / store delete / state.Close
  | gone
deriving DecidableEq, Repr

inductive Closer where
  | idle            -- RemoveUser/Close not called
  | locked          -- holds usersLock, about to close(updateQuitCh)
  | waitUpdater     -- updateWG.Wait()
  | closeConn       -- updateInjector.Close(), connector.Close()
  | signal          -- closeStates()
  | waitStates      -- statesWG.Wait()
  | closeStore
  | closeDB
  | returned (ok : Bool)   -- usersLock released
deriving DecidableEq, Repr

structure TState where
  sess : List Sess
  signalled : List Bool        -- per session: its state's doneCh is closed
  closer : Closer := .idle
  usersLock : Bool := false    -- held by the closer (logins hold it only within one atomic step)
  updaterRunning : Bool := true
  quit : Bool := false         -- updateQuitCh closed
  wg : Nat := 0                -- statesWG counter
  -- ghost counters
  logins : Nat := 0            -- states created (statesWG.Add)
  dones : Nat := 0             -- statesWG.Done() calls
  statesClosed : Nat := 0      -- State.Close calls (each ends the state's update-queue goroutine, state_close_consumer_exits)
  dbOpen : Bool := true
  storeOpen : Bool := true
  useAfterClose : Bool := false  -- a session touched the DB/store after user.close closed it
  -- environment switches (the named assumptions of `teardown_completes`)
  observes : Bool              -- every session loop observes Done (select case `<-state.Done()`)
  readFails : Bool             -- the DB read at the top of removeState can fail (e.g. cancelled context)
  writeFails : Bool            -- the DB write in removeState can fail (e.g. cancelled context)
  connCloseFails : Bool        -- updateInjector.Close / connector.Close can return an error
deriving Repr

inductive TStep where
  | login (i : Nat)          -- Backend.GetState: needs usersLock
  | leave (i : Nat)          -- the session ends by itself (LOGOUT, disconnect, error, cancelled context)
  | observeDone (i : Nat)    -- the session loop takes `case <-s.state.Done()`
  | readOk (i : Nat)
  | readFail (i : Nat)
  | lockDelete (i : Nat)
  | finishRel (i : Nat)         -- DB write, store delete, state.Close, deferred statesWG.Done()
  | finishFail (i : Nat)        -- DB write fails: state.Close, return err, deferred statesWG.Done()
  | beginClose               -- RemoveUser/Close: usersLock.Lock()
  | closeQuit                -- close(updateQuitCh)
  | updaterExit              -- the update goroutine takes `case <-user.updateQuitCh`
  | updaterWaited            -- updateWG.Wait() returns
  | connOk
  | connFail
  | signalAll                -- closeStates
  | waitDone                 -- statesWG.Wait() returns
  | storeClosed
  | dbClosed
deriving DecidableEq, Repr

namespace TState

def init (n : Nat) (observes readFails writeFails connCloseFails : Bool) : TState :=
  { sess := List.replicate n .preauth, signalled := List.replicate n false,
    observes, readFails, writeFails, connCloseFails }

def sessAt (s : TState) (i : Nat) : Sess := s.sess.getD i .gone

def setSess (s : TState) (i : Nat) (x : Sess) : TState := { s with sess := s.sess.set i x }

/-- a state is in the map `user.states` -/
def inMap : Sess → Bool
  | .running => true
  | .relRead => true
  | .relLock => true
  | _ => false

/-- a session that owes a `statesWG.Done()` -/
def owes : Sess → Bool
  | .running => true
  | .relRead => true
  | .relLock => true
  | .relWrite => true
  | _ => false

def enabled (s : TState) : TStep → Bool
  | .login i => s.sessAt i == .preauth && !s.usersLock && s.closer != .returned true   -- user deleted from b.users
  | .leave i => s.sessAt i == .preauth || s.sessAt i == .running
  | .observeDone i => s.sessAt i == .running && s.signalled.getD i false && s.observes
  | .readOk i => s.sessAt i == .relRead
  | .readFail i => s.sessAt i == .relRead && s.readFails
  | .lockDelete i => s.sessAt i == .relLock
  | .finishRel i => s.sessAt i == .relWrite
  | .finishFail i => s.sessAt i == .relWrite && s.writeFails
  | .beginClose => s.closer == .idle && !s.usersLock
  | .closeQuit => s.closer == .locked
  | .updaterExit => s.updaterRunning && s.quit
  | .updaterWaited => s.closer == .waitUpdater && !s.updaterRunning
  | .connOk => s.closer == .closeConn
  | .connFail => s.closer == .closeConn && s.connCloseFails
  | .signalAll => s.closer == .signal
  | .waitDone => s.closer == .waitStates && s.wg == 0
  | .storeClosed => s.closer == .closeStore
  | .dbClosed => s.closer == .closeDB

def apply (s : TState) : TStep → TState
  | .login i => { s.setSess i .running with wg := s.wg + 1, logins := s.logins + 1 }
  | .leave i => if s.sessAt i == .preauth then s.setSess i .gone else s.setSess i .relRead
  | .observeDone i => s.setSess i .relRead
  | .readOk i => { s.setSess i .relLock with useAfterClose := s.useAfterClose || !s.dbOpen }
  | .readFail i =>   -- logged, messageIDs = nil, carries on
    { s.setSess i .relLock with useAfterClose := s.useAfterClose || !s.dbOpen }
  | .lockDelete i => s.setSess i .relWrite
  | .finishRel i =>
    let s' := s.setSess i .gone
    { s' with wg := s.wg - 1, dones := s.dones + 1, statesClosed := s.statesClosed + 1,
              useAfterClose := s.useAfterClose || !s.dbOpen || !s.storeOpen }
  | .finishFail i =>
    let s' := s.setSess i .gone
    { s' with wg := s.wg - 1, dones := s.dones + 1, statesClosed := s.statesClosed + 1,
              useAfterClose := s.useAfterClose || !s.dbOpen }
  | .beginClose => { s with closer := .locked, usersLock := true }
  | .closeQuit => { s with closer := .waitUpdater, quit := true }
  | .updaterExit => { s with updaterRunning := false }
  | .updaterWaited => { s with closer := .closeConn }
  | .connOk => { s with closer := .signal }
  | .connFail => { s with closer := .returned false, usersLock := false }
  | .signalAll =>
    { s with
      closer := .waitStates
      signalled := (List.range s.sess.length).map fun i => s.signalled.getD i false || inMap (s.sessAt i) }
  | .waitDone => { s with closer := .closeStore }
  | .storeClosed => { s with closer := .closeDB, storeOpen := false }
  | .dbClosed => { s with closer := .returned true, dbOpen := false, usersLock := false }

/-- a disabled step does nothing -/
def step (s : TState) (st : TStep) : TState := if s.enabled st then s.apply st else s

def run (s : TState) (steps : List TStep) : TState := steps.foldl step s

/-- all steps that exist for `n` sessions -/
def allSteps (n : Nat) : List TStep :=
  ((List.range n).flatMap fun i =>
    [.login i, .leave i, .observeDone i, .readOk i, .readFail i, .lockDelete i, .finishRel i, .finishFail i]) ++
  [.beginClose, .closeQuit, .updaterExit, .updaterWaited, .connOk, .connFail, .signalAll, .waitDone,
   .storeClosed, .dbClosed]

end TState

/-- Steps that *will* happen once enabled (goroutines that are runnable get scheduled; a session
    loop whose `Done` is closed takes that case — that one only if `observes`).  The others are
    choices of the environment (a client may log in or leave, or not) or failure outcomes. -/
def TStep.must : TStep → Bool
  | .login _ => false
  | .leave _ => false
  | .readFail _ => false
  | .finishFail _ => false
  | .connFail => false
  | _ => true

/-- every maximal run from `s` reaches `closer = returned _` after finitely many steps and is never
    stuck before: as long as the closer has not returned some `must` step is enabled, and whichever
    enabled step (must or may) is taken the same holds again. -/
inductive Completes : TState → Prop where
  | done {s : TState} {ok : Bool} : s.closer = .returned ok → Completes s
  | step {s : TState} : (∃ st, st.must = true ∧ s.enabled st = true) →
      (∀ st, s.enabled st = true → Completes (s.apply st)) → Completes s

end Gluon.Conc
