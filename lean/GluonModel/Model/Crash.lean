/-
M-CRASH (property C07): durable state, storage steps, process death, failing steps, start-up recovery.

Durable state  = relational database (atomic transactions: a transaction's statements take effect at
                 `commit`, all together, or never) + message store (cache file per message id:
                 absent | partial | complete).
The IMAP-visible part of the database (mailboxes, UIDVALIDITY, UIDs, flags, subscriptions) is kept
ABSTRACT: it is the log of the committed visible write statements (`DB.log`). The real view is a
function of that log (statements are deterministic, SQLite applies a transaction atomically - both
trusted), so equal logs mean equal views. What the model keeps concretely is what the store
discipline needs: the message rows (id, marked-for-deletion, can it be re-downloaded, which literal).

Steps are what the interposers of harness/interpose.go record on the real server:
  rd.begin / rd.<M>           db.Client.Read entered / a db.ReadOnly call
  tx.begin / tx.<M> / tx.commit   db.Client.Write entered / a db.Transaction call / callback returned nil
  store.Get / store.Set / store.Delete / store.List
`store.Set` is split into three micro-steps, because the real `onDiskStore.Set` writes the file
piecewise (header, nonce, then encrypted blocks) and a process can die in between:
  setOpen  : file holds header+nonce only  -> partial
  setMid   : some blocks written           -> partial
  setEnd   : complete
`store.Get` of a partial file FAILS in both cases (since /repo ad3c4e0 the LZ4 reader's io.EOF on a
file cut right after the nonce is reported instead of being swallowed - DESIGN #23, repaired), so
`State.getLiteral` falls back to the connector.
Core Lean only.
-/
namespace Gluon.Crash

/-- canonical message ids of a trace: `old k` had a row when the operation started, `new k` did not -/
inductive MsgId where
  | old (k : Nat)
  | new (k : Nat)
deriving DecidableEq, Repr, BEq

instance : LawfulBEq MsgId where
  rfl := by intro a; cases a <;> simp [BEq.beq, instBEqMsgId.beq]
  eq_of_beq := by
    intro a b h
    cases a <;> cases b <;> simp_all [BEq.beq, instBEqMsgId.beq]

def MsgId.show : MsgId → String
  | .old k => s!"o{k}"
  | .new k => s!"n{k}"

/-- identity of a literal (byte string) -/
abbrev Lit := Nat

/-- the literal the model gives to message `id` in the step lists -/
def litOf : MsgId → Lit
  | .old k => 1000 + k
  | .new k => k

inductive File where
  | partialF                   -- truncated: `store.Get` returns an error
  | complete (lit : Lit)
deriving DecidableEq, Repr

/-- absent = `none` -/
abbrev Store := MsgId → Option File

def Store.put (st : Store) (id : MsgId) (f : File) : Store := fun x => if x = id then some f else st x
def Store.remove (st : Store) (id : MsgId) : Store := fun x => if x = id then none else st x

/-- `onDiskStore.Delete(ids...)` / `WriteControlledStore.Delete`: `os.Remove` one after the other,
    the first failure (file absent) aborts and leaves the rest. Returns (store, failed) -/
def Store.del : Store → List MsgId → Store × Bool
  | st, [] => (st, false)
  | st, id :: r =>
    match st id with
    | none => (st, true)
    | some _ => Store.del (st.remove id) r

structure Row where
  id : MsgId
  marked : Bool := false      -- `deleted` column of the messages table (marked for deletion)
  remote : Bool := true       -- has a remote id the connector can serve (false: recovered messages)
  lit : Lit                   -- the literal that was acknowledged for this row (ghost)
deriving DecidableEq, Repr

/-- effect of a write statement on the message rows -/
inductive RowEff where
  | none
  | insert (ids : List MsgId) (remote : Bool)   -- CreateMessages / CreateMessageAndAddToMailbox
  | mark (ids : List MsgId)                     -- MarkMessageAsDeleted*
  | delete (ids : List MsgId)                   -- DeleteMessages
deriving DecidableEq, Repr

inductive Kind where
  | read      -- no effect
  | recent    -- writes \Recent bookkeeping only (not part of the acknowledged state)
  | write     -- changes the acknowledged state: logged
deriving DecidableEq, Repr

structure Stmt where
  name : String
  kind : Kind
  eff : RowEff := .none
deriving DecidableEq, Repr

structure DB where
  log : List String := []
  rows : List Row := []
deriving DecidableEq, Repr

def DB.hasRow (db : DB) (id : MsgId) : Bool := db.rows.any (fun r => r.id == id)

def DB.apply (db : DB) (s : Stmt) : DB :=
  let log := if s.kind = .write then db.log ++ [s.name] else db.log
  let rows := match s.eff with
    | .none => db.rows
    | .insert ids remote => db.rows ++ ids.map (fun id => { id := id, remote := remote, lit := litOf id })
    | .mark ids => db.rows.map (fun r => if ids.contains r.id then { r with marked := true } else r)
    | .delete ids => db.rows.filter (fun r => !ids.contains r.id)
  { log := log, rows := rows }

def DB.applyAll (db : DB) (l : List Stmt) : DB := l.foldl DB.apply db

inductive Step where
  | rdBegin
  | rd (name : String)
  | txBegin
  | stmt (s : Stmt)
  | commit
  | get (id : MsgId)
  | setOpen (id : MsgId)
  | setMid (id : MsgId)
  | setEnd (id : MsgId) (lit : Lit)
  | del (ids : List MsgId)
  | list
deriving DecidableEq, Repr

structure St where
  db : DB := {}
  store : Store := fun _ => none
  tx : Option (List Stmt) := none     -- the open transaction's statements (not yet durable)

/-- one storage step -/
def exec (s : St) : Step → St
  | .rdBegin | .rd _ | .get _ | .list => s
  | .txBegin => { s with tx := some [] }
  | .stmt q =>
    match s.tx with
    | some b => { s with tx := some (b ++ [q]) }
    | none => s
  | .commit =>
    match s.tx with
    | some b => { s with db := s.db.applyAll b, tx := none }
    | none => s
  | .setOpen id => { s with store := s.store.put id .partialF }
  | .setMid id => { s with store := s.store.put id .partialF }
  | .setEnd id l => { s with store := s.store.put id (.complete l) }
  | .del ids => { s with store := (s.store.del ids).1 }

def run (steps : List Step) (s : St) : St := steps.foldl exec s

/-- process death (and also: rollback of the open transaction after a failed step) -/
def crash (s : St) : St := { s with tx := none }

/-- the process dies after `i` steps of the operation -/
def crashAfter (i : Nat) (steps : List Step) (s : St) : St := crash (run (steps.take i) s)

/-- step `i` returns an error instead of being performed: the open transaction is rolled back
    (sqlite3 `wrapTx`), then the operation's error handler runs its own steps -/
def failAt (i : Nat) (steps handler : List Step) (s : St) : St := run handler (crash (run (steps.take i) s))

/-- ids of the rows marked for deletion (`GetMessageIDsMarkedAsDelete`) -/
def markedIds (db : DB) : List MsgId := (db.rows.filter (·.marked)).map (·.id)

/-- `DeleteMessages(ids)` of the marked rows (by id) -/
def DB.purge (db : DB) : DB := { db with rows := db.rows.filter (fun r => !(markedIds db).contains r.id) }

/-- start-up (internal/backend/user.go `newUser`):
    `deleteAllMessagesMarkedDeleted` : one transaction deletes the rows marked deleted, then
       `store.Delete(ids...)` (aborts at the first missing file; the error is only logged);
    `cleanupStaleStoreData` : `store.List`, `GetAllMessagesIDsAsMap`, delete every file without a row. -/
def recover (s0 : St) : St :=
  let db1 := s0.db.purge
  let store1 := (s0.store.del (markedIds s0.db)).1
  { db := db1, store := fun id => if db1.hasRow id then store1 id else none, tx := none }

/-- what `FETCH BODY[]` finds for a row (state.getLiteral): the cache file if `store.Get` succeeds,
    otherwise a re-download from the connector (not for recovered messages) -/
def fetchOk (st : Store) (r : Row) : Bool :=
  match st r.id with
  | some (.complete l) => l == r.lit
  | some .partialF => r.remote              -- Get fails: re-download
  | none => r.remote

def AllFetchable (s : St) : Prop := ∀ r ∈ s.db.rows, fetchOk s.store r = true

instance (s : St) : Decidable (AllFetchable s) := by unfold AllFetchable; infer_instance

/-- the row's COMPLETE cache file with the acknowledged literal is in the store: `FETCH BODY[]` needs nothing from
    the connector (which may not be able to serve the literal any more) -/
def cachedOk (st : Store) (r : Row) : Bool :=
  match st r.id with
  | some (.complete l) => l == r.lit
  | _ => false

def AllCached (s : St) : Prop := ∀ r ∈ s.db.rows, cachedOk s.store r = true

instance (s : St) : Decidable (AllCached s) := by unfold AllCached; infer_instance

/-- no cache file without a row, no row marked for deletion -/
def NoLeftovers (s : St) : Prop :=
  (∀ id, s.store id ≠ none → s.db.hasRow id = true) ∧ (∀ r ∈ s.db.rows, r.marked = false)

/-! ### visible transactions of a step list -/

def Stmt.visible (q : Stmt) : Bool := q.kind == .write

def visNames (b : List Stmt) : List String := (b.filter Stmt.visible).map (·.name)

/-- the visible statement names committed by the transactions of a step list, one chunk per
    transaction that commits at least one (argument: the transaction open at the start) -/
def chunks : List Step → Option (List Stmt) → List (List String)
  | [], _ => []
  | .txBegin :: r, _ => chunks r (some [])
  | .stmt q :: r, some b => chunks r (some (b ++ [q]))
  | .stmt _ :: r, none => chunks r none
  | .commit :: r, some b => if visNames b = [] then chunks r none else visNames b :: chunks r none
  | .commit :: r, none => chunks r none
  | .rdBegin :: r, t | .rd _ :: r, t | .get _ :: r, t | .list :: r, t => chunks r t
  | .setOpen _ :: r, t | .setMid _ :: r, t | .setEnd _ _ :: r, t | .del _ :: r, t => chunks r t

/-- STRUCTURAL FACT 1 (`crash_atomic`, `fail_atomic`): at most one transaction of the operation
    commits visible statements -/
def oneVisibleTx (steps : List Step) : Bool := (chunks steps none).length ≤ 1

/-! ### store discipline, checked on an abstraction of the state that needs no knowledge of the
    initial database: `old` ids are assumed to have a row unless this operation committed its
    deletion, `new` ids have none unless this operation committed its insertion. -/

structure Abs where
  redl : List MsgId := []                 -- ids whose rows (if any) are re-downloadable with literal `litOf id`
  newRows : List MsgId := []              -- new ids whose insertion was committed
  delOld : List MsgId := []               -- old ids whose deletion was committed
  files : List (MsgId × File) := []       -- files this operation has written completely / partially
  tx : Option (List Stmt) := none
deriving Repr

def Abs.mayHaveRow (a : Abs) : MsgId → Bool
  | .new k => a.newRows.contains (.new k)
  | .old k => !a.delOld.contains (.old k)

def lookupF : List (MsgId × File) → MsgId → Option File
  | [], _ => none
  | (k, f) :: r, id => if k = id then some f else lookupF r id

def Abs.file (a : Abs) (id : MsgId) : Option File := lookupF a.files id

def Abs.setFile (a : Abs) (id : MsgId) (f : File) : Abs := { a with files := (id, f) :: a.files }

def Abs.forget (a : Abs) (ids : List MsgId) : Abs :=
  { a with files := a.files.filter (fun p => !ids.contains p.1) }

def stmtInserts (q : Stmt) : List MsgId := match q.eff with | .insert ids _ => ids | _ => []
def stmtDeletes (q : Stmt) : List MsgId := match q.eff with | .delete ids => ids | _ => []

def isNew : MsgId → Bool | .new _ => true | .old _ => false

def Abs.commit (a : Abs) (b : List Stmt) : Abs :=
  let ins := b.flatMap stmtInserts
  let del := b.flatMap stmtDeletes
  { a with newRows := (a.newRows ++ ins.filter isNew).filter (fun id => !del.contains id),
           delOld := (a.delOld ++ del.filter (fun id => !isNew id)).filter (fun id => !ins.contains id),
           tx := none }

/-- STRUCTURAL FACT 2 (`listed_is_fetchable`): the step is allowed in abstract state `a`:
    * a cache file is only written for an id that has no committed row, or whose rows can be re-downloaded
      (then the complete file must hold that literal); it is only deleted for an id without a committed row,
    * a transaction that inserts a row commits only when the complete file with that literal is there,
    * a transaction does not insert and delete the same id, and inserts only fresh ids. -/
def Abs.ok (a : Abs) : Step → Bool
  | .setOpen id | .setMid id => !a.mayHaveRow id || a.redl.contains id
  | .setEnd id l => !a.mayHaveRow id || (a.redl.contains id && l == litOf id)
  | .del ids => ids.all (fun id => !a.mayHaveRow id)
  | .commit =>
    match a.tx with
    | some b =>
      let ins := b.flatMap stmtInserts
      let del := b.flatMap stmtDeletes
      ins.all (fun id => a.file id == some (.complete (litOf id)) && !a.mayHaveRow id && !del.contains id
                         && !a.redl.contains id)
    | none => true
  | _ => true

def Abs.exec (a : Abs) : Step → Abs
  | .rdBegin | .rd _ | .get _ | .list => a
  | .txBegin => { a with tx := some [] }
  | .stmt q => match a.tx with
    | some b => { a with tx := some (b ++ [q]) }
    | none => a
  | .commit => match a.tx with
    | some b => a.commit b
    | none => a
  | .setOpen id => a.setFile id .partialF
  | .setMid id => a.setFile id .partialF
  | .setEnd id l => a.setFile id (.complete l)
  | .del ids => a.forget ids

def disciplinedFrom : List Step → Abs → Bool
  | [], _ => true
  | st :: r, a => a.ok st && disciplinedFrom r (a.exec st)

/-- `redl`: the ids the operation may re-download (every row with such an id must be re-downloadable, see
    `Redl` in Lemmas/Crash.lean) -/
def disciplined (steps : List Step) (redl : List MsgId := []) : Bool := disciplinedFrom steps { redl := redl }

/-! ### statement table: which `db.Transaction` methods change the acknowledged state -/

/-- methods that only touch the `\Recent` bookkeeping -/
def recentMethods : List String := ["ClearRecentFlagInMailboxOnMessage", "ClearRecentFlagsInMailbox"]

/-- read-only methods (`db.ReadOnly`); the generated fact `Gluon.Facts.crashRoMethods` must equal this -/
def roMethods : List String := [
  "GetAllMailboxesAsRemoteIDs", "GetAllMailboxesNameAndRemoteID", "GetAllMailboxesWithAttr",
  "GetAllMessagesIDsAsMap", "GetConnectorSettings", "GetDeletedSubscriptionSet", "GetImportedMessageData",
  "GetMailboxAttributes", "GetMailboxByID", "GetMailboxByName", "GetMailboxByRemoteID", "GetMailboxCount",
  "GetMailboxFlags", "GetMailboxIDFromRemoteID", "GetMailboxMessageCount", "GetMailboxMessageCountAndUID",
  "GetMailboxMessageCountWithRemoteID", "GetMailboxMessageForNewSnapshot", "GetMailboxMessageIDPairs",
  "GetMailboxName", "GetMailboxNameWithRemoteID", "GetMailboxPermanentFlags", "GetMailboxRecentCount",
  "GetMailboxUID", "GetMessageDateAndSize", "GetMessageDeletedFlag", "GetMessageIDFromRemoteID",
  "GetMessageIDsMarkedAsDelete", "GetMessageMailboxIDs", "GetMessageNoEdges", "GetMessageRemoteID",
  "GetMessagesFlags", "GetTotalMessageCount", "MailboxExistsWithID", "MailboxExistsWithName",
  "MailboxExistsWithRemoteID", "MailboxFilterContains", "MailboxTranslateRemoteIDs", "MessageExists",
  "MessageExistsWithRemoteID"]

def kindOf (name : String) : Kind :=
  if roMethods.contains name then .read
  else if recentMethods.contains name then .recent
  else .write

/-- a statement by name; `ids` are the message ids the interposer records for it -/
def mkStmt (name : String) (ids : List MsgId := []) : Stmt :=
  let eff : RowEff :=
    if name == "CreateMessages" || name == "CreateMessageAndAddToMailbox" then .insert ids true
    else if name == "MarkMessageAsDeleted" || name == "MarkMessageAsDeletedAndAssignRandomRemoteID"
         || name == "MarkMessageAsDeletedWithRemoteID" then .mark ids
    else if name == "DeleteMessages" then .delete ids
    else .none
  { name := name, kind := kindOf name, eff := eff }

/-- names whose ids appear in the recorded trace (hand-written wrappers in interpose.go) -/
def idRecorded (name : String) : Bool :=
  ["CreateMessages", "CreateMessageAndAddToMailbox", "DeleteMessages", "MarkMessageAsDeleted",
   "MarkMessageAsDeletedAndAssignRandomRemoteID"].contains name

def stmtIds (q : Stmt) : List MsgId :=
  match q.eff with
  | .insert ids _ => ids
  | .mark ids => ids
  | .delete ids => ids
  | .none => []

def showIds (ids : List MsgId) : String := if ids.isEmpty then "-" else ",".intercalate (ids.map MsgId.show)

/-- trace tokens as the interposer prints them (`setOpen`/`setMid` are inside the one `store.Set` call) -/
def Step.token : Step → Option String
  | .rdBegin => some "rd.begin"
  | .rd n => some s!"rd.{n}"
  | .txBegin => some "tx.begin"
  | .stmt q => some (if idRecorded q.name then s!"tx.{q.name}:{showIds (stmtIds q)}" else s!"tx.{q.name}")
  | .commit => some "tx.commit"
  | .get id => some s!"store.Get:{id.show}"
  | .setOpen _ => none
  | .setMid _ => none
  | .setEnd id _ => some s!"store.Set:{id.show}"
  | .del ids => some s!"store.Delete:{showIds ids}"
  | .list => some "store.List"

def tokens (steps : List Step) : List String := steps.filterMap Step.token

/-! ### step lists of the operations, as the code performs them -/

def rdS (names : List String) : List Step := .rdBegin :: names.map .rd
def q (name : String) (ids : List MsgId := []) : Step := .stmt (mkStmt name ids)
def txS (body : List Step) : List Step := .txBegin :: body ++ [.commit]
def setS (id : MsgId) : List Step := [.setOpen id, .setMid id, .setEnd id (litOf id)]
def rep {α} (n : Nat) (l : List α) : List α := (List.replicate n l).flatten

/-- `State.flushResponses`: one transaction with the responders' database updates
    (own EXISTS: clear the \Recent flag of the message) -/
def flushTx (clearRecent : Nat := 0) : List Step :=
  txS (rep clearRecent [q "ClearRecentFlagInMailboxOnMessage"])

/-- second transaction of `stateDBWrite`: `QueueOrApplyStateUpdate` (no statement when not idling) -/
def updatesTx : List Step := txS []

/-- `State.ApplyUpdate` in the goroutine of the open session (selected on mb1): one transaction per queued
    state update that passes the update's filter (the responder is only queued: no statement) -/
def applyTx (n : Nat := 1) : List Step := rep n (txS [])

open MsgId in
/-- The storage steps of one IMAP command / connector update, from the first byte of the command to its
    tagged reply (session handler -> internal/state -> internal/backend). `inst` selects the scripted
    instance (harness/o_crash_env.go `runOp`). -/
def stepsOf : String → Nat → Option (List Step)
  -- session.handleAppend: AppendOnlyMailbox (Read GetMailboxByName), IsDrafts (Read GetMailboxAttributes);
  -- Mailbox.AppendRegular: Read count+uid, Read attributes, stateDBWrite{ actionCreateMessage:
  --   connector.CreateMessage, GetMessageIDFromRemoteID, store.SetUnchecked, CreateMessageAndAddToMailbox },
  --   updates tx; flush (selected mailbox: the own EXISTS clears \Recent)
  | "append", inst => some (
      rdS ["GetMailboxByName"] ++ rdS ["GetMailboxAttributes"] ++ rdS ["GetMailboxMessageCountAndUID"] ++
      rdS ["GetMailboxAttributes"] ++
      txS ([q "GetMessageIDFromRemoteID"] ++ setS (new 1) ++ [q "CreateMessageAndAddToMailbox" [new 1]]) ++
      updatesTx ++ (if inst = 0 then flushTx 1 else []))
  -- Selected (Read GetMailboxByID); Mailbox.Copy: Read GetMailboxByName, stateDBWrite{ actionAddMessagesToMailbox:
  --   MailboxFilterContains, connector.AddMessagesToMailbox, AddMessagesToMailbox(count+uid, add) }, updates tx, flush
  | "copy", _ => some (
      rdS ["GetMailboxByID"] ++ rdS ["GetMailboxByName"] ++
      txS [q "MailboxFilterContains", q "GetMailboxMessageCountAndUID", q "AddMessagesToMailbox"] ++
      updatesTx ++ flushTx)
  -- Mailbox.Move -> actionMoveMessages -> MoveMessagesFromMailbox (remove from source, add to destination); flush twice
  | "move", _ => some (
      rdS ["GetMailboxByID"] ++ rdS ["GetMailboxByName"] ++
      txS [q "MailboxFilterContains", q "MailboxFilterContains", q "GetMailboxMessageCountAndUID",
           q "RemoveMessagesFromMailbox", q "AddMessagesToMailbox"] ++
      updatesTx ++ flushTx ++ flushTx)
  -- Mailbox.Expunge -> actionRemoveMessagesFromMailbox: MailboxFilterContains, connector.Remove.., RemoveMessagesFromMailbox.
  -- The message rows and cache files stay (only the connector's MessageDeleted marks a row).
  | "expunge", _ => some (
      rdS ["GetMailboxByID"] ++
      txS [q "MailboxFilterContains", q "RemoveMessagesFromMailbox"] ++
      updatesTx ++ flushTx ++ flushTx)
  -- State.Create: one transaction: count, exists?, exists? per superior, CreateMailboxIfNotExists per created name
  | "create", inst =>
      let (nSup, nCreate) := if inst = 0 then (0, 1) else if inst = 1 then (2, 3) else (2, 1)
      some (txS ([q "GetMailboxCount"] ++ rep (1 + nSup) [q "MailboxExistsWithName"] ++ rep nCreate [q "CreateMailboxIfNotExists"]))
  -- State.Delete: GetMailboxByName, connector.DeleteMailbox, DeleteMailboxWithRemoteID; updates tx (MailboxDeleted)
  | "delete", _ => some (txS [q "GetMailboxByName", q "DeleteMailboxWithRemoteID"] ++ updatesTx)
  -- State.Rename: one transaction; inferiors renamed one by one; INBOX: create + move everything
  | "rename", inst =>
      if inst = 0 then some (txS [q "GetMailboxByName", q "MailboxExistsWithName", q "RenameMailboxWithRemoteID", q "GetAllMailboxesWithAttr"])
      else if inst = 1 then some (txS [q "GetMailboxByName", q "MailboxExistsWithName", q "RenameMailboxWithRemoteID", q "GetAllMailboxesWithAttr",
                                   q "GetMailboxByName", q "RenameMailboxWithRemoteID"])
      -- (since gluon 67ed02b Rename reads the mailbox count before it creates anything)
      else some (txS [q "GetMailboxByName", q "MailboxExistsWithName", q "MailboxExistsWithName", q "GetMailboxCount",
                      q "CreateMailboxIfNotExists",
                      q "MailboxExistsWithRemoteID", q "CreateMailbox", q "GetMailboxMessageIDPairs",
                      q "MailboxFilterContains", q "MailboxFilterContains", q "GetMailboxMessageCountAndUID",
                      q "RemoveMessagesFromMailbox", q "AddMessagesToMailbox"] ++ updatesTx)
  -- Mailbox.Store -> applyMessageFlagsAdded / Set / Removed
  | "store", inst =>
      let body := if inst = 0 then [q "GetMessagesFlags", q "AddFlagToMessages"]
                  else if inst = 1 then [q "GetMessagesFlags", q "SetMailboxMessagesDeletedFlag", q "SetFlagsOnMessages"]
                  else [q "GetMessagesFlags", q "RemoveFlagFromMessages"]
      some (rdS ["GetMailboxByID"] ++ txS body ++ updatesTx ++ flushTx ++ flushTx)
  | "subscribe", _ => some (txS [q "GetMailboxByName", q "SetMailboxSubscribed"])
  -- user.applyMessagesCreated: one transaction; the literals are written to the store INSIDE it, before the rows
  | "ccreate", inst =>
      let nMb := if inst = 1 then 2 else 1
      some (txS ([q "GetMessageIDFromRemoteID"] ++ rep nMb [q "GetMailboxIDFromRemoteID"] ++ setS (new 1) ++
                 [q "CreateMessages" [new 1]] ++
                 rep nMb [q "MailboxFilterContains", q "GetMailboxMessageCountAndUID", q "AddMessagesToMailbox"]) ++
            (if inst = 2 then [] else applyTx))
  -- user.applyMessagesCreated naming messages the server ALREADY HAS (GetMessageIDFromRemoteID finds the row): nothing is
  -- stored or created for them, they are only added to the mailboxes that do not hold them yet.
  --   0: c1 (known) -> mb2        1: batch [c1 known, c2 new, c2 again, c1 again] -> mb1 (the repeated NEW message is
  --   resolved through `messagesToCreateFilter`, the repeated KNOWN one through the database again)
  --   2: c1 (known) -> INBOX, where it already is: a transaction without any write
  | "cknown", inst =>
      if inst = 0 then some (txS [q "GetMessageIDFromRemoteID", q "GetMailboxIDFromRemoteID", q "MailboxFilterContains",
                                  q "GetMailboxMessageCountAndUID", q "AddMessagesToMailbox"])
      else if inst = 1 then some (
        txS ([q "GetMessageIDFromRemoteID", q "GetMailboxIDFromRemoteID", q "GetMessageIDFromRemoteID", q "GetMessageIDFromRemoteID"] ++
             setS (new 1) ++ [q "CreateMessages" [new 1], q "MailboxFilterContains", q "GetMailboxMessageCountAndUID", q "AddMessagesToMailbox"]) ++
        applyTx)
      else some (txS [q "GetMessageIDFromRemoteID", q "GetMailboxIDFromRemoteID", q "MailboxFilterContains"])
  -- COPY / MOVE into a mailbox that already holds (one of) the message(s): actionAddMessagesToMailbox /
  -- actionMoveMessages first REMOVE the message from the destination and add it again (new UID) - one transaction
  | "dupcopy", inst =>
      if inst = 1 then some (
        rdS ["GetMailboxByID"] ++ rdS ["GetMailboxByName"] ++
        txS [q "MailboxFilterContains", q "MailboxFilterContains", q "RemoveMessagesFromMailbox", q "GetMailboxMessageCountAndUID",
             q "RemoveMessagesFromMailbox", q "AddMessagesToMailbox"] ++
        updatesTx ++ flushTx ++ flushTx)
      else some (
        rdS ["GetMailboxByID"] ++ rdS ["GetMailboxByName"] ++
        txS [q "MailboxFilterContains", q "RemoveMessagesFromMailbox", q "GetMailboxMessageCountAndUID", q "AddMessagesToMailbox"] ++
        updatesTx ++ flushTx)
  -- RENAME on non-empty hierarchies. 0 / 2: RENAME INBOX arch (INBOX holds messages; 2: and has an inferior with a
  -- message): destination created and ALL messages moved in the SAME transaction. 1: RENAME of the selected mailbox with
  -- messages and an inferior that holds a message: the inferiors are renamed one by one in the same transaction.
  | "rename2", inst =>
      if inst = 1 then some (txS [q "GetMailboxByName", q "MailboxExistsWithName", q "RenameMailboxWithRemoteID", q "GetAllMailboxesWithAttr",
                                  q "GetMailboxByName", q "RenameMailboxWithRemoteID"])
      else some (txS [q "GetMailboxByName", q "MailboxExistsWithName", q "GetMailboxCount", q "MailboxExistsWithRemoteID", q "CreateMailbox",
                      q "GetMailboxMessageIDPairs", q "MailboxFilterContains", q "MailboxFilterContains",
                      q "GetMailboxMessageCountAndUID", q "RemoveMessagesFromMailbox", q "AddMessagesToMailbox"] ++ updatesTx)
  -- DELETE of mailboxes that hold messages (leaf below a non-empty mailbox; the selected mailbox with an inferior; INBOX/kid)
  | "delete2", _ => some (txS [q "GetMailboxByName", q "DeleteMailboxWithRemoteID"] ++ updatesTx)
  -- user.applyMessageFlagsUpdated
  | "cflags", inst => some (
      rdS ["MessageExistsWithRemoteID"] ++
      txS [q "GetMessageIDFromRemoteID", q "GetMessagesFlags", q (if inst = 1 then "RemoveFlagFromMessages" else "AddFlagToMessages")])
  -- user.applyMessageMailboxesUpdated -> setMessageMailboxes, setMessageFlags
  | "cmailboxes", inst => some (
      rdS ["MessageExistsWithRemoteID"] ++
      txS ([q "GetMessageIDFromRemoteID", q "MailboxTranslateRemoteIDs", q "GetMessageMailboxIDs"] ++
           (if inst = 1 then [q "RemoveMessagesFromMailbox"] else [q "GetMailboxMessageCountAndUID", q "AddMessagesToMailbox"]) ++
           [q "GetMessagesFlags"]) ++ (if inst = 2 then applyTx else []))
  -- user.applyMessageDeleted: mark the row, remove it from every mailbox. Row and file stay until a
  -- session is released or the next start-up.
  | "cdeleted", inst => some (
      txS ([q "MarkMessageAsDeletedWithRemoteID" [old 1], q "GetMessageIDFromRemoteID", q "GetMessageMailboxIDs"] ++
           rep (if inst = 0 then 1 else 2) [q "RemoveMessagesFromMailbox"]) ++ (if inst = 0 then [] else applyTx))
  -- user.applyMessageUpdated with a changed literal: old row marked deleted, new row created, THEN the new
  -- literal is stored - all inside one transaction
  | "cupdated", inst => some (
      rdS ["GetMessageIDFromRemoteID"] ++
      txS ([.get (old 1), q "GetMessageMailboxIDs", q "RemoveMessagesFromMailbox",
            q "MarkMessageAsDeletedAndAssignRandomRemoteID" [old 1], q "CreateMessages" [new 1]] ++ setS (new 1) ++
           rep (if inst = 1 then 2 else 1) [q "GetMailboxIDFromRemoteID", q "GetMailboxMessageCountAndUID", q "AddMessagesToMailbox"]) ++
      (if inst = 1 then applyTx else []))
  -- user.removeState (session released): rows marked deleted are deleted in a transaction, then their files
  | "logout", inst =>
      let ids := if inst = 0 then [old 1] else [old 1, old 2]
      some (rdS ["GetMessageIDsMarkedAsDelete"] ++ txS [q "DeleteMessages" ids] ++ ids.map (fun id => .del [id]))
  -- State.getLiteral when the cache file is missing or truncated: store.Get fails, (not for recovered
  -- messages) connector.GetMessageLiteral, store.Set on the id of an EXISTING row; flush
  | "redownload", _ => some (
      rdS ["GetMailboxByID"] ++ rdS ["GetMessageNoEdges"] ++ [.get (old 1)] ++ setS (old 1) ++ flushTx)
  -- start-up of a user with one message marked deleted (internal/backend/user.go newUser: recovery mailbox,
  -- deleteAllMessagesMarkedDeleted, cleanupStaleStoreData - no store.Delete call when nothing is stale),
  -- Server.LoadUser (message counts of the 6 mailboxes), connector.Sync (INBOX exists; no messages)
  | "startup", _ => some (
      txS [q "GetOrCreateMailboxAlt", q "GetMailboxMessageIDPairs"] ++
      txS [q "GetMessageIDsMarkedAsDelete", q "DeleteMessages" [new 1]] ++ [.del [new 1]] ++
      [.list] ++ rdS ["GetAllMessagesIDsAsMap"] ++
      rdS ("GetAllMailboxesAsRemoteIDs" :: rep 6 ["GetMailboxMessageCountWithRemoteID"]) ++
      rdS ["MailboxExistsWithRemoteID"] ++ txS [])
  | _, _ => none

/-- the operations and instances the model covers (the fault enumeration and the trace tie use these) -/
def modelledOps : List String :=
  ["append", "copy", "move", "expunge", "create", "delete", "rename", "store", "subscribe",
   "ccreate", "cflags", "cmailboxes", "cdeleted", "cupdated", "logout", "redownload",
   "cknown", "dupcopy", "rename2", "delete2"]

/-- ids the operation re-downloads: `getLiteral` does this only for messages that are not recovered ones -/
def redlOf (op : String) : List MsgId := if op = "redownload" then [.old 1] else []

def modelled : List (String × Nat) := modelledOps.flatMap (fun o => [(o, 0), (o, 1), (o, 2)])

def stepsOf! (o : String × Nat) : List Step := (stepsOf o.1 o.2).getD []

/-! ### error handlers -/

open MsgId in
/-- `Mailbox.Append`: if `AppendRegular` fails the literal is inserted into the recovery mailbox
    (actionCreateRecoveredMessage: store.SetUnchecked, CreateMessageAndAddToMailbox, not re-downloadable) -/
def appendRecoveryHandler : List Step :=
  txS (setS (new 2) ++ [.stmt { name := "CreateMessageAndAddToMailbox", kind := .write, eff := .insert [new 2] false }]) ++ updatesTx

/-- index of the first step of `AppendRegular` in the APPEND step list (earlier failures just answer NO) -/
def appendRegularStart : Nat := 4

/-- index of the last step of `AppendRegular` (the commit of the second transaction of `stateDBWrite`); a failure of
    the flush that follows does not reach `Mailbox.Append`'s recovery branch -/
def appendRegularEnd : Nat := 16

/-- index (in `Step`s) of the first commit of a step list (its length if there is none) -/
def firstCommit (steps : List Step) : Nat := steps.findIdx (fun st => match st with | .commit => true | _ => false)

open MsgId in
/-- what the operation does after step `i` (index in `Step`s) of instance `inst` failed.
    `applyMessagesCreated`: "Clean up cache messages that were created if the transaction failed" - the clean-up ranges
    over `messagesToCreate`, the NEW messages of the update (a message is entered there when `GetMessageIDFromRemoteID`
    has answered not-found for it); messages of the update that the server already had are not touched. So the handler
    deletes the file of `new 1` when the failing step lies after the look-up of the new message and not after the commit of
    the update's transaction, and nothing otherwise. -/
def handlerOf (op : String) (inst i : Nat) : List Step :=
  if op = "append" then (if appendRegularStart ≤ i ∧ i ≤ appendRegularEnd then appendRecoveryHandler else [])
  else if op = "ccreate" then
    (if 2 ≤ i ∧ i ≤ firstCommit ((stepsOf op inst).getD []) then [.del [new 1]] else [])
  else if op = "cknown" ∧ inst = 1 then
    (if 4 ≤ i ∧ i ≤ firstCommit ((stepsOf op inst).getD []) then [.del [new 1]] else [])
  else []

/-- STRUCTURAL FACT 3 (`fail_listed_is_cached`): the error handler that runs after step `i` failed (the open transaction
    has been rolled back) keeps the store discipline, from the abstract state the first `i` steps lead to -/
def handlerOk (steps handler : List Step) (i : Nat) (redl : List MsgId := []) : Bool :=
  disciplinedFrom handler { (steps.take i).foldl Abs.exec { redl := redl } with tx := none }

end Gluon.Crash
