/-
M-ACT (message commands): gluon's action level on top of `Model/DB.lean`, statement by statement after

  internal/state/mailbox.go          Mailbox.AppendRegular, Copy, Move, Store, Expunge
  internal/state/actions.go          actionCreateMessage, actionAddMessagesToMailbox,
                                     actionRemoveMessagesFromMailbox(Unchecked), actionMoveMessages,
                                     actionAddMessageFlags / RemoveMessageFlags / SetMessageFlags
  internal/state/updates.go          applyMessageFlagsAdded / Removed / Set
  internal/state/updates_mailbox.go  AddMessagesToMailbox, MoveMessagesFromMailbox, RemoveMessagesFromMailbox
  internal/state/state.go            stateDBWrite / stateDBWriteResult, AppendOnlyMailbox, Selected
  internal/session/flags.go          validateStoreFlags (imap.NewFlagSetFromSlice)
  imap/flags.go                      FlagSet (lower-case key ↦ first spelling)

What is a parameter / abstract
* The connector always succeeds (its failures are C20/C07's topic), returns no state updates of its
  own, echoes the literal, and hands out the remote id `E.rid k` for its k-th new message
  (`State.nextRid`).  `imap.NewInternalMessageID()` (a random UUID) is the counter `State.nextId`.
* Message sets arrive resolved (C16) as the list of `(internal id, remote id)` pairs of the snapshot
  messages, in snapshot order and without repetition (fix 5288904: `snapshot.getMessagesInRange`
  de-duplicates; fix 071c9b5: `Mailbox.Copy` / `Mailbox.Move` sort the list by UID before they hand it on — the model
  takes the list as handed on, no theorem depends on its order); for EXPUNGE / UID EXPUNGE / CLOSE the list holds the messages the snapshot shows as
  `\Deleted` (`toExpunge`, `getAllMessagesIDsMarkedDelete`) — since gluon 9c5a27f without the entries whose removal is
  pending in the session (`State.pendingExpunges`: a `*expunge` responder in `state.res`; the filter itself is
  `Sel.notPending` in `Model/SelState.lean`, which hands the filtered list on to `Cmd.expunge`).  The selected mailbox is given by name
  and looked up when the command runs (the code keeps its internal id from SELECT; the set of
  mailboxes does not change inside a C03 history).
* A literal is its bytes plus what the code reads from it: the `X-Pm-Gluon-Id` header (`gid`) and
  whether `imap.NewParsedMessage` accepts it.  `rfc822.SetHeaderValueNoMemCopy` (the header line gluon
  inserts before storing) is not modelled: the store keeps the literal as given, C03 compares bytes
  modulo that line.
* `stateDBWrite`: the command's transaction, then — iff it returned updates — a second transaction
  that queues / applies them.  What the second one does to the index is a schedule input `Second`:
  it can only clear `\Recent` bits (`targetedExists.handle` → `ClearRecentFlagInMailboxOnMessage`) and
  it may fail (known finding K-append-committed-then-error).  A failing FIRST transaction restores the
  whole model state: the literal a failed APPEND leaves in the message store and the unused UUID are
  not kept (orphans are C09/C20's topic).
* `Mailbox.Append`'s fallback into the recovery mailbox after a failed `AppendRegular`, and COPY / MOVE
  / EXPUNGE *inside* the recovery mailbox, are C20's model (`Model/Append.lean`): here the selected
  mailbox being the recovery mailbox is answered `outOfScope`.
* The session layer's `validateStoreFlags` (a flag list naming `\Recent` is answered BAD before anything runs) is part
  of `step` (`Answer.bad`); the read-only check of EXAMINEd sessions is not: it is `Model/SelState.lean` (SELECT / EXAMINE /
  CLOSE, `state.ro`, the handlers' checks) on top of this file.
* Go map iteration order (`for _, flag := range remainingFlags`, `ToSliceUnsorted`) is the list order
  of the model's `FSet`; no result depends on it beyond the order of rows in `message_flags_v2`.
* The limit check of `AppendRegular` runs in its own read transaction before the write (C17
  `check-outside-tx`); here both run in one step.

Repairs of the message commands the model follows: 8be31cc, b3abd4e (index, via the call-site facts), 6649146, 12c5535,
5288904, 071c9b5, 45f4598 (index: `RemoveFlagFromMessages … COLLATE NOCASE`), 7feeba5, 971d4f3 (`actionMove`), 9c5a27f
(`Mailbox.Expunge`, in `Model/SelState.lean`).

Core Lean only.
-/
import GluonModel.Model.DB
import GluonModel.Model.Limits

namespace Gluon.Act
open Gluon.DB

/-! ### `imap.FlagSet` with spellings -/

/-- `strings.ToLower` on ASCII -/
def lower (s : String) : String := String.ofList (s.toList.map Char.toLower)

/-- `imap.FlagSet`: the spelled values; their lower-case keys are pairwise different -/
abbrev FSet := List String

namespace FSet
/-- `fs.ContainsUnchecked(key)` -/
def has (fs : FSet) (key : String) : Bool := fs.any fun f => lower f == key
/-- `fs.Contains(flag)` -/
def contains' (fs : FSet) (flag : String) : Bool := fs.has (lower flag)
/-- `fs.ContainsAnyUnchecked(keys...)` -/
def hasAny (fs : FSet) (keys : List String) : Bool := keys.any fs.has
/-- `fs.add(flag)`: the spelling already there is kept -/
def add1 (fs : FSet) (flag : String) : FSet := if fs.has (lower flag) then fs else fs ++ [flag]
/-- `fs.Add(flags...)` / `AddToSelf` -/
def add (fs : FSet) (flags : List String) : FSet := flags.foldl add1 fs
/-- `imap.NewFlagSet(flags...)` -/
def new (flags : List String) : FSet := add [] flags
/-- `fs.Remove(flag)` -/
def remove (fs : FSet) (flag : String) : FSet := fs.filter fun f => lower f != lower flag
end FSet

def keyRecent : String := "\\recent"
def keyDeleted : String := "\\deleted"
def keySeen : String := "\\seen"
def keyFlagged : String := "\\flagged"
def flagDeleted : String := "\\Deleted"
def flagRecent : String := "\\Recent"
def attrDrafts : String := "\\Drafts"
/-- `imap.ForwardFlagList` -/
def forwardFlagList : List String := ["$Forwarded", "Forwarded"]
/-- `imap.ForwardFlagListLowerCase` -/
def forwardKeys : List String := ["$forwarded", "forwarded"]

/-! ### state, errors, the transaction monad of the action level -/

abbrev Bytes := String

structure Lit where
  bytes : Bytes
  /-- `rfc822.GetHeaderValue(literal, "X-Pm-Gluon-Id")` parsed as an internal id (`none`: no such header) -/
  gid : Option MessageId := none
  /-- `imap.NewParsedMessage` accepts the literal -/
  parseOk : Bool := true
deriving DecidableEq, Repr

structure State where
  db : DB := {}
  /-- the message store: internal id ↦ literal -/
  store : List (MessageId × Bytes) := []
  /-- next `imap.NewInternalMessageID()` -/
  nextId : Nat := 0
  /-- number of messages the connector has created -/
  nextRid : Nat := 0
deriving DecidableEq, Repr

structure Env where
  sites : Sites
  lim : Limits.IMAP := Limits.defaultLimits
  /-- the remote id the connector gives its k-th new message -/
  rid : Nat → RemoteId
  /-- `state.user.GetRecoveryMailboxID().InternalID` -/
  recovery : MailboxId
  /-- `ids.GluonRecoveryMailboxName` -/
  recoveryName : String := "Recovered Messages"

inductive Err where
  | db (e : DbErr)
  | recentReadOnly          -- "the recent flag is read-only"
  | limit (e : Limits.Err)
  | noSuchMailbox           -- state.ErrNoSuchMailbox
  | notAllowed              -- state.ErrOperationNotAllowed
  | notSelected             -- state.ErrSessionNotSelected
  | parse                   -- imap.NewParsedMessage
  | draftsDup               -- "append to drafts returned an existing remote ID"
  | secondTx                -- the transaction that queues the state updates failed
deriving DecidableEq, Repr

/-- a `db.Transaction` closure of the action level: may fail with a non-database error, too -/
abbrev ATx (α : Type) := StateT State (Except Err) α

def fail {α : Type} (e : Err) : ATx α := fun _ => .error e

/-- a `db.Transaction` method -/
def liftTx {α : Type} (t : Tx α) : ATx α := fun s =>
  match t s.db with
  | .ok (a, db') => .ok (a, { s with db := db' })
  | .error e => .error (.db e)

/-- a `db.ReadOnly` method called on the transaction -/
def liftRead {α : Type} (f : DB → Except DbErr α) : ATx α := fun s =>
  match f s.db with
  | .ok a => .ok (a, s)
  | .error e => .error (.db e)

/-- what a command hands to `QueueOrApplyStateUpdate` (only "is there any" matters here) -/
inductive Upd where
  | exists (mb : MailboxId) (n : Nat)
  | expunge (mb : MailboxId) (m : MessageId)
  | flags (mb : MailboxId) (ms : List MessageId)
deriving DecidableEq, Repr

/-! ### internal/state/updates_mailbox.go -/

/-- `CheckMailBoxMessageCount(count, n)` then `CheckUIDCount(uid, n)` -/
def limitErr (E : Env) (cu : Nat × Nat) (n : Nat) : Option Limits.Err :=
  match Limits.checkMailBoxMessageCount E.lim cu.1 n with
  | some e => some e
  | none => Limits.checkUIDCount E.lim cu.2 n

/-- `GetMailboxMessageCountAndUID` + `CheckMailBoxMessageCount` + `CheckUIDCount` -/
def checkAdd (E : Env) (mb : MailboxId) (n : Nat) : ATx Unit := do
  let cu ← liftRead (getMailboxMessageCountAndUID · mb)
  match limitErr E cu n with
  | some e => fail (.limit e)
  | none => pure ()

/-- `AddMessagesToMailbox` -/
def addMessagesToMailbox (E : Env) (mb : MailboxId) (pairs : List (MessageId × RemoteId)) : ATx (List SnapRow × Upd) := do
  checkAdd E mb pairs.length
  let rows ← liftTx (DB.addMessagesToMailbox E.sites mb pairs)
  return (rows, .exists mb rows.length)

/-- `RemoveMessagesFromMailbox` -/
def removeMessagesFromMailbox (E : Env) (mb : MailboxId) (ids : List MessageId) : ATx (List Upd) := do
  if !ids.isEmpty then liftTx (DB.removeMessagesFromMailbox E.sites mb ids)
  return ids.map (.expunge mb)

/-- `MoveMessagesFromMailbox` -/
def moveMessagesFromMailbox (E : Env) (src dst : MailboxId) (pairs : List (MessageId × RemoteId))
    (ids : List MessageId) (removeOld : Bool) : ATx (List SnapRow × List Upd) := do
  checkAdd E dst pairs.length
  if src != dst && removeOld then liftTx (DB.removeMessagesFromMailbox E.sites src ids)
  let rows ← liftTx (DB.addMessagesToMailbox E.sites dst pairs)
  return (rows, .exists dst rows.length :: (if removeOld then ids.map (.expunge src) else []))

/-! ### internal/state/actions.go -/

/-- `actionRemoveMessagesFromMailboxUnchecked`: connector call (or, for the recovery mailbox, the hash map),
    then the index -/
def actionRemoveUnchecked (E : Env) (pairs : List (MessageId × RemoteId)) (mb : MailboxId) : ATx (List Upd) :=
  removeMessagesFromMailbox E mb (pairs.map (·.1))

/-- `actionRemoveMessagesFromMailbox` -/
def actionRemove (E : Env) (pairs : List (MessageId × RemoteId)) (mb : MailboxId) : ATx (List Upd) := do
  let have_ ← liftRead (mailboxFilterContains E.sites · mb pairs)
  let pairs := pairs.filter fun p => have_.contains p.1
  if pairs.isEmpty then return []
  actionRemoveUnchecked E pairs mb

/-- `actionAddMessagesToMailbox` -/
def actionAdd (E : Env) (pairs : List (MessageId × RemoteId)) (mb : MailboxId) : ATx (List Upd × List SnapRow) := do
  let have_ ← liftRead (mailboxFilterContains E.sites · mb pairs)
  let rem := pairs.filter fun p => have_.contains p.1
  let ups ← (if !rem.isEmpty then actionRemoveUnchecked E rem mb else pure [])
  -- connector.AddMessagesToMailbox: succeeds
  let (rows, up) ← addMessagesToMailbox E mb pairs
  return (ups ++ [up], rows)

/-- `actionMoveMessages` -/
def actionMove (E : Env) (pairs : List (MessageId × RemoteId)) (src dst : MailboxId) : ATx (List Upd × List SnapRow) := do
  -- fixes 7feeba5, 971d4f3: only messages still in the source are moved (the session's view may still show a message
  -- that was expunged elsewhere); everything below is restricted to them
  let inSrc ← liftRead (mailboxFilterContains E.sites · src pairs)
  let toMove := pairs.filter fun p => inSrc.contains p.1
  if src == dst then
    if toMove.isEmpty then return ([], [])
    let ups ← actionRemoveUnchecked E toMove dst
    let (ups', rows) ← actionAdd E toMove dst
    return (ups ++ ups', rows)
  let inDst ← liftRead (mailboxFilterContains E.sites · dst toMove)
  let rem := toMove.filter fun p => inDst.contains p.1
  let ups ← (if !rem.isEmpty then actionRemoveUnchecked E rem dst else pure [])
  -- connector.MoveMessages: succeeds, shouldRemoveOldMessages = true
  let (rows, ups') ← moveMessagesFromMailbox E src dst toMove (toMove.map (·.1)) true
  return (ups ++ ups', rows)

/-- `if cond { tx.SetMailboxMessagesDeletedFlag(ctx, mboxID, messageIDs, d) }` -/
def deletedStep (E : Env) (sel : MailboxId) (ids : List MessageId) (cond d : Bool) : ATx Unit :=
  if cond then liftTx (setMailboxMessagesDeletedFlag E.sites sel ids d) else pure ()

/-- `state.user.GetStore().SetUnchecked(internalID, literalWithHeader)` (not transactional in the code; see the header) -/
def storeSet (id : MessageId) (bytes : Bytes) : ATx Unit := fun s => .ok ((), { s with store := (id, bytes) :: s.store })

/-- `actionCreateMessage` after the connector call and the duplicate check: a new message -/
def createNew (E : Env) (mb : MailboxId) (lit : Lit) (flags : FSet) (id : MessageId) (rid : RemoteId) : ATx (List Upd × Nat) := do
  -- imap.NewParsedMessage(newLiteral)
  (if !lit.parseOk then fail .parse else pure ())
  storeSet id lit.bytes
  -- \Deleted is kept per mailbox (fix 12c5535)
  let appendDeleted := flags.has keyDeleted
  let flags' := if appendDeleted then flags.remove flagDeleted else flags
  let req : CreateReq := { id := id, remoteId := rid, date := 0, size := lit.bytes.length, body := "", bodyStructure := "",
                           envelope := "", flags := flags' }
  let r ← liftTx (createMessageAndAddToMailbox mb req)
  deletedStep E mb [id] appendDeleted true
  return ([.exists mb 1], r.1)

/-- `actionCreateMessage` -/
def actionCreateMessage (E : Env) (mb : MailboxId) (lit : Lit) (flags : FSet) (cameFromDrafts : Bool) : ATx (List Upd × Nat) := fun s =>
  -- connector.CreateMessage: a new remote id, the literal echoed; imap.NewInternalMessageID()
  let rid := E.rid s.nextRid
  let id := s.nextId
  let s1 : State := { s with nextRid := s.nextRid + 1, nextId := s.nextId + 1 }
  -- "Handle the case where duplicate messages can return the same remote ID."
  match getMessageIDFromRemoteID s1.db rid with
  | .ok k =>
    if cameFromDrafts then .error .draftsDup
    else (do
      let r ← actionAdd E [(k, rid)] mb
      return (r.1, (r.2.head?.map SnapRow.uid).getD 0)) s1
  | .error .notFound => createNew E mb lit flags id rid s1
  | .error e => .error (.db e)

/-! ### internal/state/updates.go -/

/-- ids of the rows of `GetMessagesFlags` whose flag set (does not) hold(s) the key -/
def withKey (cur : List (MessageId × RemoteId × List FlagVal)) (key : String) (present : Bool) : List MessageId :=
  (cur.filter fun r => FSet.has r.2.2 key == present).map (·.1)

/-- `for _, flag := range remainingFlags { … tx.AddFlagToMessages(messagesToFlag, flag) … }` -/
def addFlagsLoop (E : Env) (cur : List (MessageId × RemoteId × List FlagVal)) : List String → ATx Unit
  | [] => pure ()
  | flag :: rest => do
    liftTx (addFlagToMessages E.sites (withKey cur (lower flag) false) flag)
    addFlagsLoop E cur rest

/-- `if flags.ContainsUnchecked(imap.FlagRecentLowerCase) { return nil, fmt.Errorf("the recent flag is read-only") }` -/
def guardRecent (flags : FSet) : ATx Unit :=
  if flags.has keyRecent then fail .recentReadOnly else pure ()

/-- "Add all known variations of forward flags to the list if one of them is present." -/
def withForwardAliases (flags : FSet) : FSet :=
  if flags.hasAny forwardKeys then flags.add forwardFlagList else flags

/-- `applyMessageFlagsAdded` (the connector calls for \Seen / \Flagged / forwarded succeed) -/
def applyFlagsAdded (E : Env) (sel : MailboxId) (ids : List MessageId) (addFlags : FSet) : ATx (List Upd) := do
  guardRecent addFlags
  let cur ← liftRead (getMessagesFlags E.sites · ids)
  let addFlags := withForwardAliases addFlags
  deletedStep E sel ids (addFlags.has keyDeleted) true
  addFlagsLoop E cur (addFlags.remove flagDeleted)
  return [.flags sel ids]

/-- `for _, flag := range remainingFlags { … tx.RemoveFlagFromMessages(messagesToFlag, flag) … }` -/
def remFlagsLoop (E : Env) (cur : List (MessageId × RemoteId × List FlagVal)) : List String → ATx Unit
  | [] => pure ()
  | flag :: rest => do
    liftTx (removeFlagFromMessages E.sites (withKey cur (lower flag) true) flag)
    remFlagsLoop E cur rest

/-- `applyMessageFlagsRemoved` -/
def applyFlagsRemoved (E : Env) (sel : MailboxId) (ids : List MessageId) (remFlags : FSet) : ATx (List Upd) := do
  guardRecent remFlags
  let cur ← liftRead (getMessagesFlags E.sites · ids)
  let remFlags := withForwardAliases remFlags
  deletedStep E sel ids (remFlags.has keyDeleted) false
  remFlagsLoop E cur (remFlags.remove flagDeleted)
  return [.flags sel ids]

/-- `for _, flag := range toClear.ToSliceUnsorted() { tx.RemoveFlagFromMessages(messageIDs, flag) }` -/
def clearLoop (E : Env) (ids : List MessageId) : List String → ATx Unit
  | [] => pure ()
  | flag :: rest => do
    liftTx (removeFlagFromMessages E.sites ids flag)
    clearLoop E ids rest

/-- the tail of `applyMessageFlagsSet`: `tx.SetFlagsOnMessages`, or (fix 6649146) when nothing but possibly
    \Deleted is to remain, clear the flags the messages currently have -/
def setOrClear (E : Env) (ids : List MessageId) (cur : List (MessageId × RemoteId × List FlagVal)) (remaining : FSet) : ATx Unit :=
  if !remaining.isEmpty then
    liftTx (setFlagsOnMessages E.sites ids remaining)
  else
    clearLoop E ids (cur.foldl (fun acc r => FSet.add acc r.2.2) ([] : FSet))

/-- `applyMessageFlagsSet` (`state.snap != nil`: a mailbox is selected) -/
def applyFlagsSet (E : Env) (sel : MailboxId) (ids : List MessageId) (setFlags : FSet) : ATx (List Upd) := do
  guardRecent setFlags
  let cur ← liftRead (getMessagesFlags E.sites · ids)
  let setFlags := withForwardAliases setFlags
  deletedStep E sel ids true (setFlags.contains' flagDeleted)
  setOrClear E ids cur (setFlags.remove flagDeleted)
  return [.flags sel ids]

/-! ### internal/state/state.go: stateDBWrite -/

/-- what the second transaction of `stateDBWrite` (QueueOrApplyStateUpdate) does: a schedule input -/
structure Second where
  fails : Bool := false
  /-- `ClearRecentFlagInMailboxOnMessage` calls of responders applied at once -/
  clearRecent : List (MailboxId × MessageId) := []
deriving DecidableEq, Repr

def clearRecentAll : List (MailboxId × MessageId) → Tx Unit
  | [] => pure ()
  | (mb, m) :: rest => do
    clearRecentFlagInMailboxOnMessage mb m
    clearRecentAll rest

/-- `Client.Write` for a closure of the action level: commit on success, restore on ANY error -/
def writeA {α : Type} (f : ATx α) (s : State) : Except Err α × State :=
  match f s with
  | .ok (a, s') => (.ok a, s')
  | .error e => (.error e, s)

/-- the index part of `writeA` as a `DB.Tx`, to relate `writeA` to `DB.write` -/
def dbPart {α : Type} (f : ATx α) (s : State) : Tx Unit := fun db =>
  match f { s with db := db } with
  | .ok (_, s') => .ok ((), s'.db)
  | .error (.db e) => .error e
  | .error _ => .error .unmodelled

/-- `stateDBWrite` / `stateDBWriteResult` -/
def stateDBWrite {α : Type} (f : ATx (List Upd × α)) (q : Second) (s : State) : Except Err α × State :=
  match writeA f s with
  | (.error e, s) => (.error e, s)
  | (.ok (ups, a), s) =>
    if ups.isEmpty then (.ok a, s)
    else if q.fails then (.error .secondTx, s)
    else
      match write (clearRecentAll q.clearRecent) s.db with
      | (.ok (), db') => (.ok a, { s with db := db' })
      | (.error _, _) => (.error .secondTx, s)

/-! ### internal/state/mailbox.go -/

inductive StoreAction where
  | add | rem | set
deriving DecidableEq, Repr

abbrev Pairs := List (MessageId × RemoteId)

/-- `Mailbox.Store` after `getMessagesInRange` -/
def storeTx (E : Env) (sel : MailboxId) (msgs : Pairs) (action : StoreAction) (flags : FSet) : ATx (List Upd × Unit) := do
  let ids := msgs.map (·.1)
  let ups ← match action with
    | .add => applyFlagsAdded E sel ids flags
    | .rem => applyFlagsRemoved E sel ids flags
    | .set => applyFlagsSet E sel ids flags
  return (ups, ())

/-- `Mailbox.Expunge` after the snapshot lookup -/
def expungeTx (E : Env) (sel : MailboxId) (msgs : Pairs) : ATx (List Upd × Unit) := do
  let ups ← actionRemove E msgs sel
  return (ups, ())

/-- `Mailbox.AppendRegular`, the non-drafts branch that finds an `X-Pm-Gluon-Id` of a live message -/
def appendKnownTx (E : Env) (mb : MailboxId) (msgID : MessageId) : ATx (List Upd × Nat) := do
  let rid ← liftRead (getMessageRemoteID · msgID)
  let (ups, rows) ← actionAdd E [(msgID, rid)] mb
  return (ups, (rows.head?.map (·.uid)).getD 0)

inductive Answer where
  | ok
  | no (e : Err)
  /-- `validateStoreFlags`: the flag list names `\Recent` (answered BAD before anything runs) -/
  | bad
  | outOfScope
deriving DecidableEq, Repr

def Answer.isOk : Answer → Bool
  | .ok => true
  | _ => false

def Answer.isNo : Answer → Bool
  | .no _ => true
  | _ => false

def answerOf {α : Type} (r : Except Err α × State) : Answer × State :=
  match r with
  | (.ok _, s) => (.ok, s)
  | (.error e, s) => (.no e, s)

/-- `State.AppendOnlyMailbox` + `Mailbox.AppendRegular` -/
def append (E : Env) (s : State) (name : String) (flags : List String) (lit : Lit) (q : Second) : Answer × State :=
  -- handleAppend: validateStoreFlags
  if (FSet.new flags).contains' flagRecent then (.bad, s) else
  if lower name == lower E.recoveryName then (.no .notAllowed, s) else
  match getMailboxByName s.db name with
  | .error .notFound => (.no .noSuchMailbox, s)
  | .error e => (.no (.db e), s)
  | .ok mbox =>
    let flags := FSet.new flags
    -- limits, in a read transaction
    match (checkAdd E mbox.id 1) s with
    | .error e => (.no e, s)
    | .ok _ =>
    let isDrafts := FSet.contains' (flagsOf s.db.mboxAttrs mbox.id) attrDrafts
    let known : Option MessageId :=
      if isDrafts then none else
      match lit.gid with
      | none => none
      | some g =>
        match getMessageDeletedFlag s.db g with
        | .ok false => some g
        | _ => none          -- unknown internal id, or marked deleted: a new message is created
    match known with
    | some g => answerOf (stateDBWrite (appendKnownTx E mbox.id g) q s)
    | none => answerOf (stateDBWrite (actionCreateMessage E mbox.id lit flags isDrafts) q s)

/-- the selected mailbox of the issuing session -/
def selected (E : Env) (s : State) (name : String) : Except Answer MboxRow :=
  match getMailboxByName s.db name with
  | .ok m => if m.id == E.recovery then .error .outOfScope else .ok m
  | .error .notFound => .error (.no .notSelected)
  | .error e => .error (.no (.db e))

/-- the destination of COPY / MOVE -/
def destination (E : Env) (s : State) (name : String) : Except Answer MboxRow :=
  if lower name == lower E.recoveryName then .error (.no .notAllowed) else
  match getMailboxByName s.db name with
  | .ok m => .ok m
  | .error .notFound => .error (.no .noSuchMailbox)
  | .error e => .error (.no (.db e))

/-- a message command with its message set resolved against the issuing session's snapshot -/
inductive Cmd where
  | append (mb : String) (flags : List String) (lit : Lit)
  | store (mb : String) (msgs : Pairs) (action : StoreAction) (flags : List String)
  | expunge (mb : String) (msgs : Pairs)
  | copy (src dst : String) (msgs : Pairs)
  | move (src dst : String) (msgs : Pairs)
deriving DecidableEq, Repr

/-- one command of one session: whole transactions, serialised by the index's write lock -/
def step (E : Env) (s : State) (c : Cmd) (q : Second) : Answer × State :=
  match c with
  | .append mb flags lit => append E s mb flags lit q
  | .store mb msgs action flags =>
    -- handleStore: validateStoreFlags
    if (FSet.new flags).contains' flagRecent then (.bad, s) else
    match selected E s mb with
    | .error a => (a, s)
    | .ok sel => answerOf (stateDBWrite (storeTx E sel.id msgs action (FSet.new flags)) q s)
  | .expunge mb msgs =>
    match selected E s mb with
    | .error a => (a, s)
    | .ok sel => answerOf (stateDBWrite (expungeTx E sel.id msgs) q s)
  | .copy src dst msgs =>
    match destination E s dst with
    | .error a => (a, s)
    | .ok d =>
      match selected E s src with
      | .error a => (a, s)
      | .ok _ => answerOf (stateDBWrite (actionAdd E msgs d.id) q s)
  | .move src dst msgs =>
    match destination E s dst with
    | .error a => (a, s)
    | .ok d =>
      match selected E s src with
      | .error a => (a, s)
      | .ok sel => answerOf (stateDBWrite (actionMove E msgs sel.id d.id) q s)

/-- a history: the commands of all sessions in the order their transactions are serialised -/
def run (E : Env) (s : State) : List (Cmd × Second) → State × List Answer
  | [] => (s, [])
  | (c, q) :: rest =>
    let r := step E s c q
    let r' := run E r.2 rest
    (r'.1, r.1 :: r'.2)

end Gluon.Act
