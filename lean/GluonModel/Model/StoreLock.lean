/-
M-STORE, part 2: the lock table of `WriteControlledStore` (store/write_controlled_store.go) as a
transition system.

    Get/Set/Delete(id):  ref := acquireSyncRef(id); defer releaseSyncRef(id, ref)
                         ref.lock.RLock()/Lock();   defer ref.lock.RUnlock()/Unlock()
                         impl.Get/Set/Delete(id)

    acquireSyncRef(id):  w.lock.Lock(); defer w.lock.Unlock()
                         v, ok := entryTable[id]
                         !ok: v := lockPool.Get(); v.counter = 1; entryTable[id] = v; return v
                         atomic.AddInt32(&v.counter, 1); return v

    releaseSyncRef(id, ref):
                         if atomic.AddInt32(&ref.counter, -1) <= 0 {      -- step `dec`   (w.lock NOT held)
                             w.lock.Lock(); defer w.lock.Unlock()          --   … any other thread may run here …
                             if atomic.LoadInt32(&ref.counter) <= 0 {      -- step `cleanup` (under w.lock)
                                 delete(entryTable, id); lockPool.Put(ref) } }

Lock objects (`*syncRef`) are numbers; `objs r` is the state of object `r` (its counter and the
state of its `sync.RWMutex`).  `lockPool` is a `sync.Pool`: `Get` returns some object that was
`Put` (and not yet taken out again) or a fresh one from `New` — the schedule says which (`Src`).
Everything done under `w.lock` is one atomic step; `acquireSyncRef` as a whole is atomic (the
table is only changed under `w.lock`, and the counter update commutes with a concurrent `dec`).
The `release` step is `dec` immediately followed by `cleanup`, i.e. `releaseSyncRef` with nothing
scheduled in its window; the real code's behaviours are the schedules over *all* steps.
`RLock` is enabled when no writer holds the mutex (Go additionally blocks new readers while a
writer waits: fewer behaviours, irrelevant for safety).  `SetUnchecked`/`DeleteUnchecked` bypass
the table altogether and are not part of the model.  Core Lean only.
-/
import GluonModel.Model.Store

namespace Gluon.Store.Lock

inductive Mode where
  | read    -- Get
  | write   -- Set, Delete
deriving DecidableEq, Repr

/-- a `syncRef`: reference counter and the state of its RWMutex -/
structure Obj where
  counter : Int
  readers : Nat
  writer : Bool
deriving DecidableEq, Repr

/-- where a goroutine is inside `Get`/`Set`/`Delete` -/
inductive PC where
  | idle
  | acquired (id : Id) (r : Nat) (m : Mode)   -- acquireSyncRef returned object r; before RLock()/Lock()
  | holding (id : Id) (r : Nat) (m : Mode)    -- lock held, inside impl.Get / impl.Set / impl.Delete
  | unlocked (id : Id) (r : Nat)              -- deferred RUnlock()/Unlock() done, releaseSyncRef not started
  | stale (id : Id) (r : Nat)                 -- releaseSyncRef: the decrement returned ≤ 0; waiting for w.lock
deriving DecidableEq, Repr

structure State where
  objs : Nat → Obj
  next : Nat                 -- objects ≥ next have not been allocated yet
  table : Id → Option Nat    -- entryTable
  pool : List Nat            -- what lockPool holds (the same object can be in it twice after a double Put)
  pcs : List PC              -- one entry per goroutine

def init (threads : Nat) : State where
  objs := fun _ => ⟨0, 0, false⟩
  next := 0
  table := fun _ => none
  pool := []
  pcs := List.replicate threads .idle

/-- what `lockPool.Get()` hands out -/
inductive Src where
  | fresh              -- `New()`
  | pooled (r : Nat)   -- an object that is in the pool
deriving DecidableEq, Repr

inductive Step where
  | acquire (t : Nat) (id : Id) (m : Mode) (src : Src)   -- `src` is consulted only if the table has no entry
  | lock (t : Nat)
  | unlock (t : Nat)
  | dec (t : Nat)
  | cleanup (t : Nat)
  | release (t : Nat)   -- dec; cleanup  with nothing in between
deriving DecidableEq, Repr

def setCounter (objs : Nat → Obj) (r : Nat) (c : Int) : Nat → Obj :=
  fun x => if x = r then { objs x with counter := c } else objs x

def setPC (s : State) (t : Nat) (pc : PC) : State := { s with pcs := s.pcs.set t pc }

def stepAcquire (s : State) (t : Nat) (id : Id) (m : Mode) (src : Src) : Option State :=
  match s.pcs[t]? with
  | some .idle =>
    match s.table id with
    | some r =>
      some { s with objs := setCounter s.objs r ((s.objs r).counter + 1), pcs := s.pcs.set t (.acquired id r m) }
    | none =>
      match src with
      | .fresh =>
        let r := s.next
        some { s with objs := setCounter s.objs r 1, next := s.next + 1,
                      table := fun x => if x = id then some r else s.table x,
                      pcs := s.pcs.set t (.acquired id r m) }
      | .pooled r =>
        if r ∈ s.pool then
          some { s with objs := setCounter s.objs r 1, pool := s.pool.erase r,
                        table := fun x => if x = id then some r else s.table x,
                        pcs := s.pcs.set t (.acquired id r m) }
        else none
  | _ => none

def stepLock (s : State) (t : Nat) : Option State :=
  match s.pcs[t]? with
  | some (.acquired id r .write) =>
    if (s.objs r).readers = 0 ∧ (s.objs r).writer = false then
      some { s with objs := fun x => if x = r then { s.objs x with writer := true } else s.objs x,
                    pcs := s.pcs.set t (.holding id r .write) }
    else none
  | some (.acquired id r .read) =>
    if (s.objs r).writer = false then
      some { s with objs := fun x => if x = r then { s.objs x with readers := (s.objs x).readers + 1 } else s.objs x,
                    pcs := s.pcs.set t (.holding id r .read) }
    else none
  | _ => none

def stepUnlock (s : State) (t : Nat) : Option State :=
  match s.pcs[t]? with
  | some (.holding id r .write) =>
    some { s with objs := fun x => if x = r then { s.objs x with writer := false } else s.objs x,
                  pcs := s.pcs.set t (.unlocked id r) }
  | some (.holding id r .read) =>
    some { s with objs := fun x => if x = r then { s.objs x with readers := (s.objs x).readers - 1 } else s.objs x,
                  pcs := s.pcs.set t (.unlocked id r) }
  | _ => none

def stepDec (s : State) (t : Nat) : Option State :=
  match s.pcs[t]? with
  | some (.unlocked id r) =>
    let c := (s.objs r).counter - 1
    some { s with objs := setCounter s.objs r c,
                  pcs := s.pcs.set t (if c ≤ 0 then .stale id r else .idle) }
  | _ => none

def stepCleanup (s : State) (t : Nat) : Option State :=
  match s.pcs[t]? with
  | some (.stale id r) =>
    if (s.objs r).counter ≤ 0 then
      some { s with table := fun x => if x = id then none else s.table x,
                    pool := r :: s.pool,
                    pcs := s.pcs.set t .idle }
    else some { s with pcs := s.pcs.set t .idle }
  | _ => none

def stepRelease (s : State) (t : Nat) : Option State :=
  match stepDec s t with
  | none => none
  | some s' =>
    match s'.pcs[t]? with
    | some (.stale _ _) => stepCleanup s' t
    | _ => some s'

def step (s : State) : Step → Option State
  | .acquire t id m src => stepAcquire s t id m src
  | .lock t => stepLock s t
  | .unlock t => stepUnlock s t
  | .dec t => stepDec s t
  | .cleanup t => stepCleanup s t
  | .release t => stepRelease s t

/-- run a schedule; `none` if some step is not enabled -/
def exec (s : State) : List Step → Option State
  | [] => some s
  | a :: rest => match step s a with
    | none => none
    | some s' => exec s' rest

/-- schedules in which `releaseSyncRef` is never interrupted between its decrement and its cleanup -/
def Step.atomicRelease : Step → Bool
  | .dec _ => false
  | .cleanup _ => false
  | _ => true

def AtomicRelease (sched : List Step) : Prop := ∀ a ∈ sched, a.atomicRelease = true

/-- The property: goroutines inside `impl` for one id hold the same lock object, and only readers share. -/
def Exclusive (s : State) : Prop :=
  ∀ (t1 t2 : Nat) (id : Id) (r1 r2 : Nat) (m1 m2 : Mode), t1 ≠ t2 →
    s.pcs[t1]? = some (PC.holding id r1 m1) → s.pcs[t2]? = some (PC.holding id r2 m2) →
    r1 = r2 ∧ m1 = Mode.read ∧ m2 = Mode.read

/-- Per lock object: two goroutines holding the *same* object are both readers. -/
def ObjectExclusive (s : State) : Prop :=
  ∀ (t1 t2 : Nat) (id1 id2 : Id) (r : Nat) (m1 m2 : Mode), t1 ≠ t2 →
    s.pcs[t1]? = some (PC.holding id1 r m1) → s.pcs[t2]? = some (PC.holding id2 r m2) →
    m1 = Mode.read ∧ m2 = Mode.read

/-- One id, one lock object: goroutines between acquire and release of the same id have the same object. -/
def OneObjectPerId (s : State) : Prop :=
  ∀ (t1 t2 : Nat) (id : Id) (r1 r2 : Nat) (m1 m2 : Mode),
    s.pcs[t1]? = some (PC.holding id r1 m1) → s.pcs[t2]? = some (PC.holding id r2 m2) → r1 = r2

/-- The ABA schedule (DESIGN.md section 9, #14), goroutines 0–3, one message id 7:
    0 finishes a Set and decrements the counter to 0 — and is descheduled before taking `w.lock`;
    1 runs a whole Set on the same entry (counter 1 → 0) and deletes it, putting object 0 in the pool;
    2 starts a Set: no entry, the pool hands out a fresh object 1, 2 locks it;
    0 resumes: object 0's counter is still 0, so it deletes the entry of *id* — now object 1's — and puts object 0 in the pool again;
    3 starts a Set: no entry, gets object 0 from the pool, locks it: two writers inside `impl.Set(7)`. -/
def abaSchedule : List Step :=
  [ .acquire 0 7 .write .fresh, .lock 0, .unlock 0, .dec 0,
    .acquire 1 7 .write .fresh, .lock 1, .unlock 1, .dec 1, .cleanup 1,
    .acquire 2 7 .write .fresh, .lock 2,
    .cleanup 0,
    .acquire 3 7 .write (.pooled 0), .lock 3 ]

end Gluon.Store.Lock
