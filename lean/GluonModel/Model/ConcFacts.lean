/-
Checker for the regenerated lock facts (Generated/Facts/Locks.lean, written by harness/facts_locks.go).
Core Lean only; everything is a single structural pass so that `decide` evaluates it.

The translator emits, per function / function literal of the scanned gluon packages, its events in
source order, plus *certificates* (entry/exit lock sets, `mayAcq`, `cbI`/`cbU`, a rank per lock).
`checkFn` replays the events with the lexically held lock set and checks

* lock order: whenever a lock `m` is (or may be, through a callee / a literal / a callback run by a
  callee under the callee's locks) acquired while `h` is held: `rank h < rank m`;
* the certificates are closed under the events (so they over-approximate what the code does);
* Unlock only of what is held; callees' entry locks are held at every call site;
* no call of unknown code (`dyn`) and no unclassified lock operation (`unknown`) while a lock is held;
* guarded fields: the guard is held at every access, exclusively for writes.
-/

namespace Gluon.Conc.LF

inductive Ev where
  | acq (l : Nat) (w : Bool)          -- Lock (w = true) / RLock (w = false)
  | rel (l : Nat) (w : Bool)          -- Unlock / RUnlock (deferred ones are placed at the end)
  | call (fs : List Nat)              -- synchronous call; the callee is one of `fs`
  | lit (f : Nat)                     -- function literal `f` runs here
  | pass (gs : List Nat) (f : Nat)    -- literal / function value `f` handed to callee(s) `gs`
  | passParam (gs : List Nat)         -- own function-typed parameter handed on to callee(s) `gs`
  | cb                                -- own function-typed parameter invoked here
  | spawn (fs : List Nat)             -- go statement
  | acc (fld : Nat) (wr : Bool)       -- access to guarded field `fld`
  | dyn                               -- call of a function value of unknown origin
  | unknown                           -- unclassified lock operation
deriving Repr

structure Fn where
  name : String
  exported : Bool
  isLit : Bool
  events : List Ev
  entry : List (Nat × Bool)
  exit : List (Nat × Bool)
  mayAcq : List Nat
  cbI : Bool
  cbU : List Nat
deriving Repr

structure Tab where
  rank : List Nat
  fns : List Fn
  guards : List Nat

namespace Tab

def rankOf (t : Tab) (l : Nat) : Nat := t.rank.getD l 0

def fn? (t : Tab) (i : Nat) : Option Fn := t.fns[i]?

end Tab

def subset (xs ys : List Nat) : Bool := xs.all fun x => ys.contains x

def heldSub (xs ys : List (Nat × Bool)) : Bool := xs.all fun x => ys.contains x

def locksOf (held : List (Nat × Bool)) : List Nat := held.map (·.1)

def eraseAll (held : List (Nat × Bool)) (xs : List (Nat × Bool)) : List (Nat × Bool) :=
  xs.foldl (fun h x => h.erase x) held

/-- every held lock is strictly below `m` -/
def below (t : Tab) (held : List (Nat × Bool)) (m : Nat) : Bool :=
  held.all fun h => decide (t.rankOf h.1 < t.rankOf m)

structure WState where
  held : List (Nat × Bool)
  orderOk : Bool := true     -- lock order, certificates, shapes
  accOk : Bool := true       -- guarded accesses
deriving Repr

/-- acquiring (possibly) everything in `ms` while `held`: order and closure of `mayAcq` -/
def acquireAll (t : Tab) (f : Fn) (held : List (Nat × Bool)) (ms : List Nat) : Bool :=
  ms.all fun m => below t held m && f.mayAcq.contains m

/-- own callbacks may run here under `extra` (on top of what is held) -/
def cbClosed (f : Fn) (held : List (Nat × Bool)) (extra : List Nat) : Bool :=
  f.cbI && subset (locksOf held) f.cbU && subset extra f.cbU

def stepEv (t : Tab) (f : Fn) (s : WState) : Ev → WState
  | .acq l w =>
    { s with held := (l, w) :: s.held,
             orderOk := s.orderOk && decide (l < t.rank.length) && acquireAll t f s.held [l] }
  | .rel l w =>
    { s with held := s.held.erase (l, w), orderOk := s.orderOk && s.held.contains (l, w) }
  | .call gs =>
    match gs.mapM t.fn? with
    | none => { s with orderOk := false }
    | some [] => s
    | some (g :: rest) =>
      let ok := (g :: rest).all fun c =>
        heldSub c.entry s.held && acquireAll t f s.held c.mayAcq &&
        c.entry == g.entry && c.exit == g.exit
      { s with held := eraseAll s.held g.entry ++ g.exit, orderOk := s.orderOk && ok }
  | .lit gi =>
    match t.fn? gi with
    | none => { s with orderOk := false }
    | some g =>
      let ok := heldSub g.entry s.held && acquireAll t f s.held g.mayAcq &&
        (!g.cbI || cbClosed f s.held g.cbU)
      { s with held := eraseAll s.held g.entry ++ g.exit, orderOk := s.orderOk && ok }
  | .pass gs gi =>
    match gs.mapM t.fn?, t.fn? gi with
    | some cs, some g =>
      let under := cs.flatMap (·.cbU)          -- what the callees may hold when they run `g`
      let ok := g.entry.isEmpty && acquireAll t f s.held g.mayAcq &&
        g.mayAcq.all (fun m => under.all fun h => decide (t.rankOf h < t.rankOf m)) &&
        (!g.cbI || cbClosed f s.held (g.cbU ++ under))
      { s with orderOk := s.orderOk && ok }
    | _, _ => { s with orderOk := false }
  | .passParam gs =>
    match gs.mapM t.fn? with
    | some cs => { s with orderOk := s.orderOk && cbClosed f s.held (cs.flatMap (·.cbU)) }
    | none => { s with orderOk := false }
  | .cb => { s with orderOk := s.orderOk && cbClosed f s.held [] }
  | .spawn gs =>
    match gs.mapM t.fn? with
    | none => { s with orderOk := false }
    | some cs =>
      let ok := cs.all fun c => heldSub c.entry s.held
      { s with held := cs.foldl (fun h c => eraseAll h c.entry) s.held, orderOk := s.orderOk && ok }
  | .acc fld wr =>
    match t.guards[fld]? with
    | none => { s with accOk := false }
    | some g =>
      let ok := if wr then s.held.contains (g, true) else (locksOf s.held).contains g
      { s with accOk := s.accOk && ok }
  | .dyn => { s with orderOk := s.orderOk && s.held.isEmpty }
  | .unknown => { s with orderOk := false, accOk := false }

def hasAcc (f : Fn) : Bool := f.events.any fun e => match e with | .acc _ _ => true | _ => false

def checkFn (t : Tab) (f : Fn) : Bool × Bool :=
  let s := f.events.foldl (stepEv t f) { held := f.entry }
  let exitOk := s.held.length == f.exit.length && heldSub s.held f.exit && heldSub f.exit s.held
  -- an exported function can be called from anywhere: its entry locks justify no access
  let accEntryOk := !(f.exported && !f.entry.isEmpty && hasAcc f)
  (s.orderOk && exitOk, s.accOk && accEntryOk)

/-- lock order + certificates + shapes, for the whole table -/
def checkOrder (t : Tab) : Bool := t.fns.all fun f => (checkFn t f).1

/-- guarded accesses, for the whole table (meaningful together with `checkOrder`) -/
def checkAccess (t : Tab) : Bool := t.fns.all fun f => (checkFn t f).2

/-- the strict order the ranks induce on locks -/
def rankLt (t : Tab) (a b : Nat) : Prop := t.rankOf a < t.rankOf b

end Gluon.Conc.LF
