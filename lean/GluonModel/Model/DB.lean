/-
M-DB: the relational state behind `db.Client` and one function per method of
`db.ReadOnly` / `db.Transaction`
(db/ops_*.go; internal/db_impl/sqlite3/{client,read_ops,write_ops}.go; schema = migrations
v0..v3 of internal/db_impl/sqlite3, i.e. tables mailboxes_v2, mailbox_flags_v2,
mailbox_perm_flags_v2, mailbox_attrs_v2, mailbox_message_<id>, messages_v2,
message_flags_v2, message_to_mailbox, deleted_subscriptions, connector_settings and
sqlite_sequence).

Conventions
* Every function models the SQL the Go method sends, statement by statement, in the order
  the code sends it, including the `xslices.Chunk` loops (`forChunks`; the loop body of every
  chunked method is a named function `…Chunk`).  Inside a chunk loop the model distinguishes
  the slice that determines the *number of placeholders* from the slice the *bind arguments*
  are built from; which is which comes from a `ChunkSite` parameter (regenerated from the
  source, `Generated/Facts/Chunk.lean`; `Model/DBFacts.lean` packs it as `factSites`).  The
  driver semantics is mattn/go-sqlite3's: too few arguments is an error, surplus arguments
  are silently ignored (`bindN`).  With the call-site facts of the tree before the `fix:`
  commits 8be31cc / b3abd4e this reproduced DESIGN.md section 9 #2 (`SetFlagsOnMessages`
  inserted the flags for the first message of a chunk only) and #3
  (`RemoveMessagesFromMailbox` bound the whole id list, and a message id to `mailbox_id = ?`);
  with today's facts it follows the repaired code — no edit here.
* Two methods get their SQL verdict from the facts, too (`Sites.sqlOk`): `MailboxExistsWithID`
  (`SELEC 1`, #6) and `UpdateRemoteMessageID` (column name as table name, #5) return `.sql`
  while their SQL text is malformed and mean what their names say as soon as it is not.
* SQL failures are explicit `DbErr` outcomes (`Except`).  A failing statement ends the
  operation; `write` (= `Client.Write`, `wrapTx`) discards the whole transaction.
  What SQLite leaves behind *inside* a transaction after a failed statement is not
  modelled (gluon never continues a transaction after an error).
* Constraints modelled: PRIMARY KEY / UNIQUE (`.unique`), FOREIGN KEY with
  `PRAGMA foreign_keys = ON` incl. `ON DELETE CASCADE` and the `ON DELETE SET NULL` into a
  `NOT NULL` column of `mailbox_message_<id>` (`.fk`, `.notNull`), unknown table
  (`.sql`), `ExecQueryAndCheckUpdatedNotZero` (`.noChange`), `sql.ErrNoRows` (`.notFound`),
  a Go panic inside the method (`.panic`: `GenSQLIn(0)` in `SetFlagsOnMessages(ids, ∅)`).
* `AUTOINCREMENT`: `mailboxSeq` / `MTable.seq` are the `sqlite_sequence` rows (0 = no row).
* Row order of a table = insertion order.  `SELECT` without `ORDER BY` returns rows in an
  order SQL does not define; the model returns table order and the correspondence harness
  sorts such results on both sides.
* Strings are compared byte-wise (SQLite `BINARY` collation): `\Seen` and `\seen` are two
  different flag rows (`AddFlagToMessages`' `INSERT OR IGNORE` stores both for one message).
  Case-insensitivity is `imap.FlagSet`'s business, above this layer — with one exception since
  /repo 45f4598: `RemoveFlagFromMessages` deletes `value = ? COLLATE NOCASE` (`nocaseEq`).
  NOT modelled: SQLite type affinity.  `mailbox_message_<id>.message_remote_id` is declared
  `string` (NUMERIC affinity): a remote id that looks like a number is stored as a number and
  every later read of the mailbox fails to scan it (corpus/C08/pending/numeric-looking-remote-id.ops).
* Opaque message fields: `date` (Unix seconds), `size`, `body`, `bodyStructure`, `envelope`.

API for action-level models (C03/C04/C06/C17): `open Gluon.DB`; state `DB`, `DB.empty`; read
functions `DB → … → Except DbErr α`; write functions in `Tx α = StateT DB (Except DbErr) α`
(so `do`-notation composes them and the first error aborts); `write` / `read` are the
`Client.Write` / `Client.Read` brackets; chunked operations take `(S : Sites)` as first
argument — pass `factSites` (`Model/DBFacts.lean`).  Reasoning: rewrite a chunked operation
into its un-chunked meaning (`Spec/DBSpec.lean`) with `Gluon.C08.chunk_faithful_*`
(`Theorems/C08.lean`) and work with the `Spec.*Step` functions, which are plain
`filter`/`map`/append over the lists of this file.  `MailboxId`/`MessageId` are scoped
notations for `Nat`.  Core Lean only.
-/
import GluonModel.Model.DBSite

namespace Gluon.DB

/- `MailboxId`, `MessageId` are (scoped) notations for `Nat`, not `abbrev`s: `omega` does not look
   through abbrevs.  `open Gluon.DB` to use them. -/
scoped notation "MailboxId" => Nat     -- imap.InternalMailboxID (INTEGER PRIMARY KEY AUTOINCREMENT)
scoped notation "MessageId" => Nat     -- imap.InternalMessageID (a UUID; the harness numbers them)
abbrev RemoteId := String   -- imap.MailboxID / imap.MessageID
abbrev FlagVal := String

inductive DbErr where
  | notFound        -- db.ErrNotFound (sql.ErrNoRows)
  | unique          -- SQLITE_CONSTRAINT_UNIQUE / _PRIMARYKEY
  | fk              -- SQLITE_CONSTRAINT_FOREIGNKEY
  | notNull         -- SQLITE_CONSTRAINT_NOTNULL
  | sql             -- SQLITE_ERROR: syntax error, no such table
  | noChange        -- "no values changed" (ExecQueryAndCheckUpdatedNotZero)
  | notEnoughArgs   -- driver: "not enough args to execute query"
  | panic           -- a Go panic inside the operation (GenSQLIn(0), Chunk(_, 0))
  | unmodelled      -- the call-site facts describe a shape this model has no semantics for
deriving DecidableEq, Repr, Inhabited

/-- mailboxes_v2 -/
structure MboxRow where
  id : MailboxId
  remoteId : RemoteId
  name : String
  uidValidity : Nat
  subscribed : Bool
deriving DecidableEq, Repr, Inhabited

/-- messages_v2 -/
structure MsgRow where
  id : MessageId
  remoteId : RemoteId
  date : Nat
  size : Nat
  body : String
  bodyStructure : String
  envelope : String
  deleted : Bool
deriving DecidableEq, Repr, Inhabited

/-- a row of mailbox_message_<id> -/
structure MMRow where
  uid : Nat
  deleted : Bool
  recent : Bool
  msgId : MessageId
  remoteId : RemoteId
deriving DecidableEq, Repr, Inhabited

/-- mailbox_message_<id> together with its sqlite_sequence row -/
structure MTable where
  rows : List MMRow := []
  seq : Nat := 0
deriving DecidableEq, Repr, Inhabited

structure DB where
  mailboxes : List MboxRow := []
  mailboxSeq : Nat := 0
  mboxFlags : List (MailboxId × FlagVal) := []
  mboxPermFlags : List (MailboxId × FlagVal) := []
  mboxAttrs : List (MailboxId × FlagVal) := []
  mtables : List (MailboxId × MTable) := []
  messages : List MsgRow := []
  msgFlags : List (MessageId × FlagVal) := []
  m2m : List (MessageId × MailboxId) := []
  /-- deleted_subscriptions (name, remote_id) -/
  deletedSubs : List (String × RemoteId) := []
  /-- connector_settings row 0; `none` = NULL -/
  settings : Option String := none
deriving DecidableEq, Repr, Inhabited

/-- the database right after `Client.Init` on an empty directory -/
def DB.empty : DB := {}

/-- A bind argument as the driver sees it. -/
inductive Bind where
  | msg (m : MessageId)
  | mbox (m : MailboxId)
  | str (s : String)
  | bool (b : Bool)
  | nat (n : Nat)
deriving DecidableEq, Repr, Inhabited

/-- mattn/go-sqlite3 `exec`/`query`: a statement with `total` placeholders consumes the first
    `total` arguments; fewer is an error, more are silently ignored. -/
def bindN (total : Option Nat) (args : List Bind) : Except DbErr (List Bind) :=
  match total with
  | none => .error .unmodelled
  | some n => if args.length < n then .error .notEnoughArgs else .ok (args.take n)

/-! ### `xslices.Chunk` -/

def chunkF {α : Type} : Nat → Nat → List α → List (List α)
  | 0, _, _ => []
  | fuel + 1, n, xs => if xs.isEmpty then [] else xs.take n :: chunkF fuel n (xs.drop n)

/-- `xslices.Chunk(xs, n)` for `n > 0` (for `n = 0` Go panics; see `forChunks`). -/
def chunk {α : Type} (n : Nat) (xs : List α) : List (List α) := chunkF xs.length n xs

/-- `for _, chunk := range xslices.Chunk(xs, n) { body }` with early return on error. -/
def forChunks {α σ : Type} (n : Nat) (xs : List α) (body : List α → σ → Except DbErr σ) (s : σ) : Except DbErr σ :=
  if n == 0 then .error .panic else (chunk n xs).foldlM (fun s c => body c s) s

/-! ### call-site evaluation -/

/-- lengths the count polynomials of a site may mention -/
def siteEnv {α : Type} (chunk whole : List α) (extra : List (String × Nat)) (a : String) : Option Nat :=
  if a == "chunk" then some chunk.length
  else if a == "whole" then some whole.length
  else if a == "chunk/2" then some (chunk.length / 2)
  else extra.lookup a

/-- the slice a statement's bind arguments are built from -/
def pick {α : Type} (s : ChunkStmt) (chunk whole : List α) : Except DbErr (List α) :=
  match s.args with
  | .chunk => .ok chunk
  | .whole => .ok whole
  | .unknown => .error .unmodelled

/-- `bindN` for statement `i` of a site: number of `?` from the facts, arguments as built. -/
def bindStmt {α : Type} (s : ChunkStmt) (chunk whole : List α) (extra : List (String × Nat))
    (args : List Bind) : Except DbErr (List Bind) :=
  bindN (s.ph.eval (siteEnv chunk whole extra)) args

/-- The regenerated call-site table as the operations consume it. -/
structure Sites where
  limit : Nat
  site : String → ChunkSite
  /-- `false` for a Go method whose SQL text is malformed (verb or table name), see
      `Generated/Facts/Chunk.lean` `sqlStmts` -/
  sqlOk : String → Bool

/-! ### small table helpers -/

def DB.table? (db : DB) (mb : MailboxId) : Option MTable := db.mtables.lookup mb

/-- using `mailbox_message_<mb>` in a statement: "no such table" unless it exists -/
def DB.getTable (db : DB) (mb : MailboxId) : Except DbErr MTable :=
  match db.table? mb with
  | some t => .ok t
  | none => .error .sql

def DB.setTable (db : DB) (mb : MailboxId) (t : MTable) : DB :=
  { db with mtables := db.mtables.map fun p => if p.1 == mb then (mb, t) else p }

def DB.hasMessage (db : DB) (m : MessageId) : Bool := db.messages.any (·.id == m)
def DB.hasMailbox (db : DB) (mb : MailboxId) : Bool := db.mailboxes.any (·.id == mb)

def flagsOf (l : List (Nat × FlagVal)) (k : Nat) : List FlagVal := (l.filter (·.1 == k)).map (·.2)

def insertByUid (r : MMRow) : List MMRow → List MMRow
  | [] => [r]
  | x :: xs => if r.uid ≤ x.uid then r :: x :: xs else x :: insertByUid r xs

/-- `ORDER BY uid` -/
def sortByUid (l : List MMRow) : List MMRow := l.foldr insertByUid []

/-! ## db.ReadOnly -/

structure SnapRow where
  msgId : MessageId
  remoteId : RemoteId
  uid : Nat
  recent : Bool
  deleted : Bool
  /-- the values GROUP_CONCAT joins (order undefined in SQL) -/
  flags : List FlagVal
deriving DecidableEq, Repr, Inhabited

def mailboxExistsWithID (sqlOk : Bool) (db : DB) (mb : MailboxId) : Except DbErr Bool :=
  if !sqlOk then .error .sql else .ok (db.mailboxes.any (·.id == mb))

def mailboxExistsWithRemoteID (db : DB) (rid : RemoteId) : Except DbErr Bool :=
  .ok (db.mailboxes.any (·.remoteId == rid))

def mailboxExistsWithName (db : DB) (name : String) : Except DbErr Bool :=
  .ok (db.mailboxes.any (·.name == name))

def getMailboxByRemoteID (db : DB) (rid : RemoteId) : Except DbErr MboxRow :=
  match db.mailboxes.find? (·.remoteId == rid) with
  | some m => .ok m
  | none => .error .notFound

def getMailboxByID (db : DB) (mb : MailboxId) : Except DbErr MboxRow :=
  match db.mailboxes.find? (·.id == mb) with
  | some m => .ok m
  | none => .error .notFound

def getMailboxByName (db : DB) (name : String) : Except DbErr MboxRow :=
  match db.mailboxes.find? (·.name == name) with
  | some m => .ok m
  | none => .error .notFound

def getMailboxIDFromRemoteID (db : DB) (rid : RemoteId) : Except DbErr MailboxId :=
  (getMailboxByRemoteID db rid).map (·.id)

def getMailboxName (db : DB) (mb : MailboxId) : Except DbErr String :=
  (getMailboxByID db mb).map (·.name)

def getMailboxNameWithRemoteID (db : DB) (rid : RemoteId) : Except DbErr String :=
  (getMailboxByRemoteID db rid).map (·.name)

def getMailboxMessageIDPairs (db : DB) (mb : MailboxId) : Except DbErr (List (MessageId × RemoteId)) := do
  let t ← db.getTable mb
  return t.rows.map fun r => (r.msgId, r.remoteId)

def getAllMailboxesWithAttr (db : DB) : Except DbErr (List (MboxRow × List FlagVal)) :=
  .ok (db.mailboxes.map fun m => (m, flagsOf db.mboxAttrs m.id))

def getAllMailboxesAsRemoteIDs (db : DB) : Except DbErr (List RemoteId) :=
  .ok (db.mailboxes.map (·.remoteId))

def getMailboxRecentCount (db : DB) (mb : MailboxId) : Except DbErr Nat := do
  let t ← db.getTable mb
  return (t.rows.filter (·.recent)).length

def getMailboxMessageCount (db : DB) (mb : MailboxId) : Except DbErr Nat := do
  let t ← db.getTable mb
  return t.rows.length

def getMailboxMessageCountWithRemoteID (db : DB) (rid : RemoteId) : Except DbErr Nat := do
  let mb ← getMailboxIDFromRemoteID db rid
  getMailboxMessageCount db mb

def getMailboxFlags (db : DB) (mb : MailboxId) : Except DbErr (List FlagVal) := .ok (flagsOf db.mboxFlags mb)
def getMailboxPermanentFlags (db : DB) (mb : MailboxId) : Except DbErr (List FlagVal) := .ok (flagsOf db.mboxPermFlags mb)
def getMailboxAttributes (db : DB) (mb : MailboxId) : Except DbErr (List FlagVal) := .ok (flagsOf db.mboxAttrs mb)

/-- `SELECT seq FROM sqlite_sequence WHERE name = 'mailbox_message_<mb>'`, not found ⇒ 1, else seq+1.
    No error for a mailbox that does not exist. -/
def getMailboxUID (db : DB) (mb : MailboxId) : Except DbErr Nat :=
  match db.table? mb with
  | some t => .ok (t.seq + 1)
  | none => .ok 1

def getMailboxMessageCountAndUID (db : DB) (mb : MailboxId) : Except DbErr (Nat × Nat) := do
  let c ← getMailboxMessageCount db mb
  let u ← getMailboxUID db mb
  return (c, u)

def snapRow (db : DB) (r : MMRow) : SnapRow :=
  { msgId := r.msgId, remoteId := r.remoteId, uid := r.uid, recent := r.recent, deleted := r.deleted,
    flags := flagsOf db.msgFlags r.msgId }

def getMailboxMessageForNewSnapshot (db : DB) (mb : MailboxId) : Except DbErr (List SnapRow) := do
  let t ← db.getTable mb
  return (sortByUid t.rows).map (snapRow db)

/-- `SELECT id FROM mailboxes_v2 WHERE remote_id IN (?…)` per chunk, results appended. -/
def translateChunk (site : ChunkSite) (db : DB) (rids c : List RemoteId) (acc : List MailboxId) : Except DbErr (List MailboxId) := do
  let st := site.stmt 0
  let src ← pick st c rids
  let bound ← bindStmt st c rids [] (src.map .str)
  return acc ++ (db.mailboxes.filter fun m => bound.contains (.str m.remoteId)).map (·.id)

def mailboxTranslateRemoteIDs (S : Sites) (db : DB) (rids : List RemoteId) : Except DbErr (List MailboxId) :=
  let site := S.site "MailboxTranslateRemoteIDs"
  forChunks (site.size S.limit) rids (translateChunk site db rids) []

/-- `readOps.MailboxFilterContainsInternalID` -/
def filterContainsChunk (site : ChunkSite) (db : DB) (mb : MailboxId) (ids c : List MessageId) (acc : List MessageId) :
    Except DbErr (List MessageId) := do
  let st := site.stmt 0
  let t ← db.getTable mb
  let src ← pick st c ids
  let bound ← bindStmt st c ids [] (src.map .msg)
  return acc ++ (t.rows.filter fun r => bound.contains (.msg r.msgId)).map (·.msgId)

def mailboxFilterContainsInternalID (S : Sites) (db : DB) (mb : MailboxId) (ids : List MessageId) :
    Except DbErr (List MessageId) :=
  let site := S.site "MailboxFilterContainsInternalID"
  forChunks (site.size S.limit) ids (filterContainsChunk site db mb ids) []

/-- `MailboxFilterContains`: only the internal ids of the pairs are used. -/
def mailboxFilterContains (S : Sites) (db : DB) (mb : MailboxId) (pairs : List (MessageId × RemoteId)) :
    Except DbErr (List MessageId) :=
  mailboxFilterContainsInternalID S db mb (pairs.map (·.1))

def getMailboxCount (db : DB) : Except DbErr Nat := .ok db.mailboxes.length

def getAllMailboxesNameAndRemoteID (db : DB) : Except DbErr (List (String × RemoteId)) :=
  .ok (db.mailboxes.map fun m => (m.name, m.remoteId))

def uidsWithFlagsChunk (site : ChunkSite) (db : DB) (mb : MailboxId) (ids c : List MessageId) (acc : List SnapRow) :
    Except DbErr (List SnapRow) := do
  let st := site.stmt 0
  let t ← db.getTable mb
  let src ← pick st c ids
  let bound ← bindStmt st c ids [] (src.map .msg)
  return acc ++ (sortByUid (t.rows.filter fun r => bound.contains (.msg r.msgId))).map (snapRow db)

/-- `readOps.GetMailboxMessageUIDsWithFlagsAfterAddOrUIDBump` (not in the interface; the tail of
    `AddMessagesToMailbox`): per chunk `… WHERE message_id IN (?…) … ORDER BY uid`, appended. -/
def getMailboxMessageUIDsWithFlags (S : Sites) (db : DB) (mb : MailboxId) (ids : List MessageId) :
    Except DbErr (List SnapRow) :=
  let site := S.site "GetMailboxMessageUIDsWithFlagsAfterAddOrUIDBump"
  forChunks (site.size S.limit) ids (uidsWithFlagsChunk site db mb ids) []

def getMessage (db : DB) (m : MessageId) : Except DbErr MsgRow :=
  match db.messages.find? (·.id == m) with
  | some r => .ok r
  | none => .error .notFound

def messageExists (db : DB) (m : MessageId) : Except DbErr Bool := .ok (db.hasMessage m)

def messageExistsWithRemoteID (db : DB) (rid : RemoteId) : Except DbErr Bool :=
  .ok (db.messages.any (·.remoteId == rid))

def getMessageNoEdges (db : DB) (m : MessageId) : Except DbErr MsgRow := getMessage db m

def getTotalMessageCount (db : DB) : Except DbErr Nat := .ok db.messages.length

def getMessageRemoteID (db : DB) (m : MessageId) : Except DbErr RemoteId := (getMessage db m).map (·.remoteId)

def getImportedMessageData (db : DB) (m : MessageId) : Except DbErr (MsgRow × List FlagVal) := do
  let r ← getMessage db m
  return (r, flagsOf db.msgFlags m)

def getMessageDateAndSize (db : DB) (m : MessageId) : Except DbErr (Nat × Nat) :=
  (getMessage db m).map fun r => (r.date, r.size)

def getMessageMailboxIDs (db : DB) (m : MessageId) : Except DbErr (List MailboxId) :=
  .ok ((db.m2m.filter (·.1 == m)).map (·.2))

def messagesFlagsChunk (site : ChunkSite) (db : DB) (ids c : List MessageId)
    (acc : List (MessageId × RemoteId × List FlagVal)) : Except DbErr (List (MessageId × RemoteId × List FlagVal)) := do
  let st := site.stmt 0
  let src ← pick st c ids
  let bound ← bindStmt st c ids [] (src.map .msg)
  return acc ++ (db.messages.filter fun r => bound.contains (.msg r.id)).map
    fun r => (r.id, r.remoteId, flagsOf db.msgFlags r.id)

/-- per chunk: `… FROM messages_v2 m LEFT JOIN message_flags_v2 f … WHERE m.id IN (?…) GROUP BY m.id` -/
def getMessagesFlags (S : Sites) (db : DB) (ids : List MessageId) :
    Except DbErr (List (MessageId × RemoteId × List FlagVal)) :=
  let site := S.site "GetMessagesFlags"
  forChunks (site.size S.limit) ids (messagesFlagsChunk site db ids) []

def getMessageIDsMarkedAsDelete (db : DB) : Except DbErr (List MessageId) :=
  .ok ((db.messages.filter (·.deleted)).map (·.id))

def getMessageIDFromRemoteID (db : DB) (rid : RemoteId) : Except DbErr MessageId :=
  match db.messages.find? (·.remoteId == rid) with
  | some r => .ok r.id
  | none => .error .notFound

def getMessageDeletedFlag (db : DB) (m : MessageId) : Except DbErr Bool := (getMessage db m).map (·.deleted)

def getAllMessagesIDsAsMap (db : DB) : Except DbErr (List MessageId) := .ok (db.messages.map (·.id))

def getDeletedSubscriptionSet (db : DB) : Except DbErr (List (String × RemoteId)) := .ok db.deletedSubs

/-- `(value, hasValue)`; row 0 always exists after migration v2 -/
def getConnectorSettings (db : DB) : Except DbErr (String × Bool) :=
  match db.settings with
  | some s => .ok (s, true)
  | none => .ok ("", false)

/-! ## db.Transaction -/

abbrev Tx (α : Type) := StateT DB (Except DbErr) α

def Tx.fail {α : Type} (e : DbErr) : Tx α := fun _ => .error e
def Tx.ofRead {α : Type} (f : DB → Except DbErr α) : Tx α := fun db => (f db).map fun a => (a, db)

/-- `INSERT INTO <flags table> (mailbox_id, value) VALUES (?, ?)` once per flag (prepared statement loop) -/
def insertFlagRows (tbl : List (MailboxId × FlagVal)) (mb : MailboxId) : List FlagVal → Except DbErr (List (MailboxId × FlagVal))
  | [] => .ok tbl
  | f :: fs => if tbl.contains (mb, f) then .error .unique else insertFlagRows (tbl ++ [(mb, f)]) mb fs

def createMailbox (rid : RemoteId) (name : String) (flags perm attrs : List FlagVal) (uidValidity : Nat) : Tx MboxRow := fun db => do
  -- INSERT INTO mailboxes_v2 (remote_id, name, uid_validity, subscribed) VALUES (?,?,?,true) RETURNING id
  if db.mailboxes.any (fun m => m.remoteId == rid || m.name == name) then throw .unique
  let id := db.mailboxSeq + 1
  let row : MboxRow := { id := id, remoteId := rid, name := name, uidValidity := uidValidity, subscribed := true }
  let db := { db with mailboxes := db.mailboxes ++ [row], mailboxSeq := id }
  -- CREATE TABLE mailbox_message_<id>
  if (db.table? id).isSome then throw .sql
  let db := { db with mtables := db.mtables ++ [(id, ({ rows := [], seq := 0 } : MTable))] }
  let f ← insertFlagRows db.mboxFlags id flags
  let p ← insertFlagRows db.mboxPermFlags id perm
  let a ← insertFlagRows db.mboxAttrs id attrs
  return (row, { db with mboxFlags := f, mboxPermFlags := p, mboxAttrs := a })

def getOrCreateMailbox (rid : RemoteId) (name : String) (flags perm attrs : List FlagVal) (uidValidity : Nat) : Tx MboxRow := fun db =>
  match getMailboxByRemoteID db rid with
  | .ok m => .ok (m, db)
  | .error .notFound => createMailbox rid name flags perm attrs uidValidity db
  | .error e => .error e

def getOrCreateMailboxAlt (rid : RemoteId) (name : List String) (delimiter : String) (flags perm attrs : List FlagVal)
    (uidValidity : Nat) : Tx MboxRow :=
  getOrCreateMailbox rid (delimiter.intercalate name) flags perm attrs uidValidity

def createMailboxIfNotExists (rid : RemoteId) (name : List String) (delimiter : String) (flags perm attrs : List FlagVal)
    (uidValidity : Nat) : Tx Unit := do
  let _ ← getOrCreateMailboxAlt rid name delimiter flags perm attrs uidValidity
  return ()

def renameMailboxWithRemoteID (rid : RemoteId) (name : String) : Tx Unit := fun db =>
  -- UPDATE mailboxes_v2 SET name = ? WHERE remote_id = ?
  match db.mailboxes.find? (·.remoteId == rid) with
  | none => .error .noChange
  | some m =>
    if db.mailboxes.any (fun o => o.id != m.id && o.name == name) then .error .unique
    else .ok ((), { db with mailboxes := db.mailboxes.map fun o => if o.remoteId == rid then { o with name := name } else o })

def addDeletedSubscription (name : String) (rid : RemoteId) : Tx Unit := fun db =>
  -- UPDATE deleted_subscriptions SET remote_id = ? WHERE name = ?
  if db.deletedSubs.any (·.1 == name) then
    if db.deletedSubs.any (fun s => s.1 != name && s.2 == rid) then .error .unique
    else .ok ((), { db with deletedSubs := db.deletedSubs.map fun s => if s.1 == name then (name, rid) else s })
  else
    -- count == 0: INSERT INTO deleted_subscriptions (name, remote_id) VALUES (?, ?)
    if db.deletedSubs.any (·.2 == rid) then .error .unique
    else .ok ((), { db with deletedSubs := db.deletedSubs ++ [(name, rid)] })

def removeDeletedSubscriptionWithName (name : String) : Tx Nat := fun db =>
  .ok ((db.deletedSubs.filter (·.1 == name)).length, { db with deletedSubs := db.deletedSubs.filter (·.1 != name) })

def deleteMailboxWithRemoteID (rid : RemoteId) : Tx Unit := fun db =>
  match getMailboxByRemoteID db rid with
  | .error .notFound => .ok ((), db)
  | .error e => .error e
  | .ok m => do
    let ((), db) ← (if m.subscribed then addDeletedSubscription m.name rid db else .ok ((), db))
    -- DROP TABLE mailbox_message_<id> (its sqlite_sequence row goes with it)
    let _ ← db.getTable m.id
    let db := { db with mtables := db.mtables.filter (·.1 != m.id) }
    -- DELETE FROM mailboxes_v2 WHERE remote_id = ?   (ON DELETE CASCADE: flags, perm flags, attrs, message_to_mailbox)
    return ((), { db with
      mailboxes := db.mailboxes.filter (·.remoteId != rid)
      mboxFlags := db.mboxFlags.filter (·.1 != m.id)
      mboxPermFlags := db.mboxPermFlags.filter (·.1 != m.id)
      mboxAttrs := db.mboxAttrs.filter (·.1 != m.id)
      m2m := db.m2m.filter (·.2 != m.id) })

/-! ### VALUES-list inserts (bound scalars are regrouped into tuples of the column count) -/

def pairs {α : Type} : List α → List (α × α)
  | a :: b :: rest => (a, b) :: pairs rest
  | _ => []

/-- bound values of a `(message_id, <text>)` VALUES list as typed tuples; `none` if a value of another
    kind was bound into one of these columns (no call-site shape the translator knows does that) -/
def decodeMsgStr : List (Bind × Bind) → Option (List (MessageId × String))
  | [] => some []
  | (.msg m, .str r) :: rest => (decodeMsgStr rest).map ((m, r) :: ·)
  | _ => none

def decodeMsgMbox : List (Bind × Bind) → Option (List (MessageId × MailboxId))
  | [] => some []
  | (.msg m, .mbox b) :: rest => (decodeMsgMbox rest).map ((m, b) :: ·)
  | _ => none

/-- rows appended to `mailbox_message_<id>` one after the other: fresh ascending UIDs (AUTOINCREMENT),
    `recent = true`, `deleted = false`; UNIQUE(message_id), UNIQUE(message_remote_id) -/
def appendRows (t : MTable) : List (MessageId × RemoteId) → Except DbErr MTable
  | [] => .ok t
  | (m, r) :: rest =>
    if t.rows.any (fun x => x.msgId == m || x.remoteId == r) then .error .unique
    else appendRows { rows := t.rows ++ [{ uid := t.seq + 1, deleted := false, recent := true, msgId := m, remoteId := r }], seq := t.seq + 1 } rest

/-- tuples appended to a relation whose PRIMARY KEY is the whole tuple (`INSERT` / `INSERT OR IGNORE`) -/
def appendKeys {α : Type} [BEq α] (orIgnore : Bool) (rel : List α) : List α → Except DbErr (List α)
  | [] => .ok rel
  | k :: rest =>
    if rel.contains k then (if orIgnore then appendKeys orIgnore rel rest else .error .unique)
    else appendKeys orIgnore (rel ++ [k]) rest

/-- `INSERT INTO mailbox_message_<mb> (message_id, message_remote_id) VALUES (?,?),…` -/
def insertMailboxRows (db : DB) (mb : MailboxId) (bound : List Bind) : Except DbErr DB := do
  let t ← db.getTable mb
  match decodeMsgStr (pairs bound) with
  | none => .error .unmodelled
  | some rows =>
    let t ← appendRows t rows
    -- FOREIGN KEY (message_id) REFERENCES messages_v2 (id), checked when the statement ends
    if rows.any (fun p => !db.hasMessage p.1) then .error .fk else .ok (db.setTable mb t)

/-- `INSERT INTO message_to_mailbox (message_id, mailbox_id) VALUES (?,?),…` -/
def insertM2M (db : DB) (bound : List Bind) : Except DbErr DB :=
  match decodeMsgMbox (pairs bound) with
  | none => .error .unmodelled
  | some rows => do
    let rel ← appendKeys false db.m2m rows
    if rows.any (fun p => !db.hasMessage p.1 || !db.hasMailbox p.2) then .error .fk else .ok { db with m2m := rel }

def addMessagesChunk (site : ChunkSite) (mb : MailboxId) (ids c : List (MessageId × RemoteId)) (db : DB) : Except DbErr DB := do
  let s0 := site.stmt 0
  let src ← pick s0 c ids
  let bound ← bindStmt s0 c ids [] (src.flatMap fun p => [.msg p.1, .str p.2])
  let db ← insertMailboxRows db mb bound
  let s1 := site.stmt 1
  let src ← pick s1 c ids
  let bound ← bindStmt s1 c ids [] (src.flatMap fun p => [.msg p.1, .mbox mb])
  insertM2M db bound

def addMessagesToMailbox (S : Sites) (mb : MailboxId) (ids : List (MessageId × RemoteId)) : Tx (List SnapRow) := fun db => do
  if ids.isEmpty then return ([], db)
  let site := S.site "AddMessagesToMailbox"
  let db ← forChunks (site.size S.limit) ids (addMessagesChunk site mb ids) db
  let r ← getMailboxMessageUIDsWithFlags S db mb (ids.map (·.1))
  return (r, db)

def removeMessagesChunk (site : ChunkSite) (mb : MailboxId) (ids c : List MessageId) (db : DB) : Except DbErr DB := do
  -- DELETE FROM mailbox_message_<mb> WHERE message_id IN (?…)
  let s0 := site.stmt 0
  let t ← db.getTable mb
  let src ← pick s0 c ids
  let bound ← bindStmt s0 c ids [] (src.map .msg)
  let db := db.setTable mb { t with rows := t.rows.filter fun r => !bound.contains (.msg r.msgId) }
  -- DELETE FROM message_to_mailbox WHERE message_id IN (?…) AND mailbox_id = ?
  let s1 := site.stmt 1
  let src ← pick s1 c ids
  let bound ← bindStmt s1 c ids [] (src.map .msg ++ [.mbox mb])
  let inList := bound.dropLast
  let last := bound.getLast?
  return { db with m2m := db.m2m.filter fun p => !(inList.contains (.msg p.1) && last == some (.mbox p.2)) }

def removeMessagesFromMailbox (S : Sites) (mb : MailboxId) (ids : List MessageId) : Tx Unit := fun db => do
  let site := S.site "RemoveMessagesFromMailbox"
  let db ← forChunks (site.size S.limit) ids (removeMessagesChunk site mb ids) db
  return ((), db)

def clearRecentFlagInMailboxOnMessage (mb : MailboxId) (m : MessageId) : Tx Unit := fun db => do
  let t ← db.getTable mb
  return ((), db.setTable mb { t with rows := t.rows.map fun r => if r.msgId == m then { r with recent := false } else r })

def clearRecentFlagsInMailbox (mb : MailboxId) : Tx Unit := fun db => do
  let t ← db.getTable mb
  return ((), db.setTable mb { t with rows := t.rows.map fun r => if r.recent then { r with recent := false } else r })

def setDeletedChunk (site : ChunkSite) (mb : MailboxId) (deleted : Bool) (ids c : List MessageId) (db : DB) : Except DbErr DB := do
  -- UPDATE mailbox_message_<mb> SET deleted = ? WHERE message_id IN (?…)
  let s0 := site.stmt 0
  let t ← db.getTable mb
  let src ← pick s0 c ids
  let bound ← bindStmt s0 c ids [] (.bool deleted :: src.map .msg)
  match bound with
  | .bool d :: inList =>
    return db.setTable mb { t with rows := t.rows.map fun r => if inList.contains (.msg r.msgId) then { r with deleted := d } else r }
  | _ => throw .unmodelled

def setMailboxMessagesDeletedFlag (S : Sites) (mb : MailboxId) (ids : List MessageId) (deleted : Bool) : Tx Unit := fun db => do
  let site := S.site "SetMailboxMessagesDeletedFlag"
  let db ← forChunks (site.size S.limit) ids (setDeletedChunk site mb deleted ids) db
  return ((), db)

def setMailboxSubscribed (mb : MailboxId) (subscribed : Bool) : Tx Unit := fun db =>
  .ok ((), { db with mailboxes := db.mailboxes.map fun m => if m.id == mb then { m with subscribed := subscribed } else m })

def updateRemoteMailboxID (mb : MailboxId) (rid : RemoteId) : Tx Unit := fun db =>
  if !db.hasMailbox mb then .error .noChange
  else if db.mailboxes.any (fun o => o.id != mb && o.remoteId == rid) then .error .unique
  else .ok ((), { db with mailboxes := db.mailboxes.map fun m => if m.id == mb then { m with remoteId := rid } else m })

def setMailboxUIDValidity (mb : MailboxId) (v : Nat) : Tx Unit := fun db =>
  if !db.hasMailbox mb then .error .noChange
  else .ok ((), { db with mailboxes := db.mailboxes.map fun m => if m.id == mb then { m with uidValidity := v } else m })

/-- `INSERT OR IGNORE INTO <tbl> (mailbox_id, value) SELECT id, value FROM mailboxes_v2 CROSS JOIN (VALUES ('f'),…)`;
    the flags are spliced into the SQL text: an empty list is a syntax error. -/
def addFlagsToAll (tbl : List (MailboxId × FlagVal)) (mailboxes : List MboxRow) (flags : List FlagVal) : Except DbErr (List (MailboxId × FlagVal)) :=
  if flags.isEmpty then .error .sql
  else .ok ((mailboxes.flatMap fun m => flags.map fun f => (m.id, f)).foldl
    (fun tbl p => if tbl.contains p then tbl else tbl ++ [p]) tbl)

def addFlagsToAllMailboxes (flags : List FlagVal) : Tx Unit := fun db => do
  let t ← addFlagsToAll db.mboxFlags db.mailboxes flags
  return ((), { db with mboxFlags := t })

def addPermFlagsToAllMailboxes (flags : List FlagVal) : Tx Unit := fun db => do
  let t ← addFlagsToAll db.mboxPermFlags db.mailboxes flags
  return ((), { db with mboxPermFlags := t })

/-- `db.CreateMessageReq` -/
structure CreateReq where
  id : MessageId
  remoteId : RemoteId
  date : Nat
  size : Nat
  body : String
  bodyStructure : String
  envelope : String
  flags : List FlagVal
deriving DecidableEq, Repr, Inhabited

def sevens : List Bind → List MsgRow
  | .msg i :: .str r :: .nat d :: .nat s :: .str b :: .str st :: .str e :: rest =>
    { id := i, remoteId := r, date := d, size := s, body := b, bodyStructure := st, envelope := e, deleted := false } :: sevens rest
  | _ => []

/-- message rows appended one after the other; PRIMARY KEY(id), UNIQUE(remote_id) -/
def appendMessages (ms : List MsgRow) : List MsgRow → Except DbErr (List MsgRow)
  | [] => .ok ms
  | r :: rest =>
    if ms.any (fun x => x.id == r.id || x.remoteId == r.remoteId) then .error .unique
    else appendMessages (ms ++ [r]) rest

/-- `INSERT INTO messages_v2 (id, remote_id, date, size, body, body_structure, envelope) VALUES (?,?,?,?,?,?,?),…` -/
def insertMessages (db : DB) (bound : List Bind) : Except DbErr DB :=
  if (sevens bound).length * 7 != bound.length then .error .unmodelled
  else (appendMessages db.messages (sevens bound)).map fun msgs => { db with messages := msgs }

/-- `INSERT [OR IGNORE] INTO message_flags_v2 (message_id, value) VALUES (?,?),…` -/
def insertMsgFlags (orIgnore : Bool) (db : DB) (bound : List Bind) : Except DbErr DB :=
  match decodeMsgStr (pairs bound) with
  | none => .error .unmodelled
  | some rows => do
    let rel ← appendKeys orIgnore db.msgFlags rows
    -- FOREIGN KEY (message_id) REFERENCES messages_v2 (id)
    if rows.any (fun p => !db.hasMessage p.1) then .error .fk else .ok { db with msgFlags := rel }

def createFlagsChunk (inner : ChunkSite) (flagArgs fc : List Bind) (db : DB) : Except DbErr DB := do
  let s := inner.stmt 0
  let src ← pick s fc flagArgs
  let bound ← bindStmt s fc flagArgs [] src
  insertMsgFlags false db bound

def reqArgs (r : CreateReq) : List Bind :=
  [.msg r.id, .str r.remoteId, .nat r.date, .nat r.size, .str r.body, .str r.bodyStructure, .str r.envelope]

def createMessagesChunk (site inner : ChunkSite) (limit : Nat) (reqs c : List CreateReq) (db : DB) : Except DbErr DB := do
  let s0 := site.stmt 0
  let src ← pick s0 c reqs
  let args := src.flatMap reqArgs
  -- `flagArgs` is always built from the chunk of this iteration
  let flagArgs : List Bind := c.flatMap fun r => r.flags.flatMap fun f => [.msg r.id, .str f]
  let bound ← bindStmt s0 c reqs [] args
  let db ← insertMessages db bound
  forChunks (inner.size limit) flagArgs (createFlagsChunk inner flagArgs) db

def createMessages (S : Sites) (reqs : List CreateReq) : Tx Unit := fun db => do
  let site := S.site "CreateMessages"
  let inner := S.site "CreateMessages.flagArgs"
  let db ← forChunks (site.size S.limit) reqs (createMessagesChunk site inner S.limit reqs) db
  return ((), db)

def createMessageAndAddToMailbox (mb : MailboxId) (r : CreateReq) : Tx (Nat × List FlagVal) := fun db => do
  let db ← insertMessages db (reqArgs r)
  let db ← (if r.flags.isEmpty then pure db else insertMsgFlags false db (r.flags.flatMap fun f => [.msg r.id, .str f]))
  let db ← insertM2M db [.msg r.id, .mbox mb]
  let db ← insertMailboxRows db mb [.msg r.id, .str r.remoteId]
  let t ← db.getTable mb
  -- RETURNING uid; flags := req.Message.Flags.Add(\Recent)
  return ((t.seq, r.flags ++ ["\\Recent"]), db)

def markMessageAsDeleted (m : MessageId) : Tx Unit := fun db =>
  .ok ((), { db with messages := db.messages.map fun r => if r.id == m then { r with deleted := true } else r })

/-- `rnd` = the `DELETED-<uuid>` string the code makes up (an input of the model) -/
def markMessageAsDeletedAndAssignRandomRemoteID (m : MessageId) (rnd : RemoteId) : Tx Unit := fun db =>
  if db.hasMessage m && db.messages.any (fun o => o.id != m && o.remoteId == rnd) then .error .unique
  else .ok ((), { db with messages := db.messages.map fun r => if r.id == m then { r with deleted := true, remoteId := rnd } else r })

def markMessageAsDeletedWithRemoteID (rid : RemoteId) : Tx Unit := fun db =>
  .ok ((), { db with messages := db.messages.map fun r => if r.remoteId == rid then { r with deleted := true } else r })

def deleteMessagesChunk (site : ChunkSite) (ids c : List MessageId) (db : DB) : Except DbErr DB := do
  -- DELETE FROM messages_v2 WHERE id IN (?…)
  let s0 := site.stmt 0
  let src ← pick s0 c ids
  let bound ← bindStmt s0 c ids [] (src.map .msg)
  let gone := (db.messages.filter fun r => bound.contains (.msg r.id)).map (·.id)
  -- mailbox_message_<id>.message_id … ON DELETE SET NULL into a NOT NULL column
  if db.mtables.any (fun p => p.2.rows.any fun r => gone.contains r.msgId) then .error .notNull
  -- ON DELETE CASCADE: message_flags_v2, message_to_mailbox
  else .ok { db with
    messages := db.messages.filter fun r => !gone.contains r.id
    msgFlags := db.msgFlags.filter fun p => !gone.contains p.1
    m2m := db.m2m.filter fun p => !gone.contains p.1 }

def deleteMessages (S : Sites) (ids : List MessageId) : Tx Unit := fun db => do
  let site := S.site "DeleteMessages"
  let db ← forChunks (site.size S.limit) ids (deleteMessagesChunk site ids) db
  return ((), db)

def updateRemoteMessageID (sqlOk : Bool) (m : MessageId) (rid : RemoteId) : Tx Unit := fun db =>
  if !sqlOk then .error .sql
  else if !db.hasMessage m then .error .noChange
  else if db.messages.any (fun o => o.id != m && o.remoteId == rid) then .error .unique
  else .ok ((), { db with messages := db.messages.map fun r => if r.id == m then { r with remoteId := rid } else r })

def addFlagChunk (site : ChunkSite) (flag : FlagVal) (ids c : List MessageId) (db : DB) : Except DbErr DB := do
  let s0 := site.stmt 0
  let src ← pick s0 c ids
  let bound ← bindStmt s0 c ids [] (src.flatMap fun m => [.msg m, .str flag])
  insertMsgFlags true db bound

def addFlagToMessages (S : Sites) (ids : List MessageId) (flag : FlagVal) : Tx Unit := fun db => do
  let site := S.site "AddFlagToMessages"
  let db ← forChunks (site.size S.limit) ids (addFlagChunk site flag ids) db
  return ((), db)

/-- `value = ? COLLATE NOCASE`: SQLite's NOCASE folds the 26 ASCII upper-case letters only, which is what
    `String.toLower` (`Char.toLower`) does.  A bound value that is not a string never matches. -/
def nocaseEq (bound : Option Bind) (value : String) : Bool :=
  match bound with
  | some (.str f) => value.toLower == f.toLower
  | _ => false

def removeFlagChunk (site : ChunkSite) (flag : FlagVal) (ids c : List MessageId) (db : DB) : Except DbErr DB := do
  -- DELETE FROM message_flags_v2 WHERE message_id IN (?…) AND value = ? COLLATE NOCASE
  -- (since /repo 45f4598: every spelling of the flag is removed; before, `value = ?` removed the exact spelling only)
  let s0 := site.stmt 0
  let src ← pick s0 c ids
  let bound ← bindStmt s0 c ids [] (src.map .msg ++ [.str flag])
  let inList := bound.dropLast
  let last := bound.getLast?
  return { db with msgFlags := db.msgFlags.filter fun p => !(inList.contains (.msg p.1) && nocaseEq last p.2) }

def removeFlagFromMessages (S : Sites) (ids : List MessageId) (flag : FlagVal) : Tx Unit := fun db => do
  let site := S.site "RemoveFlagFromMessages"
  let db ← forChunks (site.size S.limit) ids (removeFlagChunk site flag ids) db
  return ((), db)

def setFlagsChunk (site : ChunkSite) (flags : List FlagVal) (ids c : List MessageId) (db : DB) : Except DbErr DB := do
  let extra := [("flagSlice", flags.length)]
  -- DELETE FROM message_flags_v2 WHERE message_id IN (?…) AND value NOT IN (?…)
  let s0 := site.stmt 0
  let src ← pick s0 c ids
  let bound ← bindStmt s0 c ids extra (src.map .msg ++ flags.map .str)
  let nIds := bound.length - flags.length
  let inList := bound.take nIds
  let keep := bound.drop nIds
  let db := { db with msgFlags := db.msgFlags.filter fun p => !(inList.contains (.msg p.1) && !keep.contains (.str p.2)) }
  -- INSERT OR IGNORE INTO message_flags_v2 (message_id, value) VALUES (?,?),…
  let s1 := site.stmt 1
  let src ← pick s1 c ids
  let bound ← bindStmt s1 c ids extra (src.flatMap fun m => flags.flatMap fun f => [.msg m, .str f])
  insertMsgFlags true db bound

def setFlagsOnMessages (S : Sites) (ids : List MessageId) (flags : List FlagVal) : Tx Unit := fun db => do
  -- flagsSQLIn := utils.GenSQLIn(len(flagSlice)) panics for an empty set, before the loop
  if flags.isEmpty then throw .panic
  let site := S.site "SetFlagsOnMessages"
  let db ← forChunks (site.size S.limit) ids (setFlagsChunk site flags ids) db
  return ((), db)

def storeConnectorSettings (s : String) : Tx Unit := fun db => .ok ((), { db with settings := some s })

/-! ## what the call-site facts look like on a tree where chunking is transparent

`Theorems/C08.lean` proves `model operation = un-chunked meaning` for every `Sites` table whose
entry for the operation is `good`; `Theorems/C08Chunk.lean` decides `good` for the regenerated
table.  The shapes below are the idioms of write_ops.go / read_ops.go with the bind arguments
taken from the chunk. -/

namespace Shape
/-- `… IN (GenSQLIn(len(chunk)))` with `MapSliceToAny(chunk)...` -/
def inList : ChunkStmt := ⟨[⟨1, ["chunk"]⟩], .chunk, [⟨1, ["chunk"]⟩]⟩
/-- the same plus one scalar placeholder/argument (`… AND x = ?`, `SET deleted = ?`) -/
def inList1 : ChunkStmt := ⟨[⟨1, []⟩, ⟨1, ["chunk"]⟩], .chunk, [⟨1, []⟩, ⟨1, ["chunk"]⟩]⟩
/-- `VALUES Repeat("(?,…)", len(chunk))` with k arguments appended per chunk element -/
def tuples (k : Nat) : ChunkStmt := ⟨[⟨k, ["chunk"]⟩], .chunk, [⟨k, ["chunk"]⟩]⟩
/-- `VALUES Repeat("(?,?)", len(chunk)/2)` with `chunk...` over a flat list of pairs -/
def flatPairs : ChunkStmt := ⟨[⟨2, ["chunk/2"]⟩], .chunk, [⟨1, ["chunk"]⟩]⟩
/-- SetFlagsOnMessages, DELETE: `IN (len(chunk)) AND value NOT IN (len(flagSlice))` -/
def setFlagsDelete : ChunkStmt :=
  ⟨[⟨1, ["chunk"]⟩, ⟨1, ["flagSlice"]⟩], .chunk, [⟨1, ["chunk"]⟩, ⟨1, ["flagSlice"]⟩]⟩
/-- SetFlagsOnMessages, INSERT: one `(?,?)` per message of the chunk and flag -/
def setFlagsInsert : ChunkStmt := ⟨[⟨2, ["chunk", "flagSlice"]⟩], .chunk, [⟨2, ["chunk", "flagSlice"]⟩]⟩
end Shape

/-- statements of the chunk loop of Go function `fn` on a tree where placeholders and bind
    arguments come from the same chunk -/
def expectedStmts : String → List ChunkStmt
  | "MailboxTranslateRemoteIDs" => [Shape.inList]
  | "MailboxFilterContainsInternalID" => [Shape.inList]
  | "GetMailboxMessageUIDsWithFlagsAfterAddOrUIDBump" => [Shape.inList]
  | "GetMessagesFlags" => [Shape.inList]
  | "AddMessagesToMailbox" => [Shape.tuples 2, Shape.tuples 2]
  | "RemoveMessagesFromMailbox" => [Shape.inList, Shape.inList1]
  | "SetMailboxMessagesDeletedFlag" => [Shape.inList1]
  | "CreateMessages" => [Shape.tuples 7]
  | "CreateMessages.flagArgs" => [Shape.flatPairs]
  | "DeleteMessages" => [Shape.inList]
  | "AddFlagToMessages" => [Shape.tuples 2]
  | "RemoveFlagFromMessages" => [Shape.inList1]
  | "SetFlagsOnMessages" => [Shape.setFlagsDelete, Shape.setFlagsInsert]
  | _ => []

def expectedStride : String → Nat
  | "CreateMessages.flagArgs" => 2
  | _ => 1

/-- the chunk loops this model has an operation for -/
def modelledSites : List String :=
  ["MailboxTranslateRemoteIDs", "MailboxFilterContainsInternalID", "GetMailboxMessageUIDsWithFlagsAfterAddOrUIDBump",
   "GetMessagesFlags", "AddMessagesToMailbox", "RemoveMessagesFromMailbox", "SetMailboxMessagesDeletedFlag",
   "CreateMessages", "CreateMessages.flagArgs", "DeleteMessages", "AddFlagToMessages", "RemoveFlagFromMessages",
   "SetFlagsOnMessages"]

/-- The per-call-site precondition of `chunk_faithful`: positive chunk size (a multiple of the stride)
    and exactly the expected statements. -/
def Sites.good (S : Sites) (fn : String) : Bool :=
  let s := S.site fn
  decide (0 < s.size S.limit) && s.stride == expectedStride fn && s.size S.limit % expectedStride fn == 0 &&
  s.stmts == expectedStmts fn

/-! ## transactions -/

/-- `Client.Write` (`wrapTx`): run on a copy, commit on success, discard on error. -/
def write {α : Type} (f : Tx α) (db : DB) : Except DbErr α × DB :=
  match f db with
  | .ok (a, db') => (.ok a, db')
  | .error e => (.error e, db)

/-- `Client.Read`: no effect on the state. -/
def read {α : Type} (f : DB → Except DbErr α) (db : DB) : Except DbErr α × DB := (f db, db)

end Gluon.DB
