/-
M-SESSIONLOOP (C11): the command loop of one IMAP session, on top of the parser model.

Two goroutines of `internal/session` and the channel between them:

* the READER, `startCommandReader` (command.go): `for { Parse(); … }` on one parser over the connection.
  A `*rfcparser.Error` that is not `IsEOF()` → `ConsumeInvalidInput()` (skip to the next LF), TLS record
  header sniffing on the bytes read in this iteration, then the (failed) result goes to `serve`; any
  other error, an `IsEOF()` error or a failing `ConsumeInvalidInput` make the reader return, which closes
  the channel and thereby the session. STARTTLS is answered by the reader itself.
* SERVE (session.go `serve`): per result either `BAD <res.command.Tag>` and `errorCount++` (closing at
  `maxSessionError`), or `errorCount = 0`, the invalid-state check (`* BYE`, close), and LOGOUT / IDLE /
  everything else (`handleOther`: the command handlers, abstracted here to "exactly one tagged completion").

Input = the whole byte stream one client sends. Output = per reader result ("line") the completion
results written for it (`tag` as written on the wire, class OK / NO / BAD / BYE) and how the session ends.
The reader does not depend on `serve` (unbuffered channel: it is at most one line ahead), so the model is
`serveAll ∘ readAll`.

What is modelled as the code IS, including what is (or was) wrong with it; each behaviour that a repair changed
is a `Cfg` flag derived from the regenerated facts, so the model follows the source:
* `Cfg.lateErrDropsTag`: `Parse` returned `Command{}` for errors at the final CR / LF, so the BAD for `a NOOP x`
  carried an EMPTY tag (repaired by /repo d36bee1: `Command{Tag: result.Tag}`; the flag is `false` now);
* `Cfg.emptyTagIsStar`: `response.Bad("")` / `response.No("")` kept the empty string as tag (` BAD …`, a line
  starting with a space); since /repo 6e0070e an empty tag argument yields the untagged `* BAD` / `* NO`
  (`response.Ok` is unchanged, but no OK is ever written for a line without a tag: DONE outside IDLE is refused);
* `Cfg.starttlsNoTLSDrops`: STARTTLS without TLS configuration returned the NO response as an `error` instead of
  sending it and the connection was dropped (`ReaderExit.starttlsNoTLS`); since /repo d270f6a it is answered
  `<tag> NO` by the reader, which carries on (`ReadRes.tlsNo`);
* STILL in the code (known finding `cause=first-line-bad-tag-drops`): `MakeError` reports the PREVIOUS token; before
  the first line that is the zero token, whose type is EOF: a first line that starts with a byte that cannot
  start a tag is taken for end of input and the connection is dropped without a reply
  (`ReaderExit.eofTokenDrop`);
* IDLE (authenticated) consumes exactly ONE further line: DONE → OK, any other command → BAD, a parse error
  → NO, all tagged with the IDLE's tag; the error counter is not touched by that line (since /repo 072b3ea the
  OK / BAD is recorded and sent after the IDLE sender goroutine has written out what it had buffered; which
  completion is written for which line is unchanged);
* STILL in the code (`cause=bare-lf-swallows-next-line`): a failed `Parse` that stops with the line's own LF as
  look-ahead (a line ended by a bare LF) is followed by `ConsumeInvalidInput`, which skips the NEXT line: that
  line is never answered (`Parse.consumeInvalidInput`, `skipStopsAtLookaheadLF`);
* DONE outside IDLE reaches `handleCommand`'s `default:` ("bad command"): NO.

Not modelled: state updates arriving between commands (only through `Backend.invalid`), write errors on
the connection, context cancellation, the TLS handshake after a successful STARTTLS (the stream ends there:
`ReaderExit.tlsStarted`), `state.Idle` failing to start, response text.
-/
import GluonModel.Model.Parse.Grammar

namespace Gluon.SessionLoop
open Gluon.Parse

/-! ### completions -/

/-- class of a completion result -/
inductive Cls
  | ok | no | bad | bye
  deriving DecidableEq, Repr, Inhabited

/-- one completion result as written on the wire: `<tag> SP <class> …`. `tag` is the literal first word:
`*` for the untagged BYE, possibly EMPTY (the Go code writes `response.Bad("")`). -/
structure Completion where
  tag : Bytes
  cls : Cls
  deriving DecidableEq, Repr, Inhabited

/-- the untagged marker `*` -/
def star : Bytes := [42]

/-! ### configuration (constants and shapes regenerated from the source: `Model/SessionLoopFacts.lean`) -/

structure Cfg where
  /-- `const maxSessionError` -/
  maxErr : Nat
  /-- `s.tlsConfig != nil` -/
  tls : Bool
  /-- `tlsHeaders` of `startCommandReader` -/
  tlsHeaders : List Bytes
  /-- `serve`: `} else { s.errorCount = 0 }` on a successfully parsed command -/
  resetOnSuccess : Bool
  /-- `Parser.Parse` returns `Command{}` (empty tag) for an error at the final CR / LF -/
  lateErrDropsTag : Bool
  /-- `handleStartTLS` without TLS configuration returns its NO response as an error (unsent) and the
  reader returns; `false` = it sends `<tag> NO` and the reader goes on -/
  starttlsNoTLSDrops : Bool
  /-- `response.Bad(tag)` / `response.No(tag)` with an empty `tag` write the untagged form `*` -/
  emptyTagIsStar : Bool
  deriving Repr

/-! ### the reader goroutine -/

/-- what the reader hands to `serve` (`commandResult`), or answers itself -/
inductive ReadRes
  /-- `commandResult{command: cmd, err: err}` with `err != nil`: `tag` is `cmd.Tag` -/
  | err (tag : Bytes)
  /-- a parsed command -/
  | cmd (c : Command)
  /-- STARTTLS with a TLS configuration: the reader itself has written `<tag> OK Begin TLS negotiation now` -/
  | tlsOk (tag : Bytes)
  /-- STARTTLS without a TLS configuration, answered by the reader with `<tag> NO` (`Cfg.starttlsNoTLSDrops = false`) -/
  | tlsNo (tag : Bytes)

/-- one iteration of the reader loop that produced a result: the bytes it read and the result -/
structure Line where
  bytes : Bytes
  res : ReadRes

/-- why the reader goroutine returned (closing `cmdCh`, hence the session) -/
inductive ReaderExit
  /-- the input is exhausted (the client went away, or has sent nothing more): `boundary` = nothing of a
  further line had been read -/
  | eof (boundary : Bool)
  /-- `io.EOF` inside a literal: the input ended before the announced number of bytes -/
  | literalEOF
  /-- `parserError.IsEOF()` although input is left: the error's token is the previous token, which before
  the first line is the zero token of type EOF — the connection is dropped without a reply -/
  | eofTokenDrop
  /-- the bytes of the failed line start with a TLS record header: "TLS Handshake detected" -/
  | tlsHandshake
  /-- STARTTLS without TLS configuration: `handleStartTLS` returns an error, nothing is written -/
  | starttlsNoTLS
  /-- STARTTLS accepted: what follows on the connection is the TLS handshake (not modelled) -/
  | tlsStarted
  /-- the parser ran out of fuel (a loop that does not stop): `Gluon.C11.reader_never_hangs` -/
  | hang
  /-- a Go runtime panic in the parser: `Gluon.C11.reader_never_panics` -/
  | panic
  /-- the iteration budget of `readAll` was too small: `Gluon.C11.reader_terminates` -/
  | outOfFuel
  deriving DecidableEq, Repr, Inhabited

/-- the bytes the scanner took from the source between two parser states (`inputCollector.Bytes()`) -/
def consumedBytes (before after : PState) : Bytes :=
  before.rest.take (before.rest.length - after.rest.length)

/-- `res.command.Tag` of a failed `Parse()` started on state `s`: the tag once `parseTag` succeeded and the
tag is not DONE — except that errors at the final CR / LF return `Command{}` -/
def errTag (cfg : Cfg) (fuel : Nat) (s : PState) : Bytes :=
  match (advance >>= fun _ => parseTag fuel) s with
  | .ok tag s1 =>
    if lowerBytes tag = kw "done" then []
    else if cfg.lateErrDropsTag then
      match (consume .sp >>= fun _ => parseCommand fuel) s1 with
      | .ok _ _ => []   -- the command itself parsed: the error is `expected CR` / `expected LF after CR`
      | _ => tag
    else tag
  | _ => []

inductive ReadStep
  | line (l : Line) (s : PState)
  | exit (e : ReaderExit)

/-- one iteration of `for { … }` in `startCommandReader` -/
def readStep (cfg : Cfg) (fuel : Nat) (s : PState) : ReadStep :=
  match parseLine fuel s with
  | .fuel => .exit .hang
  | .err .panic _ => .exit .panic
  | .err .ioEOF _ => .exit .literalEOF            -- `!errors.As(err, &parserError)`
  | .err (.parse t) s1 =>
    if t = .eof then                                -- `parserError.IsEOF()`
      .exit (if s1.cur.ty = .eof then .eof s.rest.isEmpty else .eofTokenDrop)
    else
      match consumeInvalidInput s1 with
      | (_, false) => .exit (.eof s.rest.isEmpty)   -- `ConsumeInvalidInput` failed: `io.EOF`
      | (s2, true) =>
        let bytes := consumedBytes s s2
        if cfg.tlsHeaders.any (fun h => h.isPrefixOf bytes) then .exit .tlsHandshake
        else .line ⟨bytes, .err (errTag cfg fuel s)⟩ s2
  | .ok c s1 =>
    match c.payload with
    | .starttls =>
      if cfg.tls then .line ⟨consumedBytes s s1, .tlsOk c.tag⟩ s1
      else if cfg.starttlsNoTLSDrops then .exit .starttlsNoTLS
      else .line ⟨consumedBytes s s1, .tlsNo c.tag⟩ s1
    | _ => .line ⟨consumedBytes s s1, .cmd c⟩ s1

/-- the reader loop: at most `n` iterations; `fuel` is the parser's loop fuel -/
def readAll (cfg : Cfg) (fuel : Nat) : Nat → PState → List Line × ReaderExit
  | 0, _ => ([], .outOfFuel)
  | n + 1, s =>
    match readStep cfg fuel s with
    | .exit e => ([], e)
    | .line l s' =>
      match l.res with
      | .tlsOk _ => ([l], .tlsStarted)
      | _ =>
        let r := readAll cfg fuel n s'
        (l :: r.1, r.2)

/-! ### serve -/

/-- outcome class of a command handler: exactly one tagged completion, OK, NO or BAD -/
inductive Exec
  | ok | no | bad
  deriving DecidableEq, Repr, Inhabited

def Exec.toCls : Exec → Cls
  | .ok => .ok | .no => .no | .bad => .bad

/-- the command handlers and everything behind them (state, database, connector), abstracted: a state
machine that only handled commands drive. `authed` is `s.state != nil`, `invalid` is
`!s.state.IsValid()`. -/
structure Backend (σ : Type) where
  exec : σ → Command → Exec × σ
  authed : σ → Bool
  invalid : σ → Bool

inductive Mode
  | normal
  /-- inside `handleIdle`, waiting for the next reader result; `tag` is the IDLE's tag -/
  | idle (tag : Bytes)
  deriving DecidableEq, Repr, Inhabited

structure SState (σ : Type) where
  /-- `s.errorCount` -/
  errs : Nat
  mode : Mode
  bk : σ

/-- why `serve` returned on its own (closing the connection) -/
inductive Why
  /-- `s.errorCount >= maxSessionError` -/
  | tooManyErrors
  | logout
  /-- `!s.state.IsValid()`: `* BYE` -/
  | invalidState
  deriving DecidableEq, Repr, Inhabited

inductive Next (σ : Type)
  | cont (st : SState σ)
  | stop (w : Why)

/-- the first word `response.Bad(tag)` / `response.No(tag)` write -/
def wireTag (cfg : Cfg) (tag : Bytes) : Bytes := if cfg.emptyTagIsStar && tag.isEmpty then star else tag

/-- the completion `response.Ok(tag)` / `response.No(tag)` / `response.Bad(tag)` puts on the wire -/
def mkC (cfg : Cfg) (tag : Bytes) (cls : Cls) : Completion :=
  match cls with
  | .no => ⟨wireTag cfg tag, .no⟩
  | .bad => ⟨wireTag cfg tag, .bad⟩
  | c => ⟨tag, c⟩

/-- `serve`'s reaction to one reader result: the completions written, and whether it goes on -/
def serveStep (cfg : Cfg) (B : Backend σ) (st : SState σ) (r : ReadRes) : List Completion × Next σ :=
  match r with
  | .tlsOk tag => ([mkC cfg tag .ok], .cont st)
  | .tlsNo tag => ([mkC cfg tag .no], .cont st)
  | .err tag =>
    match st.mode with
    | .idle it => ([mkC cfg it .no], .cont { st with mode := .normal })      -- `handleIdle` returns `res.err`
    | .normal =>
      let e := st.errs + 1
      ([mkC cfg tag .bad], if e ≥ cfg.maxErr then .stop .tooManyErrors else .cont { st with errs := e })
  | .cmd c =>
    match st.mode with
    | .idle it =>
      ([mkC cfg it (match c.payload with | .done => .ok | _ => .bad)], .cont { st with mode := .normal })
    | .normal =>
      let st := if cfg.resetOnSuccess then { st with errs := 0 } else st
      if B.authed st.bk && B.invalid st.bk then ([⟨star, .bye⟩], .stop .invalidState)
      else
        match c.payload with
        | .logout => ([mkC cfg c.tag .ok], .stop .logout)
        | .idle =>
          if B.authed st.bk then ([], .cont { st with mode := .idle c.tag })
          else ([mkC cfg c.tag .no], .cont st)                              -- `ErrNotAuthenticated`
        | .done => ([mkC cfg c.tag .no], .cont st)                          -- `handleCommand` default: "bad command"
        | _ =>
          let r := B.exec st.bk c
          ([mkC cfg c.tag r.1.toCls], .cont { st with bk := r.2 })

/-- how the session ends -/
inductive End
  /-- the reader returned (after `serve` had answered everything it was handed) -/
  | reader (e : ReaderExit)
  /-- `serve` returned on its own -/
  | closed (w : Why)
  deriving DecidableEq, Repr, Inhabited

/-- `serve` over the reader's results: per result the completions written for it -/
def serveAll (cfg : Cfg) (B : Backend σ) : SState σ → List ReadRes → ReaderExit → List (List Completion) × End
  | _, [], e => ([], .reader e)
  | st, r :: rs, e =>
    match serveStep cfg B st r with
    | (out, .stop w) => ([out], .closed w)
    | (out, .cont st') =>
      let x := serveAll cfg B st' rs e
      (out :: x.1, x.2)

/-! ### the session -/

structure Result where
  /-- the lines the reader produced -/
  lines : List Line
  /-- per line `serve` got to, the completions written for it -/
  replies : List (List Completion)
  fin : End

/-- all completion results, in the order written -/
def Result.out (r : Result) : List Completion := r.replies.flatten

def SState.init (b : σ) : SState σ := ⟨0, .normal, b⟩

/-- parser fuel and iteration budget the model uses for a stream: both linear in its length -/
def iterFor (input : Bytes) : Nat := input.length + 1

/-- one session: the client sends `input` (and then nothing more / goes away) -/
def run (cfg : Cfg) (B : Backend σ) (b0 : σ) (input : Bytes) : Result :=
  let r := readAll cfg (fuelFor input) (iterFor input) (PState.init input)
  let x := serveAll cfg B (SState.init b0) (r.1.map (·.res)) r.2
  ⟨r.1, x.1, x.2⟩

/-! ### reference notions the property speaks about -/

/-- a byte that can be part of a tag (`isTagChar` on the token of the byte) -/
def isTagByte (b : UInt8) : Bool := isTagChar (tokTy b)

/-- the tag of a line, read off its bytes: the longest prefix of tag characters, if there is one and it is
not the word DONE (which has no tag) -/
def lineTag (line : Bytes) : Option Bytes :=
  let t := line.takeWhile isTagByte
  if t.isEmpty || lowerBytes t = kw "done" then none else some t

/-- number of CRLF pairs in a byte string (`prevCR`: the byte before the list is a CR): the number of complete
lines of a stream in which no literal is announced -/
def crlfCountAux (prevCR : Bool) : Bytes → Nat
  | [] => 0
  | x :: r => if x = 10 then (if prevCR then 1 else 0) + crlfCountAux false r else crlfCountAux (x == 13) r

def crlfCount (l : Bytes) : Nat := crlfCountAux false l

/-- every LF has a CR right before it (`prevCR`: the byte before the list is a CR) -/
def lfOkAux (prevCR : Bool) : Bytes → Bool
  | [] => true
  | x :: r => if x = 10 then prevCR && lfOkAux false r else lfOkAux (x == 13) r

/-- no bare LF: every LF of the stream is the second half of a CRLF -/
def lfOk (l : Bytes) : Bool := lfOkAux false l

/-- a backend that answers everything with OK and is never authenticated (for examples and witnesses) -/
def okBackend : Backend Unit := ⟨fun _ _ => (.ok, ()), fun _ => false, fun _ => false⟩

/-- a backend that is authenticated from the start and answers everything with OK -/
def authedBackend : Backend Unit := ⟨fun _ _ => (.ok, ()), fun _ => true, fun _ => false⟩

end Gluon.SessionLoop
