/-
M-NS-SUBS: the names-level model of Model/Namespace.lean extended for the wire-level oracle of C14
(`vh oracle c14namespace`) by what that model leaves out:

* the `subscribed` column and the `deleted_subscriptions` table (SUBSCRIBE, UNSUBSCRIBE, LSUB,
  subscriptions that outlive DELETE),
* remote ids (`mailboxes.remote_id`, UNIQUE) — needed because connector updates address mailboxes by
  remote id and because `State.List` drops a deleted subscription whose remote id is in use again,
* the connector's mailbox updates `MailboxCreated` / `MailboxDeleted` / `MailboxUpdated`
  (internal/backend/connector_updates.go applyMailboxCreated / applyMailboxDeleted / applyMailboxUpdated).

Statement by statement from: internal/session/handle_{create,delete,rename,sub,unsub}.go,
internal/state/state.go (Create, Delete, Rename, renameInbox, Subscribe, Unsubscribe, List),
internal/db_impl/sqlite3/write_ops.go (CreateMailbox: `subscribed = true`; DeleteMailboxWithRemoteID;
AddDeletedSubscription: UPDATE by name, else INSERT; RemoveDeletedSubscriptionWithName;
RenameMailboxWithRemoteID), v0/tables.go (UNIQUE indexes on mailboxes.name, mailboxes.remote_id,
deleted_subscriptions.name, deleted_subscriptions.remote_id).  Core Lean only.

Abstractions: as Model/Namespace.lean (one delimiter character, a connector that accepts every request,
no mailbox-count limit; the only messages are the marker messages the oracle APPENDs, counted per
row (`msgs`): they follow the row through RENAME (the row keeps its ids), vanish with DELETE, and
RENAME INBOX moves them to the new mailbox; the recovery mailbox never receives one and stays hidden).  The remote id the dummy
connector invents for a mailbox created by an IMAP command (a UUID) is the abstract `i<k>` for the
k-th such mailbox.  The connector's queued echo of an IMAP command is applied before the next
command (the oracle flushes after every step), where it is a no-op.
-/
import GluonModel.Model.Namespace

namespace Gluon.NSS
open Gluon.Match Gluon.NS

structure Row where
  rid : String
  name : Name
  sub : Bool
  msgs : Nat := 0                     -- messages in the mailbox (STATUS … (MESSAGES))
deriving DecidableEq, Repr

structure St where
  rows : List Row                     -- table `mailboxes`, oldest first
  dsubs : List (Name × String)        -- table `deleted_subscriptions` (name, remote id)
  fresh : Nat                         -- mailboxes created by IMAP commands so far
deriving DecidableEq, Repr

inductive Err where
  | ns (e : NS.Err)
  | alreadySubscribed
  | alreadyUnsubscribed
deriving DecidableEq, Repr

def recoveryRid : String := "recovery"

def initial : St :=
  { rows := [{ rid := "0", name := inboxName, sub := true }, { rid := recoveryRid, name := recoveryName, sub := true }],
    dsubs := [], fresh := 0 }

def names (S : St) : List Name := S.rows.map (·.name)
def hasName (S : St) (n : Name) : Bool := (names S).contains n
def rowByName (S : St) (n : Name) : Option Row := S.rows.find? (·.name == n)
def rowByRid (S : St) (r : String) : Option Row := S.rows.find? (·.rid == r)

/-- connector `CreateMailbox` (fresh remote id) + `CreateMailboxIfNotExists` → `CreateMailbox`: subscribed -/
def addRow (S : St) (n : Name) : St :=
  { S with rows := S.rows ++ [{ rid := s!"i{S.fresh}", name := n, sub := true }], fresh := S.fresh + 1 }

/-- handleCreate + State.Create -/
def create (d : Char) (S : St) (raw : Name) : Except Err St :=
  let name := decodeName d raw
  if isInbox name then .error (.ns .createInbox)
  else if hasRecoveryPrefix name then .error (.ns .notAllowed)
  else if name.head? == some d then .error (.ns .beginsWithSep)
  else if hasAdjacent d name then .error (.ns .adjacentSep)
  else
    let name := normName d name
    if hasName S name then .error (.ns .existing)
    else
      let toCreate := (listSuperiors d name).filter (fun s => !hasName S s) ++ [name]
      .ok (toCreate.foldl addRow S)

/-- `AddDeletedSubscription(name, rid)`: UPDATE … SET remote_id = rid WHERE name = name; if no row
    was updated INSERT (name, rid).  Both indexes are UNIQUE. -/
def addDeletedSub (ds : List (Name × String)) (n : Name) (rid : String) : Option (List (Name × String)) :=
  if ds.any (fun x => x.1 == n) then
    if ds.any (fun x => x.1 != n && x.2 == rid) then none
    else some (ds.map fun x => if x.1 == n then (n, rid) else x)
  else if ds.any (fun x => x.2 == rid) then none
  else some (ds ++ [(n, rid)])

/-- `DeleteMailboxWithRemoteID` -/
def deleteRow (S : St) (r : Row) : Option St :=
  let ds := if r.sub then addDeletedSub S.dsubs r.name r.rid else some S.dsubs
  ds.map fun ds' => { S with rows := S.rows.filter (·.rid != r.rid), dsubs := ds' }

/-- handleDelete + State.Delete -/
def delete (d : Char) (S : St) (raw : Name) : Except Err St :=
  let name := decodeName d raw
  if isInbox name then .error (.ns .deleteInbox)
  else if isRecovery name then .error (.ns .notAllowed)
  else match rowByName S name with
    | none => .error (.ns .noSuch)
    | some r => match deleteRow S r with
      | some S' => .ok S'
      | none => .error (.ns .dbUnique)

/-- `RenameMailboxWithRemoteID` of the row named `old` under the UNIQUE index on `name` -/
def renameRow (S : St) (old new : Name) : Except Err St :=
  if hasName S new then .error (.ns .dbUnique)
  else .ok { S with rows := S.rows.map fun r => if r.name = old then { r with name := new } else r }

def renameInferiors (S : St) (oldName newName : Name) : List Name → Except Err St
  | [] => .ok S
  | inf :: rest =>
    match renameRow S inf (newName ++ inf.drop oldName.length) with
    | .error e => .error e
    | .ok S' => renameInferiors S' oldName newName rest

/-- handleRename + State.Rename (+ renameInbox) -/
def rename (d : Char) (S : St) (rawOld rawNew : Name) : Except Err St :=
  let oldName := decodeName d rawOld
  let newName := decodeName d rawNew
  if isRecovery oldName || isRecovery newName then .error (.ns .notAllowed)
  else if !hasName S oldName then .error (.ns .noSuch)
  else if hasName S newName then .error (.ns .existing)
  else if (listSuperiors d newName).any (fun s => hasName S s && s == oldName) then .error (.ns .existing)
  else
    let toCreate := (listSuperiors d newName).filter (fun s => !hasName S s)
    let S1 := toCreate.foldl addRow S
    if oldName == inboxName then
      -- renameInbox: new mailbox, INBOX stays; every message of INBOX moves to the new mailbox
      let moved := ((rowByName S1 inboxName).map (·.msgs)).getD 0
      let S2 := addRow S1 newName
      .ok { S2 with rows := S2.rows.map fun r =>
              if r.name = inboxName then { r with msgs := 0 }
              else if r.name = newName then { r with msgs := moved } else r }
    else
      match renameRow S1 oldName newName with
      | .error e => .error e
      | .ok S2 => renameInferiors S2 oldName newName (listInferiors d oldName (names S2))

/-- handleSub + State.Subscribe -/
def subscribe (d : Char) (S : St) (raw : Name) : Except Err St :=
  let name := decodeName d raw
  match rowByName S name with
  | none => .error (.ns .noSuch)
  | some r =>
    if r.sub then .error .alreadySubscribed
    else .ok { S with rows := S.rows.map fun x => if x.rid == r.rid then { x with sub := true } else x }

/-- handleUnsub + State.Unsubscribe -/
def unsubscribe (d : Char) (S : St) (raw : Name) : Except Err St :=
  let name := decodeName d raw
  match rowByName S name with
  | none =>
    if S.dsubs.any (fun x => x.1 == name) then .ok { S with dsubs := S.dsubs.filter (fun x => x.1 != name) }
    else .error (.ns .noSuch)
  | some r =>
    if !r.sub then .error .alreadyUnsubscribed
    else .ok { S with rows := S.rows.map fun x => if x.rid == r.rid then { x with sub := false } else x }

/-- handleAppend + State.AppendOnlyMailbox (a valid message, a connector that accepts it): one more
    message in the named mailbox; a missing mailbox is `NO [TRYCREATE] no such mailbox`, the recovery
    mailbox refuses (never generated by the oracle). -/
def append (d : Char) (S : St) (raw : Name) : Except Err St :=
  let name := decodeName d raw
  if isRecovery name then .error (.ns .notAllowed)
  else match rowByName S name with
    | none => .error (.ns .noSuch)
    | some r => .ok { S with rows := S.rows.map fun x => if x.rid == r.rid then { x with msgs := x.msgs + 1 } else x }

/-- handleStatus (MESSAGES): the row the name resolves to (`decodeMailboxName` + GetMailboxByName) -/
def statusOf (d : Char) (S : St) (raw : Name) : Option Nat :=
  (rowByName S (decodeName d raw)).map (·.msgs)

/-! ### connector updates (never answered; a failing update leaves the tables unchanged) -/

/-- applyMailboxCreated: known remote id → nothing; else INSERT (UNIQUE name) -/
def connCreated (S : St) (rid : String) (name : Name) : St :=
  if rid == recoveryRid then S
  else if (rowByRid S rid).isSome then S
  else if hasName S name then S
  else { S with rows := S.rows ++ [{ rid := rid, name := name, sub := true }] }

/-- applyMailboxDeleted: DeleteMailboxWithRemoteID, then RemoveDeletedSubscriptionWithName -/
def connDeleted (S : St) (rid : String) : St :=
  if rid == recoveryRid then S else
  match rowByRid S rid with
  | none => S
  | some r => match deleteRow S r with
    | none => S
    | some S' => { S' with dsubs := S'.dsubs.filter (fun x => x.1 != r.name) }

/-- applyMailboxUpdated -/
def connRenamed (S : St) (rid : String) (name : Name) : St :=
  if rid == recoveryRid then S else
  match rowByRid S rid with
  | none => S
  | some r =>
    let remoteName := if isInbox name then inboxName else name
    if r.name == remoteName then S
    else if hasName S name then S
    else { S with rows := S.rows.map fun x => if x.rid == rid then { x with name := name } else x }

inductive Cmd where
  | create (raw : Name)
  | delete (raw : Name)
  | rename (rawOld rawNew : Name)
  | subscribe (raw : Name)
  | unsubscribe (raw : Name)
  | append (raw : Name)
  | kCreated (rid : String) (name : Name)
  | kDeletedRid (rid : String)
  | kDeletedName (name : Name)              -- the harness resolves the name to the remote id of the row
  | kRenamedName (name new : Name)
deriving DecidableEq, Repr

/-- `none` in the second component = a connector update (no reply) -/
def step (d : Char) (S : St) : Cmd → St × Option (Except Err Unit)
  | .create n => match create d S n with | .ok S' => (S', some (.ok ())) | .error e => (S, some (.error e))
  | .delete n => match delete d S n with | .ok S' => (S', some (.ok ())) | .error e => (S, some (.error e))
  | .rename o n => match rename d S o n with | .ok S' => (S', some (.ok ())) | .error e => (S, some (.error e))
  | .subscribe n => match subscribe d S n with | .ok S' => (S', some (.ok ())) | .error e => (S, some (.error e))
  | .unsubscribe n => match unsubscribe d S n with | .ok S' => (S', some (.ok ())) | .error e => (S, some (.error e))
  | .append n => match append d S n with | .ok S' => (S', some (.ok ())) | .error e => (S, some (.error e))
  | .kCreated rid n => (connCreated S rid n, none)
  | .kDeletedRid rid => (connDeleted S rid, none)
  | .kDeletedName n => match rowByName S n with
    | some r => (connDeleted S r.rid, none)
    | none => (S, none)
  | .kRenamedName n new => match rowByName S n with
    | some r => (connRenamed S r.rid new, none)
    | none => (S, none)

/-! ### what State.List hands to getMatches -/

def visibleRows (S : St) : List Row := S.rows.filter (·.rid != recoveryRid)

/-- LIST: every visible mailbox -/
def listInput (S : St) : List MBox :=
  (visibleRows S).map fun r => { name := r.name, subscribed := false, ent := some [] }

/-- LSUB: the subscribed visible mailboxes, then the deleted subscriptions whose remote id is not in
    use by a visible mailbox (`EntMBox == nil`) -/
def lsubInput (S : St) : List MBox :=
  let vis := visibleRows S
  (vis.filter (·.sub)).map (fun r => ({ name := r.name, subscribed := true, ent := some [] } : MBox)) ++
  (S.dsubs.filter fun x => !(vis.any (·.rid == x.2))).map fun x => { name := x.1, subscribed := true, ent := none }

end Gluon.NSS
