/-
M-DB, part 4: the shape of the facts regenerated about the SQLite *client* (`vh facts` →
`Generated/Facts/DbClient.lean`, harness/facts_dbclient.go) and the decidable conditions the model of the
index (`Model/DB.lean`) relies on without saying so in its operations:

* `ConnFacts.fkEveryConnection` — the model checks FOREIGN KEY references and runs ON DELETE CASCADE / SET NULL
  on every statement.  SQLite does that on a connection only if `foreign_keys` is on FOR THAT CONNECTION, and
  `Client.db` is a database/sql pool that opens connections as overlapping `Client.Read` calls need them.  A
  `PRAGMA foreign_keys = ON` sent through the pool (what `Client.Init` does) reaches one connection.  Every
  connection is covered if the connection string carries `_foreign_keys`/`_fk` with a true value (mattn/go-sqlite3
  applies it in `Open`), or the pool is limited to a single connection and `Init` sends the pragma, or a
  per-connection `ConnectHook` sends it.
* `Delegation.faithful` — a client built with `Trace()` / `Debug()` hands out `utils.ReadTracer` / `WriteTracer`
  around the operations and `utils.DebugQueryWrapper` / `DebugStmtWrapper` around the statements.  The model has
  one function per method; it is a model of every variant only if each wrapper method calls the method of the same
  name on what it wraps, with its own parameters in their order, and hands the results back unchanged.
* `Wiring.wrapsTarget` — where `client.go` puts a decorator around something, the thing inside is the thing the
  decorated value replaces.
-/
namespace Gluon.DB

/-- what every connection of the pool is opened with -/
structure ConnFacts where
  /-- `getDatabaseConn` has a single return whose text (literal / `fmt.Sprintf` / `+`) the translator could read,
      and no option name is computed -/
  dsnKnown : Bool
  /-- that text, every formatting verb written `%` -/
  dsnText : String
  /-- the `key=value` options after `?` -/
  dsnOptions : List (String × String)
  /-- first argument of `sql.Open` in `NewClient` -/
  openDriver : String
  /-- second argument of `sql.Open` in `NewClient` is a call of `getDatabaseConn` -/
  openUsesDsn : Bool
  /-- PRAGMA texts `Client.Init` executes through the pool (`c.db.ExecContext`): they reach ONE connection -/
  initPragmas : List String
  /-- `SetMaxOpenConns(n)` in `NewClient` -/
  maxOpenConns : Option Nat
  /-- PRAGMA texts inside a `ConnectHook` -/
  connectHookPragmas : List String
deriving DecidableEq, Repr

/-- the values mattn/go-sqlite3 accepts as "on" for a boolean option of the connection string -/
def dsnTrue (v : String) : Bool := ["1", "yes", "true", "on"].contains v

/-- first value of option `k` (`url.Values.Get`) -/
def dsnGet (opts : List (String × String)) (k : String) : Option String := (opts.find? (·.1 == k)).map (·.2)

/-- `_foreign_keys`, else `_fk` (the order mattn/go-sqlite3 looks them up in) -/
def dsnForeignKeys (opts : List (String × String)) : Option String :=
  match dsnGet opts "_foreign_keys" with
  | some v => some v
  | none => dsnGet opts "_fk"

/-- `PRAGMA foreign_keys = ON` in any spelling of blanks and case, value ON / 1 / TRUE / YES -/
def pragmaFkOn (s : String) : Bool :=
  let t := (String.ofList (s.toList.filter fun c => c != ' ' && c != ';' && c != '\t' && c != '\n')).toLower
  ["pragmaforeign_keys=on", "pragmaforeign_keys=1", "pragmaforeign_keys=true", "pragmaforeign_keys=yes"].contains t

/-- foreign keys are enforced on EVERY connection the pool can open -/
def ConnFacts.fkEveryConnection (c : ConnFacts) : Bool :=
  (c.dsnKnown && c.openUsesDsn && c.openDriver == "sqlite3" && (dsnForeignKeys c.dsnOptions).any dsnTrue)
  || (c.maxOpenConns == some 1 && c.initPragmas.any pragmaFkOn)
  || c.connectHookPragmas.any pragmaFkOn

/-- the call a wrapper method makes on what it wraps -/
structure DelegCall where
  /-- the receiver field the call goes through (`RD`, `TX`, `QW`, `sw`, `DB`) -/
  field : String
  /-- the method called -/
  callee : String
  /-- the arguments as written: identifier, `identifier...`, or `?` for anything else -/
  args : List String
  /-- `direct` (`return r.F.M(…)`), `vars` (`a, b := r.F.M(…)` … `return a, b`), `wrapped:<Type>`
      (`v, err := r.F.M(…); if err != nil { return nil, err }; return &Type{… v …}, nil`) -/
  result : String
deriving DecidableEq, Repr

/-- one method of a wrapper type of `internal/db_impl/sqlite3/utils` -/
structure Delegation where
  recv : String
  method : String
  /-- parameter names in order, a variadic one written `name...` -/
  params : List String
  /-- `none`: the body is not a logging line or two around exactly one call through a receiver field -/
  inner : Option DelegCall
  file : String
  line : Nat
deriving DecidableEq, Repr

/-- The wrapper method calls its namesake (or the stated alias: `sql.DB`/`sql.Tx` call `PrepareStatement`
    `PrepareContext`) with its own parameters in their order, and returns what comes back — unchanged, or, for a
    method that hands out another wrapper, inside a wrapper type that is itself in the table. -/
def Delegation.faithful (aliases : List (String × String × String)) (wrappers : List String) (d : Delegation) : Bool :=
  match d.inner with
  | none => false
  | some c =>
    (c.callee == d.method || aliases.contains (d.recv, d.method, c.callee))
    && c.args == d.params
    && c.field != ""
    && (c.result == "direct" || c.result == "vars"
        || wrappers.any fun w => c.result == "wrapped:" ++ w)

/-- `sql.DB`/`sql.Tx` spell `PrepareStatement` `PrepareContext`; nothing else goes by another name -/
def delegationAliases : List (String × String × String) :=
  [("DBWrapper", "PrepareStatement", "PrepareContext"), ("TXWrapper", "PrepareStatement", "PrepareContext")]

/-- (for the non-vacuity example) a `WriteTracer` method that forwards to a look-alike of the same signature -/
def Delegation.slipExample : Delegation where
  recv := "WriteTracer"
  method := "MarkMessageAsDeletedAndAssignRandomRemoteID"
  params := ["ctx", "id"]
  inner := some { field := "TX", callee := "MarkMessageAsDeleted", args := ["ctx", "id"], result := "direct" }
  file := ""
  line := 0

/-- a wrapper literal in `client.go` -/
structure Wiring where
  fn : String
  /-- the variable the literal is assigned to -/
  target : String
  /-- wrapper type; a literal nested in another one is `Outer.Inner` -/
  type : String
  field : String
  value : String
  line : Nat
deriving DecidableEq, Repr

/-- the field of a decorator type that holds what it decorates -/
def decoratedField : List (String × String) :=
  [("ReadTracer", "RD"), ("WriteTracer", "TX"), ("WriteTracer.ReadTracer", "RD"), ("DebugQueryWrapper", "QW")]

/-- a decorator assigned to variable `x` decorates `x` (what it replaces), nothing else -/
def Wiring.wrapsTarget (w : Wiring) : Bool :=
  match decoratedField.find? (·.1 == w.type) with
  | some (_, f) => if w.field == f then w.value == w.target else w.field != "?"
  | none => true

end Gluon.DB
