/-
Model of gluon's MIME boundary scanner and section-range computation (C12).

  rfc822/scanner.go   NewByteScanner / ScanAll / readToBoundary / getPreviousLineBreakIndex /
                      indexOfNewLineAfterBoundary
  rfc822/parser.go    Split / parse / Section.load (children) / Walk

Bytes are `List UInt8`, offsets `Nat`.  Every Go slice / index expression that the code
evaluates is an explicit `goSlice` / `goSliceFrom` / `goAt…` call whose out-of-range case is the
outcome `.error "panic…"`; loops carry explicit fuel (`.error "fuel"` when exhausted).  The
theorems in `Theorems/C12.lean` show that neither outcome is reachable.

Not modelled: Go `int` overflow (lengths are far below 2^63: literals are capped at 30 MB).
`mime.ParseMediaType` and `rfc822.NewHeader` enter only through the abstract `HdrEnv`.
-/
namespace Gluon.Mime

abbrev Bytes := List UInt8

/-! ### Go slice primitives (panic = `.error`) -/

/-- `b[lo:hi]` -/
def goSlice (b : Bytes) (lo hi : Nat) : Except String Bytes :=
  if lo ≤ hi ∧ hi ≤ b.length then .ok ((b.drop lo).take (hi - lo)) else .error "panic slice"

/-- `b[lo:]` -/
def goSliceFrom (b : Bytes) (lo : Nat) : Except String Bytes :=
  if lo ≤ b.length then .ok (b.drop lo) else .error "panic slice"

/-- `b[i-k]` where `i-k` is a Go `int` (negative index panics) -/
def goAtSub (b : Bytes) (i k : Nat) : Except String UInt8 :=
  if i < k then .error "panic index" else
  match b[i - k]? with
  | some c => .ok c
  | none => .error "panic index"

/-- `bytes.Index(s, pat)`: offset of the first occurrence of `pat` in `s` (`none` = -1) -/
def indexFrom (pat : Bytes) : Bytes → Nat → Option Nat
  | [], i => if pat.isEmpty then some i else none
  | c :: s, i => if pat.isPrefixOf (c :: s) then some i else indexFrom pat s (i + 1)

def index (s pat : Bytes) : Option Nat := indexFrom pat s 0

def LF : UInt8 := 10
def CR : UInt8 := 13
def DASH : UInt8 := 45

/-! ### rfc822/scanner.go -/

/-- number of leading `\r` (the `for ; index < dataLen && data[index] == '\r'; index++` loop) -/
def countCR : Bytes → Nat
  | [] => 0
  | c :: s => if c == CR then countCR s + 1 else 0

/-- `indexOfNewLineAfterBoundary` (`none` = -1).  All index expressions are guarded by the
    preceding length tests in the Go code. -/
def nlAfterBoundary (d : Bytes) : Option Nat :=
  if d.length = 0 then none
  else if d.length = 1 ∧ d[0]? = some LF then some 0
  else
    let i := countCR d
    if d[i]? = some LF then some i else none

/-- `getPreviousLineBreakIndex(offset)` (`none` = -1) -/
def prevLineBreak (data : Bytes) (progress offset : Nat) : Except String (Option Nat) :=
  if progress = offset then .ok (some 0) else
  match goAtSub data offset 1 with
  | .error e => .error e
  | .ok c =>
    if c == LF then
      if offset - progress ≥ 2 then
        match goAtSub data offset 2 with
        | .error e => .error e
        | .ok c2 => if c2 == CR then .ok (some 2) else .ok (some 1)
      else .ok (some 1)
    else .ok none

/-- result of `readToBoundary`: the returned slice as a range `[lo,hi)` of `data`
    (`none` = Go `nil`), the `more` flag and the scanner's new `progress` -/
structure RB where
  res : Option (Nat × Nat)
  more : Bool
  progress : Nat
  deriving Repr, DecidableEq

/-- `result := s.data[searchStart : s.progress+index-prevNewLineOffset]` and the return -/
def rtbFinish (data : Bytes) (searchStart pi pnl newProgress : Nat) (more : Bool) : Except String RB :=
  if pi < pnl then .error "panic slice" else
  match goSlice data searchStart (pi - pnl) with
  | .error e => .error e
  | .ok _ => .ok ⟨some (searchStart, pi - pnl), more, newProgress⟩

/-- `s.progress+index+boundaryLen+2 <= dataLen && bytes.Equal(remaining[i+bl : i+bl+2], "--")`
    (the right operand is evaluated only if the left one holds) -/
def isEndBoundary (remaining : Bytes) (dataLen progress idx bl : Nat) : Except String Bool :=
  if progress + idx + bl + 2 ≤ dataLen then
    match goSlice remaining (idx + bl) (idx + bl + 2) with
    | .error e => .error e
    | .ok suf => .ok (suf == [DASH, DASH])
  else .ok false

/-- the `for s.progress < dataLen` loop of `readToBoundary`; `sb` = `startBoundary` -/
def rtbLoop (data sb : Bytes) (searchStart : Nat) : Nat → Nat → Except String RB
  | 0, _ => .error "fuel"
  | fuel + 1, progress =>
    let dataLen := data.length
    let bl := sb.length
    if ¬ progress < dataLen then .ok ⟨none, false, progress⟩ else
    match goSliceFrom data progress with            -- remaining := s.data[s.progress:]
    | .error e => .error e
    | .ok remaining =>
      match index remaining sb with
      | none => .ok ⟨some (progress, dataLen), false, dataLen⟩   -- return remaining, false
      | some idx =>
        match prevLineBreak data progress (progress + idx) with
        | .error e => .error e
        | .ok none => rtbLoop data sb searchStart fuel (progress + idx + bl)
        | .ok (some pnl) =>
          match isEndBoundary remaining dataLen progress idx bl with
          | .error e => .error e
          | .ok true =>
            match goSliceFrom remaining (idx + bl + 2) with      -- afterBoundary
            | .error e => .error e
            | .ok after =>
              if after.length ≠ 0 then
                match nlAfterBoundary after with
                | none => rtbLoop data sb searchStart fuel (progress + idx + bl + 2)
                | some nl => rtbFinish data searchStart (progress + idx) pnl (progress + idx + bl + 2 + nl + 1) false
              else rtbFinish data searchStart (progress + idx) pnl (progress + idx + bl + 2 + 0 + 1) false
          | .ok false =>
            match goSliceFrom remaining (idx + bl) with          -- afterBoundary
            | .error e => .error e
            | .ok after =>
              match nlAfterBoundary after with
              | none => rtbLoop data sb searchStart fuel (progress + idx + bl)
              | some nl => rtbFinish data searchStart (progress + idx) pnl (progress + idx + bl + nl + 1) true

/-- `readToBoundary` with the scanner at `progress` -/
def readToBoundary (data sb : Bytes) (progress : Nat) : Except String RB :=
  rtbLoop data sb progress (data.length + 1) progress

/-- `Part{Data, Offset}`: `Data = data[lo:hi]` -/
structure Part where
  offset : Nat
  lo : Nat
  hi : Nat
  deriving Repr, DecidableEq

def Part.len (p : Part) : Nat := p.hi - p.lo

/-- the `for` loop of `ScanAll` -/
def scanLoop (data sb : Bytes) : Nat → Nat → List Part → Except String (List Part)
  | 0, _, _ => .error "fuel"
  | fuel + 1, progress, parts =>
    match readToBoundary data sb progress with
    | .error e => .error e
    | .ok r =>
      let parts' := match r.res with
        | some (lo, hi) => parts ++ [⟨progress, lo, hi⟩]
        | none => parts
      if r.more then scanLoop data sb fuel r.progress parts' else .ok parts'

def startBoundary (boundary : Bytes) : Bytes := [DASH, DASH] ++ boundary

/-- `NewByteScanner(data, boundary)` followed by `.ScanAll()` -/
def scanAll (data boundary : Bytes) : Except String (List Part) :=
  match readToBoundary data (startBoundary boundary) 0 with     -- in NewByteScanner
  | .error e => .error e
  | .ok r0 => scanLoop data (startBoundary boundary) (data.length + 1) r0.progress []

/-! ### rfc822/parser.go : Split -/

def isCRLF (c : UInt8) : Bool := c == CR || c == LF

/-- `bytes.Trim(s, "\r\n")` -/
def trimCRLF (s : Bytes) : Bytes := ((s.dropWhile isCRLF).reverse.dropWhile isCRLF).reverse

/-- the loop of `Split`; returns `splitIndex` -/
def splitLoop : Nat → Bytes → Nat → Except String Nat
  | 0, _, _ => .error "fuel"
  | fuel + 1, remaining, si =>
    if remaining.length = 0 then .ok si else
    match index remaining [LF] with
    | none => .ok (si + remaining.length)
    | some idx =>
      match goSlice remaining 0 idx with
      | .error e => .error e
      | .ok line =>
        if (trimCRLF line).length = 0 then .ok (si + idx + 1) else
        match goSliceFrom remaining (idx + 1) with
        | .error e => .error e
        | .ok rem' => splitLoop fuel rem' (si + idx + 1)

/-- `Split(b)`: `(b[0:splitIndex], b[splitIndex:])` -/
def split (b : Bytes) : Except String (Bytes × Bytes) :=
  match splitLoop (b.length + 1) b 0 with
  | .error e => .error e
  | .ok si =>
    match goSlice b 0 si, goSliceFrom b si with
    | .ok h, .ok t => .ok (h, t)
    | _, _ => .error "panic slice"

/-! ### sections as index ranges -/

/-- what `Section.load` branches on -/
inductive CT where
  | other                         -- neither (also: `ParseMIMEType` failed)
  | rfc822                        -- `MIMEType(contentType) == "message/rfc822"`
  | multipart (boundary : Bytes)  -- `contentType.IsMultiPart()`, `contentParams["boundary"]`
  deriving Repr, DecidableEq

/-- abstract results of the header machinery for one block of header bytes:
    `ok` = `NewHeader(h)` succeeds, `ct` = what `ContentType()` yields for it -/
structure HdrInfo where
  ok : Bool
  ct : CT

abbrev HdrEnv := Bytes → HdrInfo

/-- `ContentType()` of a section whose header bytes are `hdr`.  An empty header has no
    fields: `Get("Content-Type") = ""`, which `ParseMIMEType` turns into text/plain. -/
def ctOf (env : HdrEnv) (hdr : Bytes) : CT := if hdr.length = 0 then .other else (env hdr).ct

/-- `Section{header, body, end}` as offsets into the root literal -/
structure Sec where
  header : Nat
  body : Nat
  end_ : Nat
  deriving Repr, DecidableEq

/-- `parse(literal, identifier, begin, end)` -/
def parseSec (env : HdrEnv) (lit : Bytes) (begin end_ : Nat) : Except String Sec :=
  match goSlice lit begin end_ with
  | .error e => .error e
  | .ok sl =>
    match split sl with
    | .error e => .error e
    | .ok (h, _) =>
      -- `if err != nil { header = nil }`
      let hlen := if (env h).ok then h.length else 0
      .ok ⟨begin, begin + hlen, end_⟩

/-- children of a multipart: one `parse` per scanned part -/
def partSecs (env : HdrEnv) (lit : Bytes) (body : Nat) : List Part → Except String (List Sec)
  | [] => .ok []
  | p :: ps =>
    match parseSec env lit (body + p.offset) (body + p.offset + p.len) with
    | .error e => .error e
    | .ok s =>
      match partSecs env lit body ps with
      | .error e => .error e
      | .ok ss => .ok (s :: ss)

/-- `Section.load()`: the children of `s`.  For message/rfc822 the Go code re-bases the literal
    (`parse(literal[body:end], id, 0, end-body)`); here offsets stay absolute. -/
def children (env : HdrEnv) (lit : Bytes) : Nat → Sec → Except String (List Sec)
  | 0, _ => .error "fuel"
  | fuel + 1, s =>
    match goSlice lit s.header s.body with          -- section.Header()
    | .error e => .error e
    | .ok hdr =>
      match ctOf env hdr with
      | .other => .ok []
      | .rfc822 =>
        match parseSec env lit s.body s.end_ with
        | .error e => .error e
        | .ok child => children env lit fuel child  -- child.load(); section.children = child.children
      | .multipart bnd =>
        match goSlice lit s.body s.end_ with
        | .error e => .error e
        | .ok body =>
          match scanAll body bnd with
          | .error e => .error e
          | .ok parts => partSecs env lit s.body parts

/-- the section tree `Walk` visits -/
inductive STree where
  | node (s : Sec) (children : List STree)
  deriving Repr

/-- `for … { … }` over a list with early exit on panic -/
def mapE {α β : Type} (f : α → Except String β) : List α → Except String (List β)
  | [] => .ok []
  | a :: as =>
    match f a with
    | .error e => .error e
    | .ok b =>
      match mapE f as with
      | .error e => .error e
      | .ok bs => .ok (b :: bs)

/-- `Walk`: the section and, recursively, its `Children()` -/
def walk (env : HdrEnv) (lit : Bytes) : Nat → Sec → Except String STree
  | 0, _ => .error "fuel"
  | fuel + 1, s =>
    match children env lit (lit.length + 1) s with
    | .error e => .error e
    | .ok cs =>
      match mapE (walk env lit fuel) cs with
      | .error e => .error e
      | .ok ts => .ok (.node s ts)

/-- `rfc822.Parse(literal)` then `Walk` -/
def parseWalk (env : HdrEnv) (lit : Bytes) : Except String STree :=
  match parseSec env lit 0 lit.length with
  | .error e => .error e
  | .ok root => walk env lit (lit.length + 1) root

-- pre-order listing with depth
mutual
  def STree.flatten : Nat → STree → List (Nat × Sec)
    | d, .node s cs => (d, s) :: STree.flattenList (d + 1) cs
  def STree.flattenList : Nat → List STree → List (Nat × Sec)
    | _, [] => []
    | d, t :: ts => t.flatten d ++ STree.flattenList d ts
end

end Gluon.Mime
