/-
M-MATCH: model of /repo/internal/state/match.go (`match`, `matchRoot`, `canon`, `getMatches`,
`prepareMatch`) and /repo/internal/state/paths.go (`listSuperiors`, `listInferiors`).
Core Lean only.  Tied to the code by the dialects `match`, `match-baddelim`, `superiors`,
`inferiors`, `getmatches` (Driver/DMatch.lean, harness/d_match.go).

Representation decisions (see also the report in checklib/props/C14.py):

* A Go string is modelled as `List Char` = a sequence of Unicode scalar values, i.e. the model
  covers the *valid UTF-8* strings.  On those, Go's byte-wise `strings.Split/Join/HasPrefix`,
  byte-wise `sort`, and the rune-wise `regexp` engine agree with the corresponding operations
  on scalar sequences (UTF-8 is prefix-free and order preserving).  Strings that are not valid
  UTF-8 are outside the model; for the *pattern/reference* they make `regexp.Compile` fail
  (`invalid UTF-8`) and `match` answer "no match", which the `match-baddelim` stream compares.
* The hierarchy delimiter is one character `d : Char` (IMAP: a single QUOTED-CHAR).  gluon's
  option is a Go string; the empty and the multi-character delimiter are not modelled.
* `match` builds the text  `(?s)^` ++ QuoteMeta(canon(ref+pattern)) ++ (`$` unless pattern ends
  in `%`), then replaces `\*` by `.*`, then `%` by `[^` ++ QuoteMeta(del) ++ `]*`, and compiles it
  (`regexp.Compile`; a compile error means "no match").  QuoteMeta escapes every one of
  ``\.+*?()|[]{}^$`` with a backslash and nothing else, so in its output backslashes occur only
  as the first byte of a two-byte escape and the text `\*` occurs exactly where the input had
  `*`; `%` is not escaped.  The class `[^<quoted del>]` is well-formed for every single
  character (`\` becomes `[^\\]`, `]` becomes `[^\]]`, …; it is inserted after the `\*`
  replacement and `ReplaceAll` does not rescan, so `*` and `%` as delimiters are harmless too).
  Hence the compiled expression is the item sequence below: `*` ↦ `.*` (`star`), `%` ↦ `[^d]*`
  (`pct`), any other character ↦ that literal character, and compilation cannot fail for
  valid UTF-8 input.  With `(?s)`, `.` matches every character including newline.
  Reference/pattern that are not valid UTF-8 are outside `List Char`; for them `Compile` fails
  and `match` answers "no match" (handled in the driver, exercised by `match-baddelim`).
* `FindAllString(name, 1)[0]` with a leading `^`: the match starts at 0 and is the one a
  backtracking engine finds first (leftmost-first; `x*` = prefer one more `x`).  `run` is that
  backtracking search, returning the matched prefix.
-/
namespace Gluon.Match

abbrev Name := List Char

/-! ### strings.Split / strings.Join for a one-character separator -/

/-- `strings.Split(s, string(d))` -/
def splitOn (d : Char) : Name → List Name
  | [] => [[]]
  | c :: cs =>
    if c = d then [] :: splitOn d cs
    else match splitOn d cs with
      | [] => [[c]]
      | s :: ss => (c :: s) :: ss

/-- `strings.Join(parts, string(d))` -/
def join (d : Char) : List Name → Name
  | [] => []
  | [s] => s
  | s :: ss => s ++ d :: join d ss

/-! ### paths.go -/

/-- `listSuperiors(name, delimiter)`: for i = 1 .. len(split)-1: Join(split[0:i]) -/
def listSuperiors (d : Char) (name : Name) : List Name :=
  let split := splitOn d name
  ((List.range split.length).drop 1).map fun i => join d (split.take i)

/-- Go's `<` on strings (byte-wise = scalar-wise on valid UTF-8) -/
def ltName : Name → Name → Bool
  | [], [] => false
  | [], _ :: _ => true
  | _ :: _, [] => false
  | a :: as, b :: bs => if a.toNat < b.toNat then true else if b.toNat < a.toNat then false else ltName as bs

def insertSorted (x : Name) : List Name → List Name
  | [] => [x]
  | y :: ys => if ltName y x then y :: insertSorted x ys else x :: y :: ys

/-- `slices.Sort` (ascending) -/
def sortNames : List Name → List Name
  | [] => []
  | x :: xs => insertSorted x (sortNames xs)

/-- `listInferiors(parent, delimiter, names)`: filter, sort ascending, reverse -/
def listInferiors (d : Char) (parent : Name) (names : List Name) : List Name :=
  (sortNames (names.filter fun n => (listSuperiors d n).contains parent)).reverse

/-! ### canon / matchRoot -/

def inboxName : Name := ['I', 'N', 'B', 'O', 'X']

/-- `strings.EqualFold(s, "INBOX")`.  The simple-folding orbits of I, N, B, O, X contain only
    their ASCII upper/lower forms, so this is ASCII case-insensitive equality. -/
def isInbox (s : Name) : Bool := s.map Char.toUpper == inboxName

/-- `canon(name, del)`: only `split[0]` is compared with INBOX (`strings.Split` with a non-empty
    separator never returns an empty slice, so `split[0]` cannot panic) -/
def canon (d : Char) (name : Name) : Name :=
  match splitOn d name with
  | [] => []
  | s :: ss => join d ((if isInbox s then inboxName else s) :: ss)

/-- result of `match`: `(string, bool)`; no panicking path remains -/
inductive Outcome where
  | ret (res : Name) (ok : Bool)
deriving DecidableEq, Repr

/-- `matchRoot(ref, del)` -/
def matchRoot (d : Char) (ref : Name) : Name :=
  if !ref.contains d then []
  else
    let res : Name := if ref.head? = some d then [d] else []
    let res := res ++ (splitOn d ref).headD []
    if res != [] && res != [d] then res ++ [d] else res

/-! ### the compiled regular expression -/

inductive Item where
  | lit (c : Char)
  | star   -- `.*`
  | pct    -- `[^d]*`
deriving DecidableEq, Repr

def toItem (c : Char) : Item := if c = '*' then .star else if c = '%' then .pct else .lit c

def toItems (p : Name) : List Item := p.map toItem

/-- greedy `x*` followed by continuation `k` (backtracking order: one more `x` first) -/
def loop (ok : Char → Bool) (k : Name → Option Name) : Name → Option Name
  | [] => k []
  | x :: xs =>
    if ok x then
      match loop ok k xs with
      | some r => some (x :: r)
      | none => k (x :: xs)
    else k (x :: xs)

/-- Backtracking search for `^items` (`$` appended iff `anchorEnd`) at position 0 of `s`;
    returns the matched text. -/
def run (d : Char) (anchorEnd : Bool) : List Item → Name → Option Name
  | [], s => if anchorEnd then (if s.isEmpty then some [] else none) else some []
  | .lit c :: is, s =>
    match s with
    | [] => none
    | x :: xs => if x = c then (run d anchorEnd is xs).map (x :: ·) else none
  | .star :: is, s => loop (fun _ => true) (run d anchorEnd is) s   -- `(?s)`: `.` matches every character
  | .pct :: is, s => loop (fun x => x != d) (run d anchorEnd is) s

def endsPct (pattern : Name) : Bool := pattern.getLast? == some '%'

/-- `match(ref, pattern, del, mailboxName)` -/
def matchName (ref pattern : Name) (d : Char) (name : Name) : Outcome :=
  if pattern.isEmpty then .ret (matchRoot d ref) true
  else
    let cp := canon d (ref ++ pattern)
    match run d (!endsPct pattern) (toItems cp) name with
    | some r => .ret r true
    | none => .ret [] false

/-! ### getMatches / prepareMatch -/

/-- `matchMailbox`; `ent = none` ⇔ `EntMBox == nil`; `ent = some attrs` carries the stored attributes -/
structure MBox where
  name : Name
  subscribed : Bool
  ent : Option (List String)
deriving DecidableEq, Repr

/-- attributes of a `Match` -/
inductive Atts where
  | noselect                       -- `imap.NewFlagSet(imap.AttrNoSelect)`
  | real (attrs : List String)     -- stored attributes + `\Unmarked` (recent count 0 in the hook) / `\Marked`
deriving DecidableEq, Repr

abbrev Matches := List (Name × Atts)

/-- `mailboxes[name]` of the map built from `allMailboxes` (later entries overwrite earlier ones) -/
def lookupMBox (all : List MBox) (n : Name) : Option MBox := all.reverse.find? (·.name == n)

/-- `prepareMatch` (recent count fixed to 0 as in the hook) -/
def prepareMatch (matchedName : Name) (mbox : Option MBox) (pattern : Name)
    (isNotSuperior onlySubscribed : Bool) : Option (Name × Atts) :=
  -- `mbox` is `&mbox` of the map lookup: never nil; a missing entry is the zero value
  let sub := match mbox with | some m => m.subscribed | none => false
  if onlySubscribed && !sub && (isNotSuperior || !endsPct pattern) then none
  else if mbox.isNone || matchedName.isEmpty || (onlySubscribed && !sub) then some (matchedName, .noselect)
  else match mbox with
    | some m => (match m.ent with
        | some attrs => some (m.name, .real attrs)
        | none => some (m.name, .noselect))
    | none => some (matchedName, .noselect)

/-- body of the inner loop of `getMatches` for one `superior` of `mboxName` -/
def stepSuperior (all : List MBox) (ref pattern : Name) (d : Char) (subscribed : Bool)
    (mboxName : Name) (ms : Matches) (superior : Name) : Matches :=
  match matchName ref pattern d superior with
  | .ret _ false => ms
  | .ret matchedName true =>
    if (ms.lookup matchedName).isSome then ms
    else match prepareMatch matchedName (lookupMBox all matchedName) pattern (mboxName == matchedName) subscribed with
      | none => ms
      | some (n, a) => (n, a) :: ms.filter (·.1 != n)

/-- `getMatches` with the map iteration order made explicit (`order` = the keys in the order
    Go happens to range over them). -/
def getMatchesOrd (all : List MBox) (order : List Name) (ref pattern : Name) (d : Char) (subscribed : Bool) :
    Matches :=
  order.foldl (fun acc mboxName =>
    (listSuperiors d mboxName ++ [mboxName]).foldl (stepSuperior all ref pattern d subscribed mboxName) acc)
    []

/-- keys of the map in first-occurrence order -/
def keys (all : List MBox) : List Name := (all.map (·.name)).eraseDups

def getMatches (all : List MBox) (ref pattern : Name) (d : Char) (subscribed : Bool) : Matches :=
  getMatchesOrd all (keys all) ref pattern d subscribed

end Gluon.Match
