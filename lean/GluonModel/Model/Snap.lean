/-
M-SNAP: model of `snapMsgList` / `snapshot` (internal/state/snapshot_messages.go,
internal/state/snapshot.go).

The Go list is a slice of `*snapMsg` ordered by UID plus a map id -> *snapMsg.
The model is the list alone.  Under `Snap.Inv` (UIDs strictly ascending, ids
distinct) "look the id up in the map, then binary-search its UID" is the same as
"first list element with that id", which is what the model does; the
correspondence harness only ever builds snapshots through `insert` /
`insertOutOfOrder`, i.e. the way the code builds them.
-/
import GluonModel.Model.Flags

namespace Gluon

/- `MsgId`, `UID` are notations for `Nat` (not `abbrev`s: `omega` does not look through abbrevs). -/
notation "MsgId" => Nat
notation "UID" => Nat

structure SMsg where
  id : MsgId
  uid : UID
  flags : Flags
  toExpunge : Bool
deriving DecidableEq, Repr, Inhabited

abbrev Snap := List SMsg

inductive Err where
  | outOfOrder      -- ErrOutOfOrderUIDInsertion
  | noSuchMessage   -- ErrNoSuchMessage
  | panic           -- a Go panic (process-fatal with the default panic handler)
deriving DecidableEq, Repr

namespace Snap

/-- UIDs strictly ascending along the list. -/
def Ascending : Snap → Prop
  | [] => True
  | [_] => True
  | a :: b :: rest => a.uid < b.uid ∧ Ascending (b :: rest)

def uids (s : Snap) : List UID := s.map (·.uid)
def ids (s : Snap) : List MsgId := s.map (·.id)

/-- The snapshot invariant: strictly ascending UIDs and pairwise distinct ids. -/
structure Inv (s : Snap) : Prop where
  asc : s.uids.Pairwise (· < ·)
  nodup : s.ids.Nodup

/-- `list.has(id)` -/
def has (s : Snap) (id : MsgId) : Bool := s.any (·.id == id)

/-- position (0-based) of the message with this id -/
def idxOf? (s : Snap) (id : MsgId) : Option Nat := s.findIdx? (·.id == id)

/-- `list.get(id)`: (seq, msg), seq is 1-based -/
def get? (s : Snap) (id : MsgId) : Option (Nat × SMsg) :=
  match s.findIdx? (·.id == id) with
  | none => none
  | some i => match s[i]? with
    | none => none
    | some m => some (i + 1, m)

def mkMsg (id : MsgId) (uid : UID) (flags : Flags) : SMsg :=
  { id := id, uid := uid, flags := flags, toExpunge := flags.contains Flags.deleted }

/-- `list.insert`: append, error unless the UID is above the last one. -/
def insert (s : Snap) (id : MsgId) (uid : UID) (flags : Flags) : Except Err Snap :=
  match s.getLast? with
  | some l => if l.uid ≥ uid then .error .outOfOrder else .ok (s ++ [mkMsg id uid flags])
  | none => .ok (s ++ [mkMsg id uid flags])

/-- insertion point by UID: number of messages with a smaller UID (what the binary
    search returns on an ascending list). -/
def lowerBound (s : Snap) (uid : UID) : Nat := (s.takeWhile (·.uid < uid)).length

/-- `list.insertOutOfOrder`: insert at the UID position; panics on a duplicate UID. -/
def insertOutOfOrder (s : Snap) (id : MsgId) (uid : UID) (flags : Flags) : Except Err Snap :=
  if s.any (·.uid == uid) then .error .panic
  else
    let i := lowerBound s uid
    .ok (s.take i ++ [mkMsg id uid flags] ++ s.drop i)

/-- `list.remove(id)` -/
def remove (s : Snap) (id : MsgId) : Option Snap :=
  match s.findIdx? (·.id == id) with
  | none => none
  | some i => some (s.eraseIdx i)

/-- `snap.setMessageFlags`: \Recent of the current flags is preserved. -/
def setFlags (s : Snap) (id : MsgId) (flags : Flags) : Snap :=
  s.map fun m =>
    if m.id == id then
      let fl := if m.flags.contains Flags.recent then Flags.add1 flags Flags.recent else flags
      { m with flags := fl, toExpunge := fl.contains Flags.deleted }
    else m

/-- `snap.getMessagesWithFlagCount(flag)` -/
def countFlag (s : Snap) (f : Flag) : Nat := s.countP (·.flags.contains f)

end Snap
end Gluon
