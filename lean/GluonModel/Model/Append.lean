/-
M-APPEND — model of what happens to a message handed to APPEND (property C20), and of COPY / MOVE
/ EXPUNGE as far as they touch the same state, statement by statement after

  internal/session/handle_append.go   handleAppend
  internal/state/mailbox.go           Mailbox.Append, AppendRegular, Copy, Move, Expunge
  internal/state/actions.go           actionCreateMessage, actionCreateRecoveredMessage,
                                      actionAddMessagesToMailbox, actionAddRecoveredMessagesToMailbox,
                                      actionImportRecoveredMessage, actionCopy/MoveMessagesOutOfRecoveryMailbox,
                                      actionRemoveMessagesFromMailbox(Unchecked), actionMoveMessages
  internal/state/updates_mailbox.go   AddMessagesToMailbox, MoveMessagesFromMailbox, RemoveMessagesFromMailbox
  internal/state/state.go             List, Create, Delete, Rename, AppendOnlyMailbox, stateDBWrite(Result)
  internal/utils/message_hashmap.go   MessageHashesMap.Insert / Erase
  rfc822/hash.go                      GetMessageHash (abstract: a function `H` of the hashed view)
  internal/backend/user.go            newUser (the hash map is rebuilt from the recovery mailbox)
  internal/backend/state_connector_impl.go  CreateMessage (fresh internal ID only on success)

What is abstract.
* A literal is `Lit`: `hv` = everything `GetMessageHash` reads (Subject, the addresses of
  From/To/Cc/Reply-To/In-Reply-To, and per leaf part the MIME type with its parameters except
  `boundary`, Content-Disposition and the decoded, trimmed body); `uv` = everything else (Date,
  Message-Id, other header fields, transfer encoding, boundary…); `gid` = the X-Pm-Gluon-Id header.
  The hash is `H l.hv` for an arbitrary `H : Nat → Nat`: two literals that differ only in `uv`
  collide for every `H`.
* The connector is a parameter: `Script` fixes, per kind of call and in call order, whether the
  call succeeds, fails, or fails with connector.ErrMessageSizeExceedsLimits (an exhausted script
  means success).  A successful CreateMessage echoes the literal (connector.Dummy does) and
  returns a fresh remote ID, or (`dup`) the remote ID of a message it created earlier from the
  very same literal (a connector reports an existing remote ID only for an identical message;
  without such a message `dup` is `ok`).  Store writes
  (`store.Set`) and the database insert (`CreateMessageAndAddToMailbox` / `CreateMessages`) fail
  on scripts too.
* A database transaction (`stateDBWrite`) is `withTx`: on error the database part `db` is
  restored; the message store, the hash map and the counters are not (they are not
  transactional in the code either).
* Mailboxes are looked up by exact name (first match); the recovery mailbox is the one named
  `recName` (the code finds it by its internal ID; no other mailbox can get that name, see
  `create`/`rename`).  Only flat names are modelled (`unsupported` otherwise), INBOX is an
  ordinary name, `renameInbox` is not modelled.
* One session; its snapshot of the selected mailbox equals the database content (true after every
  completed command of a single session).  Connector updates are not modelled.

Ghost fields (never read by the model's control flow): `staleHash` — some transaction inserted
a hash and then rolled back (#19); `lostHash` — some transaction erased a hash and then rolled
back.  They name the histories in which the hash map and the recovery mailbox still agree.
-/
import GluonModel.Model.Limits

namespace Gluon.Append

/-! ### data -/

/-- the `X-Pm-Gluon-Id` header of a literal: absent, unparsable, or an internal message ID -/
inductive Gid where
  | none | bad | id (n : Nat)
deriving DecidableEq, Repr

structure Lit where
  hv : Nat
  uv : Nat
  gid : Gid := .none
  /-- `rfcvalidation.ValidateMessageHeaderFields` (session layer) -/
  valid : Bool := true
  /-- `imap.NewParsedMessage` succeeds -/
  parseOk : Bool := true
  /-- `rfc822.GetMessageHash` succeeds -/
  hashOk : Bool := true
deriving DecidableEq, Repr

/-! ### which literals `rfc822.GetMessageHash` can hash (`Lit.hashOk`)

`GetMessageHash` walks the leaf parts and calls `hashBody` on each; the first error aborts.
`hashBody` undoes the transfer encoding of `text/plain` and `text/html` leaves only (a leaf
without Content-Type counts as text/plain): `base64` and `quoted-printable` are decoded (the header
value is lower-cased first), anything else is taken as it is; every other MIME type is hashed
undecoded.  So hashing fails exactly when some text leaf declares base64 / quoted-printable and
its body is not well formed in that encoding (a character outside the base64 alphabet, a
truncated base64 quantum, a raw control byte in quoted-printable).  Such a literal still passes
`rfcvalidation` and `imap.NewParsedMessage` (neither decodes bodies): it reaches the recovery path. -/

/-- the Content-Transfer-Encodings `hashBody` tells apart -/
inductive Cte where
  | none | base64 | qp | other
deriving DecidableEq, Repr

/-- a leaf part as `hashBody` sees it -/
structure Leaf where
  /-- MIME type text/plain or text/html (or no Content-Type) -/
  text : Bool
  cte : Cte
  /-- the body is well formed in the declared encoding -/
  decodes : Bool
deriving DecidableEq, Repr

/-- `hashBody` succeeds on this leaf -/
def Leaf.hashOk (p : Leaf) : Bool :=
  !(p.text && (p.cte == .base64 || p.cte == .qp) && !p.decodes)

/-- `GetMessageHash` succeeds (given that the headers parse): every leaf can be hashed -/
def leavesHashOk (ps : List Leaf) : Bool := ps.all Leaf.hashOk

/-- equal up to the X-Pm-Gluon-Id header line gluon rewrites -/
def Lit.sameBytes (a b : Lit) : Prop := a.hv = b.hv ∧ a.uv = b.uv

inductive Err where
  | size            -- connector.ErrMessageSizeExceedsLimits
  | remote          -- any other connector error
  | storage         -- store.Set / database write failed
  | limit           -- limits.ErrMax…
  | parse           -- imap.NewParsedMessage
  | badGid          -- X-Pm-Gluon-Id present but not an internal ID
  | dupDrafts       -- "append to drafts returned an existing remote ID"
  | noSuchMailbox | notAllowed | existing | createInbox | deleteInbox | storeGet
  | unsupported     -- outside the modelled fragment (hierarchical names, RENAME INBOX)
deriving DecidableEq, Repr

/-- outcome of a connector CreateMessage call -/
inductive COut where
  | ok | dup | fail | failSize
deriving DecidableEq, Repr

/-- outcome of AddMessagesToMailbox / RemoveMessagesFromMailbox / MoveMessages -/
inductive ROut where
  | ok | fail | failSize
deriving DecidableEq, Repr

structure Script where
  create : List COut := []
  add : List ROut := []
  remove : List ROut := []
  move : List ROut := []
  /-- `true` = this `store.Set` fails -/
  storeSet : List Bool := []
  /-- `true` = this `tx.CreateMessageAndAddToMailbox` / `tx.CreateMessages` fails -/
  dbCreate : List Bool := []
deriving DecidableEq, Repr

structure Mbox where
  name : String
  drafts : Bool := false
  uidNext : Nat := 1
  /-- (UID, internal message ID), ascending UID -/
  msgs : List (Nat × Nat) := []
deriving DecidableEq, Repr

/-- row of the messages table -/
structure Row where
  rid : Nat
  deleted : Bool := false
deriving DecidableEq, Repr

structure Db where
  boxes : List Mbox
  rows : List (Nat × Row) := []
deriving DecidableEq, Repr

structure St where
  db : Db
  /-- message store: internal ID ↦ literal (newest binding first) -/
  store : List (Nat × Lit) := []
  /-- `MessageHashesMap.idToHash` -/
  idToHash : List (Nat × Nat) := []
  /-- `MessageHashesMap.hashes` -/
  hashes : List Nat := []
  /-- next `imap.NewInternalMessageID()` -/
  nextId : Nat := 0
  /-- next remote message ID the connector hands out -/
  nextRid : Nat := 0
  /-- the messages the connector created: remote ID and literal, newest first (for `COut.dup`) -/
  remote : List (Nat × Lit) := []
  sc : Script := {}
  lim : Limits.IMAP := Limits.defaultLimits
  -- ghosts
  txIns : Bool := false
  txErase : Bool := false
  staleHash : Bool := false
  lostHash : Bool := false
deriving Repr

def recName : String := "Recovered Messages"
def recNameLower : String := "recovered messages"

/-- ASCII lower-casing, on the character list (reduces in the kernel, unlike `String.toLower`) -/
def lower (n : String) : List Char := n.toList.map Char.toLower

/-- `strings.EqualFold(name, ids.GluonRecoveryMailboxName)` (ASCII letters only) -/
def isRecName (n : String) : Bool := lower n == recNameLower.toList

/-- `strings.HasPrefix(strings.ToLower(name), ids.GluonRecoveryMailboxNameLowerCase)` -/
def hasRecPrefix (n : String) : Bool := recNameLower.toList.isPrefixOf (lower n)

/-- `strings.EqualFold(name, imap.Inbox)` -/
def isInbox (n : String) : Bool := lower n == "inbox".toList


/-! ### database primitives (name-keyed, first match) -/

def getBox (db : Db) (n : String) : Option Mbox := db.boxes.find? (·.name == n)

def updBoxes (bs : List Mbox) (n : String) (f : Mbox → Mbox) : List Mbox :=
  match bs with
  | [] => []
  | b :: r => if b.name == n then f b :: r else b :: updBoxes r n f

def updBox (db : Db) (n : String) (f : Mbox → Mbox) : Db := { db with boxes := updBoxes db.boxes n f }

def delBoxes (bs : List Mbox) (n : String) : List Mbox :=
  match bs with
  | [] => []
  | b :: r => if b.name == n then r else b :: delBoxes r n

def recMsgs (s : St) : List (Nat × Nat) :=
  match getBox s.db recName with
  | some b => b.msgs
  | none => []

/-- `tx.MailboxFilterContains`: which of `ids` are in the mailbox -/
def boxHas (b : Mbox) (id : Nat) : Bool := b.msgs.any (·.2 == id)

/-- append `ids` with consecutive UIDs (`tx.AddMessagesToMailbox`); returns the UIDs -/
def Mbox.add (b : Mbox) (ids : List Nat) : Mbox × List Nat :=
  match ids with
  | [] => (b, [])
  | i :: r =>
    let b1 := { b with msgs := b.msgs ++ [(b.uidNext, i)], uidNext := b.uidNext + 1 }
    let (b2, us) := Mbox.add b1 r
    (b2, b.uidNext :: us)

def Mbox.remove (b : Mbox) (ids : List Nat) : Mbox := { b with msgs := b.msgs.filter (fun p => !ids.contains p.2) }

/-! ### scripts, store, hash map -/

def popD {α} (l : List α) (d : α) : α × List α :=
  match l with
  | [] => (d, [])
  | x :: r => (x, r)

def ROut.toErr : ROut → Option Err
  | .ok => none
  | .fail => some .remote
  | .failSize => some .size

abbrev R (α : Type) := Except Err α × St

/-- `store.SetUnchecked(id, literal)` -/
def storeSet (s : St) (id : Nat) (l : Lit) : Bool × St :=
  let (f, rest) := popD s.sc.storeSet false
  let s := { s with sc := { s.sc with storeSet := rest } }
  if f then (false, s) else (true, { s with store := (id, l) :: s.store })

/-- the scripted failure of a database insert -/
def dbFault (s : St) : Bool × St :=
  let (f, rest) := popD s.sc.dbCreate false
  (f, { s with sc := { s.sc with dbCreate := rest } })

/-- `MessageHashesMap.Insert` for a literal whose hash is `h`: `true` = already known -/
def hmInsert (s : St) (id h : Nat) : Bool × St :=
  if s.hashes.contains h then (true, s)
  else (false, { s with idToHash := (id, h) :: s.idToHash, hashes := h :: s.hashes })

/-- one iteration of `MessageHashesMap.Erase` -/
def hmErase1 (s : St) (id : Nat) : St :=
  match s.idToHash.lookup id with
  | some v => { s with hashes := s.hashes.filter (· != v), idToHash := s.idToHash.filter (·.1 != id) }
  | none => { s with idToHash := s.idToHash.filter (·.1 != id) }

/-- `MessageHashesMap.Erase(ids...)` -/
def hmErase (s : St) (ids : List Nat) : St :=
  match ids with
  | [] => s
  | id :: r => hmErase (hmErase1 s id) r

/-! ### connector calls (`stateConnectorImpl`) -/

/-- CreateMessage(literal): (remote ID, fresh internal ID, the literal the connector returns) -/
def remoteCreate (s : St) (l : Lit) : R (Nat × Nat × Lit) :=
  let (o, rest) := popD s.sc.create .ok
  let s := { s with sc := { s.sc with create := rest } }
  let fresh : R (Nat × Nat × Lit) :=
    (.ok (2 * s.nextRid, s.nextId, l),
     { s with nextRid := s.nextRid + 1, nextId := s.nextId + 1, remote := (2 * s.nextRid, l) :: s.remote })
  match o with
  | .fail => (.error .remote, s)
  | .failSize => (.error .size, s)
  | .ok => fresh
  | .dup =>
    match s.remote.find? (·.2 == l) with
    | some (r, l') => (.ok (r, s.nextId, l'), { s with nextId := s.nextId + 1 })
    | none => fresh

def remoteAdd (s : St) : Option Err × St :=
  let (o, rest) := popD s.sc.add .ok
  (o.toErr, { s with sc := { s.sc with add := rest } })

def remoteRemove (s : St) : Option Err × St :=
  let (o, rest) := popD s.sc.remove .ok
  (o.toErr, { s with sc := { s.sc with remove := rest } })

def remoteMove (s : St) : Option Err × St :=
  let (o, rest) := popD s.sc.move .ok
  (o.toErr, { s with sc := { s.sc with move := rest } })

/-! ### transactions -/

/-- `stateDBWrite` / `stateDBWriteResult`: the database part is restored on error -/
def txFinish {α} (s : St) : R α → R α
  | (.ok a, s1) => (.ok a, s1)
  | (.error e, s1) =>
    (.error e, { s1 with db := s.db, staleHash := s1.staleHash || s1.txIns, lostHash := s1.lostHash || s1.txErase })

def withTx {α} (s : St) (f : St → R α) : R α := txFinish s (f { s with txIns := false, txErase := false })

/-! ### actions -/

/-- limit checks of `AddMessagesToMailbox` / `MoveMessagesFromMailbox` / `AppendRegular` -/
def checkLimits (s : St) (b : Mbox) (n : Nat) : Bool :=
  (Limits.checkMailBoxMessageCount s.lim b.msgs.length n).isNone &&
  (Limits.checkUIDCount s.lim b.uidNext n).isNone

def hasDup : List Nat → Bool
  | [] => false
  | x :: r => r.contains x || hasDup r

/-- state-level `AddMessagesToMailbox(tx, mbox, ids)`: limits, then insert -/
def dbAddMessages (s : St) (n : String) (ids : List Nat) : R (List Nat) :=
  match getBox s.db n with
  | none => (.error .noSuchMailbox, s)
  | some b =>
    if !checkLimits s b ids.length then (.error .limit, s)
    else if ids.any (boxHas b) || hasDup ids then
      (.error .storage, s)      -- the mailbox table has one row per message: the INSERT fails
    else
      (.ok (b.add ids).2, { s with db := updBox s.db n (fun b => (b.add ids).1) })

/-- `actionRemoveMessagesFromMailboxUnchecked(ids, mbox)` (`ids`: internal IDs) -/
def removeUnchecked (s : St) (n : String) (ids : List Nat) : R Unit :=
  if n != recName then
    match remoteRemove s with
    | (some e, s) => (.error e, s)
    | (none, s) => (.ok (), { s with db := updBox s.db n (fun b => b.remove ids) })
  else
    let s := { hmErase s ids with txErase := true }
    (.ok (), { s with db := updBox s.db n (fun b => b.remove ids) })

/-- `actionRemoveMessagesFromMailbox(ids, mbox)` -/
def actionRemove (s : St) (n : String) (ids : List Nat) : R Unit :=
  match getBox s.db n with
  | none => (.error .noSuchMailbox, s)
  | some b =>
    let have_ := ids.filter (boxHas b)
    if have_.isEmpty then (.ok (), s) else removeUnchecked s n have_

/-- `actionAddMessagesToMailbox(ids, mbox)`: messages already there are removed first and get a new UID -/
def actionAdd (s : St) (n : String) (ids : List Nat) : R (List Nat) :=
  match getBox s.db n with
  | none => (.error .noSuchMailbox, s)
  | some b =>
    let rem := ids.filter (boxHas b)
    let r1 : R Unit := if rem.isEmpty then (.ok (), s) else removeUnchecked s n rem
    match r1 with
    | (.error e, s) => (.error e, s)
    | (.ok (), s) =>
      match remoteAdd s with
      | (some e, s) => (.error e, s)
      | (none, s) => dbAddMessages s n ids

/-- `tx.GetMessageIDFromRemoteID` -/
def idOfRid (db : Db) (rid : Nat) : Option Nat := (db.rows.find? (·.2.rid == rid)).map (·.1)

/-- `tx.CreateMessageAndAddToMailbox(mbox, req)`: no limit check here -/
def dbCreateAndAdd (s : St) (n : String) (id rid : Nat) : R Nat :=
  match dbFault s with
  | (true, s) => (.error .storage, s)
  | (false, s) =>
    match getBox s.db n with
    | none => (.error .noSuchMailbox, s)
    | some b =>
      let db := updBox s.db n (fun b => { b with msgs := b.msgs ++ [(b.uidNext, id)], uidNext := b.uidNext + 1 })
      (.ok b.uidNext, { s with db := { db with rows := (id, { rid := rid }) :: db.rows } })

/-- `actionCreateMessage(mbox, literal, cameFromDrafts)` -/
def actionCreateMessage (s : St) (n : String) (l : Lit) (drafts : Bool) : R Nat :=
  match remoteCreate s l with
  | (.error e, s) => (.error e, s)
  | (.ok (rid, id, l), s) =>
    match idOfRid s.db rid with
    | some known =>
      if drafts then (.error .dupDrafts, s)
      else
        match actionAdd s n [known] with
        | (.error e, s) => (.error e, s)
        | (.ok uids, s) => (.ok (uids.headD 0), s)
    | none =>
      if !l.parseOk then (.error .parse, s)
      else
        match storeSet s id { l with gid := .id id } with
        | (false, s) => (.error .storage, s)
        | (true, s) => dbCreateAndAdd s n id rid

/-- remote ID of a recovered message (`ids.NewRecoveredRemoteMessageID`, prefix GLUON-RECOVERED-MESSAGE):
    odd numbers, the connector hands out even ones -/
def recRid (id : Nat) : Nat := 2 * id + 1

/-- the second half of `actionCreateRecoveredMessage`: write the literal, insert into the recovery mailbox -/
def storeRecovered (s : St) (id : Nat) (l : Lit) : R Bool :=
  match storeSet s id l with
  | (false, s) => (.error .storage, s)
  | (true, s) =>
    match dbCreateAndAdd s recName id (recRid id) with
    | (.error e, s) => (.error e, s)
    | (.ok _, s) => (.ok false, s)

/-- `actionCreateRecoveredMessage(literal)`: `true` = known message, nothing stored -/
def actionCreateRecovered (H : Nat → Nat) (s : St) (l : Lit) : R Bool :=
  let id := s.nextId
  let s := { s with nextId := s.nextId + 1 }
  if !l.parseOk then (.error .parse, s)
  else
    let (known, s) :=
      if l.hashOk then
        let (k, s') := hmInsert s id (H l.hv)
        (k, if k then s' else { s' with txIns := true })
      else (false, s)          -- Insert failed: `err == nil && alreadyKnown` is false, no hash recorded
    if known then (.ok true, s) else storeRecovered s id l

/-- `Mailbox.AppendRegular` -/
def appendRegular (s : St) (n : String) (l : Lit) : R Nat :=
  match getBox s.db n with
  | none => (.error .noSuchMailbox, s)
  | some b =>
    if !checkLimits s b 1 then (.error .limit, s)
    else if b.drafts then
      withTx s (fun s => actionCreateMessage s n { l with gid := .none } true)
    else
      let create := withTx s (fun s => actionCreateMessage s n l false)
      match l.gid with
      | .none => create
      | .bad => (.error .badGid, s)
      | .id g =>
        match s.db.rows.lookup g with
        | none => create
        | some row =>
          if row.deleted then create
          else
            match withTx s (fun s => actionAdd s n [g]) with
            | (.error e, s) => (.error e, s)
            | (.ok uids, s) => (.ok (uids.headD 0), s)

inductive AppendRes where
  /-- tagged OK [APPENDUID v uid] -/
  | ok (uid : Nat)
  /-- refused before the mailbox saw the message: protected name, no such mailbox (NO), invalid header (BAD) -/
  | refused (e : Err)
  | invalid
  /-- NO, connector.ErrMessageSizeExceedsLimits: nothing kept -/
  | tooLarge
  /-- NO for another reason; the recovery insert was attempted; `known` = "known recovered message" -/
  | rejected (e : Err) (known : Bool)
deriving DecidableEq, Repr

/-- `handleAppend` + `State.AppendOnlyMailbox` + `Mailbox.Append` -/
def append (H : Nat → Nat) (s : St) (n : String) (l : Lit) : AppendRes × St :=
  if isRecName n then (.refused .notAllowed, s)
  else
    match getBox s.db n with
    | none => (.refused .noSuchMailbox, s)
    | some b =>
      if !b.drafts && !l.valid then (.invalid, s)
      else
        match appendRegular s n l with
        | (.ok uid, s) => (.ok uid, s)
        | (.error e, s) =>
          if e == .size then (.tooLarge, s)
          else
            match withTx s (fun s => actionCreateRecovered H s l) with
            | (.ok known, s) => (.rejected e known, s)
            | (.error _, s) => (.rejected e false, s)

/-! ### COPY / MOVE / EXPUNGE -/

/-- `snap.getMessagesInRange` for a UID set of single UIDs: unknown UIDs are skipped -/
def selectUids (b : Mbox) (uids : List Nat) : List (Nat × Nat) :=
  uids.filterMap (fun u => b.msgs.find? (·.1 == u))

/-- `actionImportRecoveredMessage(id, mbox)`: (new internal ID, deduped) -/
def importRecovered (s : St) (id : Nat) : R (Nat × Bool) :=
  match s.store.lookup id with
  | none => (.error .storeGet, s)
  | some l =>
    match remoteCreate s l with
    | (.error e, s) => (.error e, s)
    | (.ok (rid, nid, l), s) =>
      match idOfRid s.db rid with
      | some known => (.ok (known, true), s)
      | none =>
        if !l.parseOk then (.error .parse, s)
        else
          match storeSet s nid { l with gid := .id nid } with
          | (false, s) => (.error .storage, s)
          | (true, s) =>
            match dbFault s with
            | (true, s) => (.error .storage, s)
            | (false, s) => (.ok (nid, false), { s with db := { s.db with rows := (nid, { rid := rid }) :: s.db.rows } })

/-- the import loop of actionCopy/MoveMessagesOutOfRecoveryMailbox; `mark` = MarkMessageAsDeleted when not deduped -/
def importAll (s : St) (ids : List Nat) (mark : Bool) : R (List Nat) :=
  match ids with
  | [] => (.ok [], s)
  | id :: r =>
    match importRecovered s id with
    | (.error e, s) => (.error e, s)
    | (.ok (nid, deduped), s) =>
      let s := if mark && !deduped then
          { s with db := { s.db with rows := s.db.rows.map (fun p => if p.1 == id then (p.1, { p.2 with deleted := true }) else p) } }
        else s
      match importAll s r mark with
      | (.error e, s) => (.error e, s)
      | (.ok nids, s) => (.ok (nid :: nids), s)

/-- `actionAddRecoveredMessagesToMailbox(ids, mbox)` -/
def addRecovered (s : St) (n : String) (ids : List Nat) : R (List Nat) :=
  match getBox s.db n with
  | none => (.error .noSuchMailbox, s)
  | some b =>
    let toAdd := ids.filter (fun i => !boxHas b i)
    match remoteAdd s with
    | (some e, s) => (.error e, s)
    | (none, s) => dbAddMessages s n toAdd

def copyOutOfRecovery (s : St) (ids : List Nat) (dst : String) : R (List Nat) :=
  match importAll s ids false with
  | (.error e, s) => (.error e, s)
  | (.ok nids, s) => addRecovered s dst nids

def moveOutOfRecovery (s : St) (ids : List Nat) (dst : String) : R (List Nat) :=
  match importAll s ids true with
  | (.error e, s) => (.error e, s)
  | (.ok nids, s) =>
    -- RemoveMessagesFromMailbox(recovery, old ids), then Erase: before the destination is written
    let s := { s with db := updBox s.db recName (fun b => b.remove ids) }
    let s := { hmErase s ids with txErase := true }
    addRecovered s dst nids

/-- `actionMoveMessages(ids, from, to)` -/
def actionMove (s : St) (src dst : String) (ids : List Nat) : R (List Nat) :=
  if src == dst then
    match removeUnchecked s dst ids with
    | (.error e, s) => (.error e, s)
    | (.ok (), s) => actionAdd s dst ids
  else
    match getBox s.db dst, getBox s.db src with
    | some bd, some bs =>
      let rem := ids.filter (boxHas bd)
      let r1 : R Unit := if rem.isEmpty then (.ok (), s) else removeUnchecked s dst rem
      match r1 with
      | (.error e, s) => (.error e, s)
      | (.ok (), s) =>
        let toMove := ids.filter (boxHas bs)
        match remoteMove s with
        | (some e, s) => (.error e, s)
        | (none, s) =>
          -- MoveMessagesFromMailbox: limits on the destination, remove from source, add
          match getBox s.db dst with
          | none => (.error .noSuchMailbox, s)
          | some bd =>
            if !checkLimits s bd toMove.length then (.error .limit, s)
            else
              let s := { s with db := updBox s.db src (fun b => b.remove toMove) }
              match getBox s.db dst with
              | none => (.error .noSuchMailbox, s)
              | some bd =>
                (.ok (bd.add toMove).2, { s with db := updBox s.db dst (fun b => (b.add toMove).1) })
    | _, _ => (.error .noSuchMailbox, s)

inductive CopyRes where
  /-- OK; source UIDs selected, destination UIDs assigned -/
  | ok (src dst : List Nat)
  | no (e : Err)
  /-- the source mailbox cannot be selected -/
  | nosel
deriving DecidableEq, Repr

/-- the COPYUID item of `Mailbox.Copy` / `Mailbox.Move`: source and destination UIDs pair up by
    position, so it is sent only when every selected message got a destination UID.  Out of the
    recovery mailbox a message the destination already holds (de-duplicated by the remote) is not
    added again: fewer destination UIDs than selected messages, and the answer is a plain OK
    (`([], [])`).  (`Mailbox.Move` first pairs by internal ID; out of the recovery mailbox the
    destination holds other internal IDs, nothing pairs; elsewhere the model always has as many.) -/
def copyUidItem (sel : List (Nat × Nat)) (duids : List Nat) : List Nat × List Nat :=
  if duids.length == sel.length then (sel.map (·.1), duids) else ([], [])

/-- `Mailbox.Copy` (the session has `src` selected) -/
def copy (s : St) (src : String) (uids : List Nat) (dst : String) : CopyRes × St :=
  match getBox s.db src with
  | none => (.nosel, s)
  | some bs =>
    if isRecName dst then (.no .notAllowed, s)
    else
      match getBox s.db dst with
      | none => (.no .noSuchMailbox, s)
      | some _ =>
        let sel := selectUids bs uids
        let ids := sel.map (·.2)
        let r := withTx s (fun s => if src == recName then copyOutOfRecovery s ids dst else actionAdd s dst ids)
        match r with
        | (.error e, s) => (.no e, s)
        | (.ok duids, s) => (.ok (copyUidItem sel duids).1 (copyUidItem sel duids).2, s)

/-- `Mailbox.Move` -/
def move (s : St) (src : String) (uids : List Nat) (dst : String) : CopyRes × St :=
  match getBox s.db src with
  | none => (.nosel, s)
  | some bs =>
    if isRecName dst then (.no .notAllowed, s)
    else
      match getBox s.db dst with
      | none => (.no .noSuchMailbox, s)
      | some _ =>
        let sel := selectUids bs uids
        let ids := sel.map (·.2)
        let r := withTx s (fun s => if src == recName then moveOutOfRecovery s ids dst else actionMove s src dst ids)
        match r with
        | (.error e, s) => (.no e, s)
        | (.ok duids, s) => (.ok (copyUidItem sel duids).1 (copyUidItem sel duids).2, s)

/-- STORE +FLAGS (\Deleted) on `uids`, then `Mailbox.Expunge` of them -/
def expunge (s : St) (src : String) (uids : List Nat) : Option Err × St :=
  match getBox s.db src with
  | none => (some .noSuchMailbox, s)
  | some bs =>
    let ids := (selectUids bs uids).map (·.2)
    match withTx s (fun s => actionRemove s src ids) with
    | (.error e, s) => (some e, s)
    | (.ok (), s) => (none, s)

/-! ### mailbox commands -/

def hasDelim (n : String) : Bool := n.toList.contains '/'

/-- `handleCreate` + `State.Create` (flat names) -/
def create (s : St) (n : String) : Option Err × St :=
  if isInbox n then (some .createInbox, s)
  else if hasRecPrefix n then (some .notAllowed, s)
  else if hasDelim n then (some .unsupported, s)
  else if (getBox s.db n).isSome then (some .existing, s)
  else (none, { s with db := { s.db with boxes := s.db.boxes ++ [{ name := n }] } })

/-- `handleDelete` + `State.Delete` -/
def delete (s : St) (n : String) : Option Err × St :=
  if isInbox n then (some .deleteInbox, s)
  else if isRecName n then (some .notAllowed, s)
  else if (getBox s.db n).isNone then (some .noSuchMailbox, s)
  else (none, { s with db := { s.db with boxes := delBoxes s.db.boxes n } })

/-- `handleRename` + `State.Rename` (flat names, not INBOX) -/
def rename (s : St) (o n : String) : Option Err × St :=
  if isRecName o || isRecName n then (some .notAllowed, s)
  else if (getBox s.db o).isNone then (some .noSuchMailbox, s)
  else if (getBox s.db n).isSome then (some .existing, s)
  else if hasDelim n || o == "INBOX" then (some .unsupported, s)
  else (none, { s with db := updBox s.db o (fun b => { b with name := n }) })

/-- `State.List`: the recovery mailbox is filtered out while it has no messages -/
def list (s : St) : List String :=
  (s.db.boxes.filter (fun b => !(b.name == recName && b.msgs.isEmpty))).map (·.name)

/-! ### restart: `newUser` rebuilds the hash map from the recovery mailbox -/

def rebuild (H : Nat → Nat) (store : List (Nat × Lit)) (ms : List (Nat × Nat)) (s : St) : St :=
  match ms with
  | [] => s
  | (_, id) :: r =>
    match store.lookup id with
    | none => rebuild H store r s           -- "Failed to load … for recovered message hashes map"
    | some l => if l.hashOk then rebuild H store r (hmInsert s id (H l.hv)).2 else rebuild H store r s

def restart (H : Nat → Nat) (s : St) : St :=
  rebuild H s.store (recMsgs s) { s with idToHash := [], hashes := [], staleHash := false }

/-! ### commands and runs -/

inductive Cmd where
  | append (mbox : String) (l : Lit)
  | copy (src : String) (uids : List Nat) (dst : String)
  | move (src : String) (uids : List Nat) (dst : String)
  | expunge (src : String) (uids : List Nat)
  | create (n : String)
  | delete (n : String)
  | rename (o n : String)
  | list
  | restart
deriving DecidableEq, Repr

inductive Res where
  | append (r : AppendRes)
  | copy (r : CopyRes)
  | status (e : Option Err)
  | list (names : List String)
  | done
deriving DecidableEq, Repr

def step (H : Nat → Nat) (s : St) : Cmd → Res × St
  | .append n l => let (r, s) := append H s n l; (.append r, s)
  | .copy a u d => let (r, s) := copy s a u d; (.copy r, s)
  | .move a u d => let (r, s) := move s a u d; (.copy r, s)
  | .expunge a u => let (r, s) := expunge s a u; (.status r, s)
  | .create n => let (r, s) := create s n; (.status r, s)
  | .delete n => let (r, s) := delete s n; (.status r, s)
  | .rename o n => let (r, s) := rename s o n; (.status r, s)
  | .list => (.list (list s), s)
  | .restart => (.done, restart H s)

def run (H : Nat → Nat) (s : St) : List Cmd → List Res × St
  | [] => ([], s)
  | c :: r =>
    let (x, s1) := step H s c
    let (xs, s2) := run H s1 r
    (x :: xs, s2)

/-- a fresh user: the recovery mailbox (created by `newUser`) and INBOX -/
def init (sc : Script) (lim : Limits.IMAP := Limits.defaultLimits) : St :=
  { db := { boxes := [{ name := recName }, { name := "INBOX" }] }, sc := sc, lim := lim }

/-- states reachable from a fresh user under some script by some command sequence -/
inductive Reachable (H : Nat → Nat) : St → Prop where
  | init (sc : Script) (lim : Limits.IMAP) : Reachable H (init sc lim)
  | step {s : St} (c : Cmd) : Reachable H s → Reachable H (step H s c).2

end Gluon.Append
