/-
M-SEL (C03): the session layer between the wire and the action level of `Model/Actions.lean` — the two fields of
`state.State` a message command depends on (`snap`: is a mailbox selected, which; `ro`: was it opened read-only) and the
handlers that read them, statement by statement after

  internal/state/state.go            State.Select, State.Examine, State.Selected, State.IsSelected, State.close
  internal/state/mailbox.go          newMailbox (`readOnly: state.ro`), Mailbox.ReadOnly, Mailbox.Close,
                                     Mailbox.Expunge's filter `State.pendingExpunges` (gluon 9c5a27f)
  internal/session/handle_store.go   handleStore      `if mailbox.ReadOnly() { return nil, ErrReadOnly }` (first check)
  internal/session/handle_expunge.go handleExpunge, handleUIDExpunge    (same)
  internal/session/handle_copy.go    handleCopy       (same: gluon refuses COPY in a read-only session)
  internal/session/handle_move.go    handleMove       (same)
  internal/session/handle_close.go   handleClose      `if !mailbox.ReadOnly() { mailbox.Expunge(ctx, nil) }`, flush, `mailbox.Close`
  internal/session/errors.go         ErrReadOnly is answered NO

State.Select / State.Examine:
  1. `GetMailboxByName` in a read transaction; `db.ErrNotFound` → `ErrNoSuchMailbox`, any other error as it is — the
     function RETURNS here, before it has assigned anything: the session keeps `snap` and `ro`;
  2. `state.close()` if a mailbox is selected (`snap = nil`, `res = nil`);
  3. `newSnapshot` in a read transaction;
  4. SELECT only: `ClearRecentFlagsInMailbox` in a write transaction — touches the `\Recent` column only, which `abs`
     does not look at: not modelled (nor is a failure of steps 3 / 4, which leaves the session without a selected
     mailbox: index failures are C07's topic);
  5. `state.snap = snap`, `state.ro = false` (Select) / `true` (Examine) — LAST, after every early return.
`State.close()` does not touch `ro`: after CLOSE the flag is stale, and meaningless, until the next SELECT / EXAMINE
assigns it (`Sess.ro` is modelled exactly so; the theorems speak about `ro` only while a mailbox is selected).

Mailbox.Expunge (EXPUNGE, UID EXPUNGE, CLOSE) since gluon 9c5a27f: of the snapshot entries marked `toExpunge` those are
dropped for which the session holds a pending `*expunge` responder in `state.res` — the session has been told that this
instance left the mailbox but could not yet tell its client (EXPUNGE responses wait for a command that permits them).  The
index knows a message by its id only, and COPY / MOVE into a mailbox that holds the message remove it and add it again
under a new UID: without the filter the stale entry (old UID, `\Deleted`) made EXPUNGE remove the new instance, which is
not `\Deleted`.  The responders of a session are a schedule input here (`pending`), like `Second`.

The selected mailbox is kept by name (`Model/Actions.lean` looks it up when a command runs; the set of mailboxes does
not change inside a C03 history).  Message sets arrive resolved, as in `Act.Cmd`.  Core Lean only.
-/
import GluonModel.Model.Actions

namespace Gluon.Sel
open Gluon.DB Gluon.Act

/-- `state.State`, the part the message commands depend on -/
structure Sess where
  /-- `state.snap`: `none` = nil, else the selected mailbox (its name) -/
  snap : Option String := none
  /-- `state.ro` -/
  ro : Bool := false
deriving DecidableEq, Repr

inductive Cmd where
  | select (name : String)
  | examine (name : String)
  /-- CLOSE; `msgs` = `snapshot.getAllMessagesIDsMarkedDelete()`, `pending` = the message ids of the `*expunge`
      responders in `state.res` (`State.pendingExpunges`) -/
  | close (msgs : Pairs) (pending : List MessageId)
  | store (msgs : Pairs) (action : StoreAction) (flags : List String)
  /-- EXPUNGE / UID EXPUNGE; `msgs` = the named snapshot messages with `toExpunge`, `pending` as for CLOSE -/
  | expunge (msgs : Pairs) (pending : List MessageId)
  | copy (dst : String) (msgs : Pairs)
  | move (dst : String) (msgs : Pairs)
deriving DecidableEq, Repr

inductive Answer where
  /-- what the action level answered -/
  | of (a : Act.Answer)
  /-- `session.ErrReadOnly`: NO "the mailbox is read-only" -/
  | readOnly
deriving DecidableEq, Repr

def Answer.isOk : Answer → Bool
  | .of .ok => true
  | _ => false

/-- `State.Select` (`readOnly = false`) / `State.Examine` (`readOnly = true`) -/
def openMailbox (s : Act.State) (sess : Sess) (name : String) (readOnly : Bool) : Answer × Sess :=
  match getMailboxByName s.db name with
  | .error .notFound => (.of (.no .noSuchMailbox), sess)       -- return ErrNoSuchMailbox
  | .error e => (.of (.no (.db e)), sess)                       -- return err
  | .ok mbox => (.of .ok, { snap := some mbox.name, ro := readOnly })

/-- `State.Selected` + `newMailbox`: the selected mailbox and `Mailbox.ReadOnly()` -/
def selectedMailbox (sess : Sess) : Except Answer (String × Bool) :=
  match sess.snap with
  | none => .error (.of (.no .notSelected))                    -- ErrSessionNotSelected
  | some mb => .ok (mb, sess.ro)

/-- `Mailbox.Expunge`: the marked snapshot entries without those whose removal is pending in `state.res` -/
def notPending (msgs : Pairs) (pending : List MessageId) : Pairs := msgs.filter fun p => !pending.contains p.1

/-- a handler that starts with the read-only check and then runs an action-level command in the selected mailbox -/
def guarded (E : Env) (s : Act.State) (sess : Sess) (q : Second) (c : String → Act.Cmd) : Answer × Sess × Act.State :=
  match selectedMailbox sess with
  | .error a => (a, sess, s)
  | .ok (mb, ro) =>
    if ro then (.readOnly, sess, s) else
    let r := Act.step E s (c mb) q
    (.of r.1, sess, r.2)

/-- one command of one session -/
def step (E : Env) (s : Act.State) (sess : Sess) (c : Cmd) (q : Second) : Answer × Sess × Act.State :=
  match c with
  | .select name => let r := openMailbox s sess name false; (r.1, r.2, s)
  | .examine name => let r := openMailbox s sess name true; (r.1, r.2, s)
  | .store msgs action flags => guarded E s sess q fun mb => .store mb msgs action flags
  | .expunge msgs pending => guarded E s sess q fun mb => .expunge mb (notPending msgs pending)
  | .copy dst msgs => guarded E s sess q fun mb => .copy mb dst msgs
  | .move dst msgs => guarded E s sess q fun mb => .move mb dst msgs
  | .close msgs pending =>
    match selectedMailbox sess with
    | .error a => (a, sess, s)
    | .ok (mb, ro) =>
      if ro then (.of .ok, { sess with snap := none }, s) else
      let r := Act.step E s (.expunge mb (notPending msgs pending)) q
      -- a failing Mailbox.Expunge ends the handler before mailbox.Close()
      if r.1.isOk then (.of .ok, { sess with snap := none }, r.2) else (.of r.1, sess, r.2)

/-! ### several sessions on one index -/

structure World where
  st : Act.State
  sess : Nat → Sess

/-- session `i` issues `c` -/
def stepW (E : Env) (w : World) (e : Nat × Cmd × Second) : World :=
  let r := step E w.st (w.sess e.1) e.2.1 e.2.2
  { st := r.2.2, sess := fun j => if j = e.1 then r.2.1 else w.sess j }

def runW (E : Env) (w : World) (es : List (Nat × Cmd × Second)) : World := es.foldl (stepW E) w

end Gluon.Sel
