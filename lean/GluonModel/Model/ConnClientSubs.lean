/-
M-ACT × M-NS-SUBS — what CLIENT commands do to the subscription tables of the index that connector
updates then meet.

`Model/ConnUpdates.lean` has the `subscribed` column and the `deleted_subscriptions` table, and
`applyMailboxDeleted` / `applyMailboxCreated` / `applyMailboxUpdated` read and write them; but a state
with `subscribed = false`, or with an entry in `deleted_subscriptions`, is only ever produced by a
client: `UNSUBSCRIBE` (internal/state/state.go `State.Unsubscribe`), `DELETE` of a subscribed mailbox
(`State.Delete` → `actionDeleteMailbox` → `DeleteMailboxWithRemoteID` → `AddDeletedSubscription`).
Those commands are modelled, statement by statement, in `Model/NamespaceSubs.lean` (C14).  They are
not written down a second time here: the index is projected onto the tables of that model
(`subsView`), the C14 definition is run, and the tables are written back (`withSubs`).  The judge of
oracle `c06updates` checks the real server against `clientStep` after every SUBSCRIBE / UNSUBSCRIBE /
DELETE step (class `model-client`), so the states the connector updates of a stream meet are the
states this model says the client commands produce.  Core Lean only.
-/
import GluonModel.Model.ConnUpdates
import GluonModel.Model.NamespaceSubs

namespace Gluon.ConnUpd

/-- the hierarchy delimiter of the servers oracle `c06updates` starts -/
def delim : Char := '/'

/-- the tables `mailboxes` (remote id, name, subscribed; number of messages) and
    `deleted_subscriptions` of the index, as `Model/NamespaceSubs.lean` keeps them -/
def subsView (db : DB) : NSS.St :=
  { rows := db.mboxes.map (fun m =>
      ({ rid := m.rid, name := m.name.toList, sub := m.subscribed, msgs := m.rows.length } : NSS.Row)),
    dsubs := db.delSubs.map (fun e => (e.1.toList, e.2)),
    fresh := 0 }

/-- the index with the rows of `S` (a mailbox whose remote id `S` no longer has is gone — its
    `mailbox_message_<id>` table with it —, the others take the `subscribed` value of `S`) and the
    deleted subscriptions of `S` -/
def withSubs (db : DB) (S : NSS.St) : DB :=
  { db with
      mboxes := db.mboxes.filterMap (fun m =>
        match S.rows.find? (fun r => r.rid == m.rid) with
        | some r => some { m with subscribed := r.sub }
        | none => none),
      delSubs := S.dsubs.map (fun e => (String.ofList e.1, e.2)) }

/-- the client commands that touch the subscription tables -/
inductive ClientCmd where
  | subscribe (name : String)
  | unsubscribe (name : String)
  | delete (name : String)
deriving DecidableEq, Repr

/-- handleSub / handleUnsub / handleDelete on the index: the C14 model on the projected tables.
    (`DELETE` leaves the message rows of `messages_v2` alone: `DeleteMailboxWithRemoteID` drops the
    mailbox's own table only.) -/
def clientStep (db : DB) : ClientCmd → Except NSS.Err DB
  | .subscribe n => (NSS.subscribe delim (subsView db) n.toList).map (withSubs db)
  | .unsubscribe n => (NSS.unsubscribe delim (subsView db) n.toList).map (withSubs db)
  | .delete n => (NSS.delete delim (subsView db) n.toList).map (withSubs db)

/-- what the subscription tables look like from outside: per mailbox (internal id, remote id, name,
    subscribed), and the deleted subscriptions -/
def subsKey (db : DB) : List (Nat × RID × String × Bool) × List (String × RID) :=
  (db.mboxes.map (fun m => (m.iid, m.rid, m.name, m.subscribed)), db.delSubs)

end Gluon.ConnUpd
