/-
M-SEQSET: model of message-set resolution, from the TEXT of a sequence set to the selected
messages (C16).

  rfcparser/parser.go            ParseNumber (digit accumulation in a Go `int`; a value above
                                 math.MaxUint32 is a parse error since fix d71238c)
  imap/command/seq_set.go        ParseNZNumber, ParseSeqNumber, ParseSeqRange, ParseSeqSet
  internal/state/snapshot_messages.go
                                 binarySearchByUID (golang.org/x/exp/slices.BinarySearchFunc),
                                 resolveSeq, resolveUID, resolveSeqInterval, resolveUIDInterval,
                                 getWithSeqID, existsWithSeqID, seqRange, uidRange, getWithUID,
                                 getMessagesInSeqRange, getMessagesInUIDRange
  internal/state/snapshot.go     getMessagesInRange (mode switch + de-duplication, fix 5288904)
  internal/state/mailbox_search.go, snapshot.go
                                 buildSearchOpSeqSet, buildSearchOpUID, SeqInterval.contains,
                                 the loop of Mailbox.Search (for these two keys)

Statement by statement, with Go's conversions explicit:

* `command.SeqNum` is a Go `int` (64 bit): modelled as `Int`; `0` is `*` (`SeqNumValueAsterisk`).
* `imap.SeqID`, `imap.UID` are `uint32`: modelled as `Nat`, every conversion `imap.SeqID(x)` /
  `imap.UID(x)` of an `int` is `toU32 x` (two's complement truncation mod 2^32); `seqLo-1` on a
  `uint32` wraps (`u32Pred`).
* arithmetic on `int` inside `ParseNumber` wraps to 64 bit (`wrap64`) after every statement
  (it provably never does, the 32-bit check comes first).
* an index / slice expression that is out of range is the explicit outcome `.error .panic`
  (`goIndex`, `goSlice`).  Go checks a slice's upper bound against the *capacity*; the model checks
  it against the length (`cap = len` for a freshly built list).  On the call paths of
  `getMessagesIn{Seq,UID}Range` the upper bound is `≤ len` anyway: `seqRange` is only reached after
  `existsWithSeqID(end)` (⇔ `end ≤ len`, Lemmas/SeqSetSeq.lean `existsWithSeqID_iff`), `uidRange`
  clips `indexHi` to `listLen` — so the model panics at least as often as the code.

The functions are written over `Snap` (Model/Snap.lean: the ordered message list; the id map of
`snapMsgList` is not used by any function here).
-/
import GluonModel.Model.Snap

namespace Gluon
namespace SeqSet

/-! ### Go integer conversions -/

/-- `uint32(x)` for a Go `int` x (also `imap.SeqID(x)`, `imap.UID(x)`): truncation mod 2^32. -/
def toU32 (x : Int) : Nat := (x % 4294967296).toNat

/-- a mathematical integer wrapped into the Go `int` (int64) range. -/
def wrap64 (x : Int) : Int := (x + 9223372036854775808) % 18446744073709551616 - 9223372036854775808

/-- `x - 1` in `uint32` arithmetic (`0 - 1` wraps to 2^32 - 1). -/
def u32Pred (x : Nat) : Nat := if x = 0 then 4294967295 else x - 1

/-- Go `l[i]` (i an `int`): panics unless `0 ≤ i < len`. -/
def goIndex {α : Type} (l : List α) (i : Int) : Except Err α :=
  if i < 0 then .error .panic
  else match l[i.toNat]? with
    | some x => .ok x
    | none => .error .panic

/-- Go `l[lo:hi]`: panics unless `0 ≤ lo ≤ hi ≤ len` (len standing in for cap, see header). -/
def goSlice {α : Type} (l : List α) (lo hi : Int) : Except Err (List α) :=
  if 0 ≤ lo ∧ lo ≤ hi ∧ hi ≤ (l.length : Int) then .ok ((l.drop lo.toNat).take (hi.toNat - lo.toNat))
  else .error .panic

/-! ### snapMsgList -/

/-- `snapMsgWithSeq` -/
structure SeqMsg where
  seq : Nat
  msg : SMsg
deriving DecidableEq, Repr

/-- `command.SeqRange` (`Begin`, `End` are `SeqNum` = Go `int`; 0 = `*`). -/
structure SeqRange where
  b : Int
  e : Int
deriving DecidableEq, Repr

/-- `SeqInterval` / `UIDInterval` (both fields `uint32`). -/
structure Interval where
  b : Nat
  e : Nat
deriving DecidableEq, Repr

/-- The loop of `slices.BinarySearchFunc` with `cmp(a, t) = int(a.UID) - int(t.UID)`:
    `for i < j { h := (i+j)/2; if cmp(x[h], target) < 0 { i = h+1 } else { j = h } }`.
    `fuel` bounds the number of iterations (the caller passes `len`, `j - i` shrinks every turn). -/
def bsLoop (s : Snap) (target : Nat) : Nat → Nat → Nat → Nat
  | 0, i, _ => i
  | fuel + 1, i, j =>
    if i < j then
      let h := (i + j) / 2
      match s[h]? with
      | none => i  -- not reachable: h < j ≤ len
      | some m =>
        if (m.uid : Int) - (target : Int) < 0 then bsLoop s target fuel (h + 1) j
        else bsLoop s target fuel i h
    else i

/-- `list.binarySearchByUID(uid)`: `(i, i < n && cmp(x[i], target) == 0)`. -/
def binarySearchByUID (s : Snap) (uid : Nat) : Nat × Bool :=
  let i := bsLoop s uid s.length 0 s.length
  (i, match s[i]? with
      | some m => decide ((m.uid : Int) - (uid : Int) = 0)
      | none => false)

/-- `list.resolveSeq(number)`: `*` is `SeqID(len)`, anything else `SeqID(number)` — no range
    check, the conversion truncates.  The Go function never returns an error. -/
def resolveSeq (s : Snap) (number : Int) : Except Err Nat :=
  if number = 0 then .ok (toU32 s.length) else .ok (toU32 number)

/-- `list.resolveUID(number)`. -/
def resolveUID (s : Snap) (number : Int) : Except Err Nat :=
  if s.length = 0 then .error .noSuchMessage
  else if number = 0 then
    -- list.last().UID = list.msg[len-1].UID
    match goIndex s ((s.length : Int) - 1) with
    | .ok m => .ok m.uid
    | .error e => .error e
  else .ok (toU32 number)

/-- One turn of the loop of `resolveSeqInterval` / `resolveUIDInterval` (the two Go functions have
    the same text up to the resolver they call). -/
def resolveOne (res : Int → Except Err Nat) (r : SeqRange) : Except Err Interval :=
  if r.b = r.e then do
    let x ← res r.b
    .ok ⟨x, x⟩
  else do
    -- if Begin == * { Begin, End = End, Begin }
    let (rb, re) := if r.b = 0 then (r.e, r.b) else (r.b, r.e)
    let b ← res rb
    let e ← res re
    if b > e then
      if re ≠ 0 then .ok ⟨e, b⟩   -- begin, end = end, begin
      else .ok ⟨b, b⟩            -- end = begin
    else .ok ⟨b, e⟩

def resolveAll (res : Int → Except Err Nat) : List SeqRange → Except Err (List Interval)
  | [] => .ok []
  | r :: rest => do
    let iv ← resolveOne res r
    let ivs ← resolveAll res rest
    .ok (iv :: ivs)

/-- `list.resolveSeqInterval(seqSet)` -/
def resolveSeqInterval (s : Snap) (set : List SeqRange) : Except Err (List Interval) :=
  resolveAll (resolveSeq s) set

/-- `list.resolveUIDInterval(seqSet)` -/
def resolveUIDInterval (s : Snap) (set : List SeqRange) : Except Err (List Interval) :=
  resolveAll (resolveUID s) set

/-- `list.getWithSeqID(id)`: `index := int(id) - 1; if listLen == 0 || index >= listLen { false }`,
    then `list.msg[index]` (which panics for `id = 0` on a non-empty list). -/
def getWithSeqID (s : Snap) (id : Nat) : Except Err (Option SeqMsg) :=
  let index : Int := (id : Int) - 1
  if s.length = 0 ∨ index ≥ (s.length : Int) then .ok none
  else match goIndex s index with
    | .ok m => .ok (some ⟨id, m⟩)
    | .error e => .error e

/-- `list.existsWithSeqID(id)`: `int(id) - 1 < listLen` (true for `id = 0`). -/
def existsWithSeqID (s : Snap) (id : Nat) : Bool :=
  let index : Int := (id : Int) - 1
  if index ≥ (s.length : Int) then false else true

/-- attach `Seq = SeqID(first + i)` to the i-th element (the `for i, v := range interval` loops). -/
def number (first : Int) : List SMsg → List SeqMsg
  | [] => []
  | m :: rest => ⟨toU32 first, m⟩ :: number (first + 1) rest

/-- `list.seqRange(seqLo, seqHi)`: `interval := list.msg[seqLo-1 : seqHi]` (uint32 arithmetic for
    `seqLo-1`), `result[i].Seq = SeqID(int(seqLo) + i)`. -/
def seqRange (s : Snap) (seqLo seqHi : Nat) : Except Err (List SeqMsg) :=
  match goSlice s (u32Pred seqLo : Nat) (seqHi : Nat) with
  | .error e => .error e
  | .ok interval => .ok (number (seqLo : Int) interval)

/-- `list.uidRange(uidLo, uidHi)`. -/
def uidRange (s : Snap) (uidLo uidHi : Nat) : Except Err (List SeqMsg) :=
  let listLen := s.length
  let indexLo := (binarySearchByUID s uidLo).1
  if indexLo ≥ listLen then .ok []
  else
    let (indexHi0, ok) := binarySearchByUID s uidHi
    let indexHi1 := if ok then indexHi0 + 1 else indexHi0
    let indexHi := if indexHi1 ≥ listLen then listLen else indexHi1
    match goSlice s (indexLo : Nat) (indexHi : Nat) with
    | .error e => .error e
    | .ok interval => .ok (number ((indexLo : Int) + 1) interval)

/-- `list.getWithUID(uid)`. -/
def getWithUID (s : Snap) (uid : Nat) : Except Err (Option SeqMsg) :=
  let (index, ok) := binarySearchByUID s uid
  if !ok then .ok none
  else match goIndex s (index : Int) with
    | .ok m => .ok (some ⟨toU32 ((index : Int) + 1), m⟩)
    | .error e => .error e

/-- body of the `for _, seqRange := range intervals` loop of `getMessagesInSeqRange`: the messages
    it appends, or the error it returns with. -/
def seqOne (s : Snap) (iv : Interval) : Except Err (List SeqMsg) :=
  if iv.b = iv.e then
    match getWithSeqID s iv.b with
    | .error e => .error e
    | .ok none => .error .noSuchMessage
    | .ok (some m) => .ok [m]
  else
    if !existsWithSeqID s iv.b || !existsWithSeqID s iv.e then .error .noSuchMessage
    else seqRange s iv.b iv.e

/-- body of the loop of `getMessagesInUIDRange`. -/
def uidOne (s : Snap) (iv : Interval) : Except Err (List SeqMsg) :=
  if iv.b = iv.e then
    match getWithUID s iv.b with
    | .error e => .error e
    | .ok none => .ok []      -- continue
    | .ok (some m) => .ok [m]
  else uidRange s iv.b iv.e

/-- `res = append(res, …)` over all intervals, first error / panic wins. -/
def collect (one : Interval → Except Err (List SeqMsg)) : List Interval → Except Err (List SeqMsg)
  | [] => .ok []
  | iv :: rest => do
    let ms ← one iv
    let more ← collect one rest
    .ok (ms ++ more)

/-- `list.getMessagesInSeqRange(seqSet)` -/
def getMessagesInSeqRange (s : Snap) (set : List SeqRange) : Except Err (List SeqMsg) := do
  let intervals ← resolveSeqInterval s set
  collect (seqOne s) intervals

/-- `list.getMessagesInUIDRange(seqSet)` -/
def getMessagesInUIDRange (s : Snap) (set : List SeqRange) : Except Err (List SeqMsg) :=
  if s.length = 0 then .ok []
  else do
    let intervals ← resolveUIDInterval s set
    collect (uidOne s) intervals

/-! ### snapshot.getMessagesInRange (internal/state/snapshot.go)

What FETCH, STORE, COPY, MOVE and UID EXPUNGE call: the resolve function for the mode, then (since
fix 5288904) the loop that keeps the first occurrence of every internal message id — "1,1" or
"1:3,2" name each message once. -/

/-- `for _, msg := range msgs { if _, ok := seen[id]; ok { continue }; seen[id] = …; unique = append(unique, msg) }` -/
def uniqueById : List MsgId → List SeqMsg → List SeqMsg
  | _, [] => []
  | seen, m :: rest =>
    if seen.contains m.msg.id then uniqueById seen rest
    else m :: uniqueById (m.msg.id :: seen) rest

/-- `snapshot.getMessagesInRange` (`uidMode` = `contexts.IsUID(ctx)`) -/
def getMessagesInRange (uidMode : Bool) (s : Snap) (set : List SeqRange) : Except Err (List SeqMsg) :=
  match (if uidMode then getMessagesInUIDRange s set else getMessagesInSeqRange s set) with
  | .error e => .error e
  | .ok msgs => .ok (uniqueById [] msgs)

/-! ### SEARCH with a message-set key (internal/state/mailbox_search.go, snapshot.go)

`Mailbox.Search` walks over `getWithSeqID(SeqID(i+1))` for `i = 0 … len-1` and keeps the messages the
search program accepts.  For the keys `<sequence set>` (`buildSearchOpSeqSet`) and `UID <sequence
set>` (`buildSearchOpUID`) the program is "some resolved interval contains the message's sequence
number / UID": the set is only *resolved* (`resolveSeqInterval` / `resolveUIDInterval`), the
`existsWithSeqID` checks of `getMessagesInSeqRange` are not made, and `resolveUID`'s error on an
empty snapshot is not shielded by the `len == 0` early return of `getMessagesInUIDRange`. -/

/-- `SeqInterval.contains` / `UIDInterval.contains` -/
def Interval.contains (iv : Interval) (x : Nat) : Bool := decide (x ≥ iv.b) && decide (x ≤ iv.e)

/-- all messages with their sequence numbers, as the loop of `Mailbox.Search` sees them -/
def allWithSeq (s : Snap) : List SeqMsg := number 1 s

/-- `Mailbox.Search` for the one-key program `<sequence set>` -/
def searchSeqSet (s : Snap) (set : List SeqRange) : Except Err (List SeqMsg) := do
  let intervals ← resolveSeqInterval s set
  .ok ((allWithSeq s).filter fun m => intervals.any fun iv => iv.contains m.seq)

/-- `Mailbox.Search` for the one-key program `UID <sequence set>` -/
def searchUIDSet (s : Snap) (set : List SeqRange) : Except Err (List SeqMsg) := do
  let intervals ← resolveUIDInterval s set
  .ok ((allWithSeq s).filter fun m => intervals.any fun iv => iv.contains m.msg.uid)

/-! ### the parser: text of a sequence set → `[]command.SeqRange`

The parser state is the list of bytes not yet consumed; its head is `currentToken` (EOF when the
list is empty).  `Advance` cannot fail on an in-memory reader (every byte value has a token type).
All parse errors are one outcome (`none`): the session answers BAD to each of them. -/

abbrev Input := List Char

def isDigit (c : Char) : Bool := '0' ≤ c ∧ c ≤ '9'

/-- `rfcparser.ByteToInt` -/
def byteToInt (c : Char) : Int := (c.toNat : Int) - 48

/-- the `for { if ok := p.Matches(TokenTypeDigit) … }` loop of `ParseNumber`:
    `number *= 10; number += ByteToInt(…)` (Go `int`: both statements wrap to 64 bit), then
    `if number > math.MaxUint32 { return error }` (since fix d71238c: checked after every digit,
    so the accumulator never exceeds 2^32-1 on loop entry and the wrap-around cannot happen,
    see `Lemmas/SeqSetParse.lean: parseDigits_value`). -/
def parseDigits : Int → Input → Option (Int × Input)
  | number, [] => some (number, [])
  | number, c :: rest =>
    if isDigit c then
      let n1 := wrap64 (number * 10)
      let n2 := wrap64 (n1 + byteToInt c)
      if n2 > 4294967295 then none else parseDigits n2 rest
    else some (number, c :: rest)

/-- `(*Parser).ParseNumber` -/
def parseNumber : Input → Option (Int × Input)
  | [] => none
  | c :: rest => if isDigit c then parseDigits (byteToInt c) rest else none

/-- `command.ParseNZNumber`: rejects `num <= 0`. -/
def parseNZNumber (inp : Input) : Option (Int × Input) :=
  match parseNumber inp with
  | none => none
  | some (num, rest) => if num ≤ 0 then none else some (num, rest)

/-- `p.Matches(tokenType)` for a single-byte token type: consume the head if it is `c`. -/
def matchTok (c : Char) : Input → Option Input
  | [] => none
  | d :: rest => if d = c then some rest else none

/-- `command.ParseSeqNumber` -/
def parseSeqNumber (inp : Input) : Option (Int × Input) :=
  match matchTok '*' inp with
  | some rest => some (0, rest)
  | none => parseNZNumber inp

/-- `command.ParseSeqRange` -/
def parseSeqRange (inp : Input) : Option (SeqRange × Input) :=
  match parseSeqNumber inp with
  | none => none
  | some (b, rest) =>
    match matchTok ':' rest with
    | none => some (⟨b, b⟩, rest)
    | some rest' =>
      match parseSeqNumber rest' with
      | none => none
      | some (e, rest'') => some (⟨b, e⟩, rest'')

/-- the `for { if ok := p.Matches(TokenTypeComma) … }` loop of `ParseSeqSet`; every turn consumes at
    least two bytes, `fuel` = number of bytes left is enough. -/
def parseSeqSetLoop : Nat → Input → Option (List SeqRange × Input)
  | 0, inp => some ([], inp)
  | fuel + 1, inp =>
    match matchTok ',' inp with
    | none => some ([], inp)
    | some rest =>
      match parseSeqRange rest with
      | none => none
      | some (r, rest') =>
        match parseSeqSetLoop fuel rest' with
        | none => none
        | some (rs, rest'') => some (r :: rs, rest'')

/-- `command.ParseSeqSet` (after the initial `p.Advance()`); returns the ranges and the input that
    is left. -/
def parseSeqSet (inp : Input) : Option (List SeqRange × Input) :=
  match parseSeqRange inp with
  | none => none
  | some (r, rest) =>
    match parseSeqSetLoop rest.length rest with
    | none => none
    | some (rs, rest') => some (r :: rs, rest')

/-! ### text to messages -/

inductive Outcome where
  | bad                          -- parse error: tagged BAD
  | failed (e : Err)             -- ErrNoSuchMessage (tagged BAD / NO), or a Go panic
  | selected (ms : List SeqMsg)
deriving DecidableEq, Repr

/-- a whole message-set argument of FETCH / STORE / COPY / MOVE / UID EXPUNGE: parse the text, then
    `snapshot.getMessagesInRange` against the snapshot. -/
def selectText (uidMode : Bool) (s : Snap) (text : Input) : Outcome :=
  match parseSeqSet text with
  | none => .bad
  | some (set, _) =>
    match getMessagesInRange uidMode s set with
    | .ok ms => .selected ms
    | .error e => .failed e

end SeqSet
end Gluon
