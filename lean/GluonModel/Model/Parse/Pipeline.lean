/- The reader loop of `internal/session/command.go` (`startCommandReader`) on its success path: ONE parser
is used for the whole connection; `Parse` is called again and again on what the previous calls left unread,
and every command it returns is handed to the session. (What the loop does after a parser error —
`ConsumeInvalidInput`, exit on EOF — is modelled with the session, `Driver/DParse.lean: sessionStep`, C11.)

A command of the model is a value: once returned it is what it is. In Go a `command.Command` is handed over
by reference while the same `rfcparser.Parser` goes on reading; the two agree as long as no returned payload
shares memory with anything the parser writes to later (strings are copies; the one `[]byte` payload field,
`Append.Literal`, is the slice `ParseLiteral` returned: `Generated/Facts/ParseAlias.lean`, theorem
`C10.literal_result_fresh`), and the `c10pipe` correspondence dialect renders every command of a pipelined
stream only after the last one has been parsed.
-/
import GluonModel.Model.Parse.Grammar

namespace Gluon.Parse

/-- at most `n` successful `Parse` calls of one parser, each continuing in the state the previous one
left; stops at the first call that does not return a command -/
def parseStream (fuel : Nat) : Nat → PState → List Command × PState
  | 0, s => ([], s)
  | n + 1, s =>
    match parseLine fuel s with
    | .ok c s' =>
      let r := parseStream fuel n s'
      (c :: r.1, r.2)
    | _ => ([], s)

end Gluon.Parse
