/-
M-PARSE, part 3: the command AST, mirroring the Go structs of `imap/command/*.go`.

Go `string`/`[]byte` are byte lists, Go `int`/`int64` are `Int` (already wrapped to 64 bit by the
number parser), `time.Time` values are kept as the arguments of the `time.Date(...)` call that made
them (`Date`, `DateTime`); `goUnix` below is the instant `time.Date` computes from them.
-/
import GluonModel.Model.Parse.Scanner

namespace Gluon.Parse

abbrev BStr := List UInt8

/-- `SeqRange{Begin, End}`; `SeqNum` 0 is `*`. -/
structure SeqRange where
  b : Int
  e : Int
  deriving DecidableEq, Repr, Inhabited

abbrev SeqSet := List SeqRange

inductive StatusAttr
  | messages | recent | uidNext | uidValidity | unseen
  deriving DecidableEq, Repr, Inhabited

inductive StoreAction
  | add | rem | set
  deriving DecidableEq, Repr, Inhabited

/-- arguments of `time.Date(year, month, day, 0, 0, 0, 0, time.UTC)` in `ParseDateText` -/
structure Date where
  year : Int
  month : Int
  day : Int
  deriving DecidableEq, Repr, Inhabited

/-- arguments of `time.Date(year, month, day, hour, min, sec, 0, time.FixedZone("zone", zone))` in
`ParseDateTime`; `zone` in seconds east of UTC -/
structure DateTime where
  year : Int
  month : Int
  day : Int
  hour : Int
  min : Int
  sec : Int
  zone : Int
  deriving DecidableEq, Repr, Inhabited

/-- section-msgtext / section-text -/
inductive SecText
  | header
  | headerFields (negate : Bool) (fields : List BStr)
  | text
  | mime
  deriving DecidableEq, Repr, Inhabited

/-- `BodySection`: a message text section or `BodySectionPart{Part, Section}` -/
inductive Section
  | msg (t : SecText)
  | part (p : List Int) (t : Option SecText)
  deriving DecidableEq, Repr, Inhabited

inductive FetchAttr
  | all | full | fast | envelope | flags | internalDate | rfc822Header | rfc822Size | rfc822
  | rfc822Text | bodyStructure | body | uid
  /-- `FetchAttributeBodySection{Section, Peek, Partial}` -/
  | bodySection (sec : Option Section) (peek : Bool) (part : Option (Int × Int))
  deriving DecidableEq, Repr, Inhabited

mutual
inductive SearchKey
  | all | answered | deleted | flagged | new | old | recent | seen | unanswered | undeleted
  | unflagged | unseen | draft | undraft
  | bcc (v : BStr) | body (v : BStr) | cc (v : BStr) | from (v : BStr) | subject (v : BStr)
  | text (v : BStr) | to (v : BStr)
  | keyword (v : BStr) | unkeyword (v : BStr)
  | header (f : BStr) (v : BStr)
  | before (d : Date) | on (d : Date) | since (d : Date)
  | sentBefore (d : Date) | sentOn (d : Date) | sentSince (d : Date)
  | larger (n : Int) | smaller (n : Int)
  | uid (s : SeqSet) | seqSet (s : SeqSet)
  | not (k : SearchKey)
  | or (k1 : SearchKey) (k2 : SearchKey)
  | list (ks : SearchKeys)
/-- the `[]SearchKey` inside `SearchKeyList` -/
inductive SearchKeys
  | nil
  | cons (k : SearchKey) (ks : SearchKeys)
end

def SearchKeys.ofList : List SearchKey → SearchKeys
  | [] => .nil
  | k :: ks => .cons k (SearchKeys.ofList ks)

def SearchKeys.toList : SearchKeys → List SearchKey
  | .nil => []
  | .cons k ks => k :: ks.toList

instance : Inhabited SearchKey := ⟨.all⟩

/-- `command.Payload` -/
inductive Cmd
  | done | capability | idle | noop | logout | check | close | expunge | unselect | starttls
  | login (user : BStr) (pass : BStr)
  | select (m : BStr) | examine (m : BStr) | create (m : BStr) | delete (m : BStr)
  | subscribe (m : BStr) | unsubscribe (m : BStr)
  | rename (src : BStr) (dst : BStr)
  | list (m : BStr) (pat : BStr) | lsub (m : BStr) (pat : BStr)
  | status (m : BStr) (attrs : List StatusAttr)
  | store (s : SeqSet) (a : StoreAction) (flags : List BStr) (silent : Bool)
  | copy (s : SeqSet) (m : BStr) | move (s : SeqSet) (m : BStr)
  | uid (c : Cmd) | uidExpunge (s : SeqSet)
  | fetch (s : SeqSet) (attrs : List FetchAttr)
  | append (m : BStr) (flags : List BStr) (dt : Option DateTime) (lit : BStr)
  | search (charset : BStr) (keys : List SearchKey)
  | idGet
  /-- `IDSet{Values map[string]string}` as an association list with distinct keys, in order of
  first insertion -/
  | idSet (vals : List (BStr × BStr))

instance : Inhabited Cmd := ⟨.noop⟩

/-- `command.Command{Tag, Payload}` -/
structure Command where
  tag : BStr
  payload : Cmd

/-! ### `time.Date` -/

/-- days from 1970-01-01 to year-month-01 in the proleptic Gregorian calendar (month 1..12) -/
def daysFromCivil (y m : Int) : Int :=
  let y' := if m ≤ 2 then y - 1 else y
  let era := y' / 400  -- Int `/` rounds down for a positive divisor
  let yoe := y' - era * 400
  let mp := (m + 9) % 12
  let doy := (153 * mp + 2) / 5
  let doe := yoe * 365 + yoe / 4 - yoe / 100 + doy
  era * 146097 + doe - 719468

/-- Unix seconds of `time.Date(year, month, day, hour, min, sec, 0, FixedZone(zone))` for month in 1..12:
Go normalises overflowing day/hour/min/sec values by plain addition. -/
def goUnix (d : DateTime) : Int :=
  (daysFromCivil d.year d.month + (d.day - 1)) * 86400 + d.hour * 3600 + d.min * 60 + d.sec - d.zone

def Date.toDateTime (d : Date) : DateTime := ⟨d.year, d.month, d.day, 0, 0, 0, 0⟩

end Gluon.Parse
