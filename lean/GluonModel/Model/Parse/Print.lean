/-
M-PARSE, part 5: the printer. `print : Command → Choices → Bytes` writes a command in IMAP wire syntax.

`Choices` is an infinite stream of naturals; every string argument takes its encoding preference
(atom / quoted / literal) and every keyword letter its case from its own position of the stream
(`Choices.l`, `.r`, `.tl` split the stream into independent sub-streams for the sub-terms), so
quantifying over all `Choices` quantifies over every independent choice per occurrence. A preference
that is not admissible for the string at hand falls back to an admissible encoding:
  atom     only if non-empty and all bytes RFC 3501 ASTRING-CHARs other than `[` (gluon rejects `[`, a
           valid ATOM-CHAR: `Gluon.C10.lbracket_atom_witness`) and not starting with `{`;
  quoted   only if no NUL, CR, LF (RFC 3501 TEXT-CHAR);
  literal  always (the empty string as `{0}`), and it is the fallback.
-/
import GluonModel.Model.Parse.Grammar

namespace Gluon.Parse

abbrev Choices := Nat → Nat

def Choices.l (c : Choices) : Choices := fun i => c (2 * i + 1)
def Choices.r (c : Choices) : Choices := fun i => c (2 * i + 2)
def Choices.tl (c : Choices) : Choices := fun i => c (i + 1)
def Choices.here (c : Choices) : Nat := c 0

/-! ### keywords -/

def byteToUpper (b : UInt8) : UInt8 :=
  if 97 ≤ b.toNat && b.toNat ≤ 122 then b - 32 else b

/-- print a keyword, the case of the i-th letter chosen by the parity of the i-th choice -/
def kwCase (c : Choices) : Bytes → Bytes
  | [] => []
  | b :: bs => (if c 0 % 2 = 1 then byteToUpper b else byteToLower b) :: kwCase c.tl bs

/-! ### numbers -/

/-- the ASCII digit for `k < 10` -/
def digitByte (k : Nat) : UInt8 := (48 + k).toUInt8

/-- decimal digits of `n`, no leading zeros -/
def natDigits (n : Nat) : Bytes :=
  if n < 10 then [digitByte n] else natDigits (n / 10) ++ [digitByte (n % 10)]
decreasing_by omega

/-- a non-negative `Int` in decimal -/
def printNum (n : Int) : Bytes := natDigits n.toNat

/-! ### strings -/

/-- RFC 3501 ASTRING-CHAR (ATOM-CHAR or `]`): 7-bit, not a control, none of `( ) { SP % * " \` -/
def rfcAStringCharN (n : Nat) : Bool :=
  33 ≤ n && n ≤ 126 && !(n == 40 || n == 41 || n == 123 || n == 37 || n == 42 || n == 34 || n == 92)

def rfcAStringChar (b : UInt8) : Bool := rfcAStringCharN b.toNat

/-- may be written as an atom (`[` excluded, see above) -/
def atomOK (s : Bytes) : Bool := !s.isEmpty && s.all (fun b => rfcAStringChar b && b.toNat != 91)

/-- may be written as a quoted string by RFC 3501 -/
def quotedOK (s : Bytes) : Bool := s.all (fun b => b != 0 && b != 13 && b != 10)

def escapeQuoted : Bytes → Bytes
  | [] => []
  | b :: bs => if b == 34 || b == 92 then 92 :: b :: escapeQuoted bs else b :: escapeQuoted bs

/-- `"…"` with `"` and `\` escaped -/
def printQuoted (s : Bytes) : Bytes := 34 :: escapeQuoted s ++ [34]

/-- `{n}CRLF…` -/
def printLiteral (s : Bytes) : Bytes := 123 :: natDigits s.length ++ [125, 13, 10] ++ s

/-- `string = quoted / literal`; preference `e % 2`: 0 quoted, 1 literal -/
def printString (e : Nat) (s : Bytes) : Bytes :=
  if e % 2 = 0 && quotedOK s then printQuoted s
  else printLiteral s

/-- `astring`; preference `e % 3`: 0 atom, 1 quoted, 2 literal -/
def printAString (e : Nat) (s : Bytes) : Bytes :=
  if e % 3 = 0 && atomOK s then s
  else if e % 3 ≠ 2 && quotedOK s then printQuoted s
  else printLiteral s

/-! ### lists -/

/-- `sep x1 sep x2 …`, independent choices per element -/
def printSepTail (sepB : UInt8) (pr : Choices → α → Bytes) : Choices → List α → Bytes
  | _, [] => []
  | c, x :: xs => sepB :: (pr c.l x ++ printSepTail sepB pr c.r xs)

/-- `x0 sep x1 sep x2 …` -/
def printSepList (sepB : UInt8) (pr : Choices → α → Bytes) (c : Choices) : List α → Bytes
  | [] => []
  | x :: xs => pr c.l x ++ printSepTail sepB pr c.r xs

/-! ### mailboxes, sequence sets, flags -/

def printMailbox (c : Choices) (m : BStr) : Bytes := printAString c.here m

/-- may be written as `1*list-char` (`[` excluded as for atoms) -/
def listAtomOK (s : Bytes) : Bool :=
  !s.isEmpty && s.all (fun b => (rfcAStringChar b || b.toNat == 37 || b.toNat == 42) && b.toNat != 91)

/-- `list-mailbox = 1*list-char / string`. Never written as a literal: gluon misreads it
(`Gluon.C10.list_literal_witness`); the pattern must therefore be list-atom- or quoted-admissible. -/
def printListMailbox (c : Choices) (s : BStr) : Bytes :=
  if c.here % 2 = 0 && listAtomOK s then s else printQuoted s

/-- `*` or a non-zero number -/
def printSeqNum (n : Int) : Bytes := if n = 0 then [42] else printNum n

/-- `n` or `b:e` (the short form only when both ends are equal, by choice) -/
def printSeqRange (c : Choices) (r : SeqRange) : Bytes :=
  if r.b = r.e ∧ c.here % 2 = 0 then printSeqNum r.b else printSeqNum r.b ++ (58 :: printSeqNum r.e)

def printSeqSet (c : Choices) (s : SeqSet) : Bytes := printSepList 44 printSeqRange c s

/-- `(f1 f2 …)` -/
def printFlagList (c : Choices) (fl : List BStr) : Bytes :=
  40 :: (printSepList 32 (fun _ f => f) c fl ++ [41])

/-! ### dates -/

/-- two decimal digits -/
def pad2 (v : Nat) : Bytes := [digitByte (v / 10 % 10), digitByte (v % 10)]
/-- four decimal digits -/
def pad4 (v : Nat) : Bytes :=
  [digitByte (v / 1000 % 10), digitByte (v / 100 % 10), digitByte (v / 10 % 10), digitByte (v % 10)]

def monthName (m : Int) : Bytes :=
  match m with
  | 1 => kw "jan" | 2 => kw "feb" | 3 => kw "mar" | 4 => kw "apr" | 5 => kw "may" | 6 => kw "jun"
  | 7 => kw "jul" | 8 => kw "aug" | 9 => kw "sep" | 10 => kw "oct" | 11 => kw "nov" | _ => kw "dec"

/-- `date-day = 1*2DIGIT`: one digit or two (by choice, when below 10) -/
def printDay (e : Nat) (d : Nat) : Bytes := if d < 10 ∧ e % 2 = 0 then [digitByte d] else pad2 d

/-- `date-text`, optionally in double quotes -/
def printDate (c : Choices) (d : Date) : Bytes :=
  let body := printDay c.here d.day.toNat ++ (45 :: (kwCase c.l (monthName d.month) ++ (45 :: pad4 d.year.toNat)))
  if c.r.here % 2 = 0 then body else 34 :: (body ++ [34])

/-- `date-day-fixed = (SP DIGIT) / 2DIGIT` -/
def printDayFixed (e : Nat) (d : Nat) : Bytes := if d < 10 ∧ e % 2 = 0 then [32, digitByte d] else pad2 d

/-- `date-time` -/
def printDateTime (c : Choices) (d : DateTime) : Bytes :=
  let z := d.zone.natAbs
  34 :: (printDayFixed c.here d.day.toNat ++ (45 :: (kwCase c.l (monthName d.month) ++ (45 :: (pad4 d.year.toNat ++
    (32 :: (pad2 d.hour.toNat ++ (58 :: (pad2 d.min.toNat ++ (58 :: (pad2 d.sec.toNat ++
    (32 :: ((if d.zone < 0 then 45 else 43) :: (pad2 (z / 3600) ++ (pad2 (z % 3600 / 60) ++ [34])))))))))))))))

/-! ### fetch -/

def printHeaderList (c : Choices) (l : List BStr) : Bytes :=
  40 :: (printSepList 32 (fun c s => printAString c.here s) c l ++ [41])

def printSecText (c : Choices) : SecText → Bytes
  | .header => kwCase c (kw "header")
  | .text => kwCase c (kw "text")
  | .mime => kwCase c (kw "mime")
  | .headerFields false l =>
    kwCase c.l (kw "header") ++ (46 :: (kwCase c.r.l (kw "fields") ++ (32 :: printHeaderList c.r.r l)))
  | .headerFields true l =>
    kwCase c.l (kw "header") ++ (46 :: (kwCase c.r.l (kw "fields") ++ (46 :: (kwCase c.r.r.l (kw "not") ++
      (32 :: printHeaderList c.r.r.r l)))))

def printSection (c : Choices) : Section → Bytes
  | .msg t => printSecText c t
  | .part p none => printSepList 46 (fun _ n => printNum n) c p
  | .part p (some t) => printSepList 46 (fun _ n => printNum n) c.l p ++ (46 :: printSecText c.r t)

def printPeek (c : Choices) (peek : Bool) : Bytes := if peek then 46 :: kwCase c (kw "peek") else []

def printOptSection (c : Choices) : Option Section → Bytes
  | none => []
  | some s => printSection c s

/-- `<offset.count>` -/
def printPartial : Option (Int × Int) → Bytes
  | none => []
  | some (o, n) => 60 :: (printNum o ++ (46 :: (printNum n ++ [62])))

/-- ALL / FULL / FAST: only valid alone and without parentheses -/
def FetchAttr.isMacro : FetchAttr → Bool
  | .all | .full | .fast => true
  | _ => false

def printFetchAttr (c : Choices) : FetchAttr → Bytes
  | .all => kwCase c (kw "all") | .full => kwCase c (kw "full") | .fast => kwCase c (kw "fast")
  | .envelope => kwCase c (kw "envelope") | .flags => kwCase c (kw "flags")
  | .internalDate => kwCase c (kw "internaldate") | .bodyStructure => kwCase c (kw "bodystructure")
  | .uid => kwCase c (kw "uid") | .body => kwCase c (kw "body")
  | .rfc822 => kwCase c (kw "rfc") ++ kw "822"
  | .rfc822Header => kwCase c.l (kw "rfc") ++ (kw "822" ++ (46 :: kwCase c.r (kw "header")))
  | .rfc822Size => kwCase c.l (kw "rfc") ++ (kw "822" ++ (46 :: kwCase c.r (kw "size")))
  | .rfc822Text => kwCase c.l (kw "rfc") ++ (kw "822" ++ (46 :: kwCase c.r (kw "text")))
  | .bodySection sec peek part =>
    kwCase c.l (kw "body") ++ (printPeek c.r.l peek ++
      (91 :: (printOptSection c.r.r.l sec ++ (93 :: printPartial part))))

/-- one attribute alone (macros only so), or a parenthesised list -/
def printFetchAttrs (c : Choices) (attrs : List FetchAttr) : Bytes :=
  match attrs with
  | [a] => if a.isMacro ∨ c.here % 2 = 0 then printFetchAttr c.r a else 40 :: (printFetchAttr c.r.l a ++ [41])
  | _ => 40 :: (printSepList 32 printFetchAttr c.r attrs ++ [41])

/-! ### search keys -/

def printKeyStr (c : Choices) (name : String) (v : BStr) : Bytes :=
  kwCase c.l (kw name) ++ (32 :: printAString c.r.here v)
def printKeyDate (c : Choices) (name : String) (d : Date) : Bytes :=
  kwCase c.l (kw name) ++ (32 :: printDate c.r d)

mutual
def printKey (c : Choices) : SearchKey → Bytes
  | .all => kwCase c (kw "all") | .answered => kwCase c (kw "answered")
  | .deleted => kwCase c (kw "deleted") | .flagged => kwCase c (kw "flagged")
  | .new => kwCase c (kw "new") | .old => kwCase c (kw "old") | .recent => kwCase c (kw "recent")
  | .seen => kwCase c (kw "seen") | .unanswered => kwCase c (kw "unanswered")
  | .undeleted => kwCase c (kw "undeleted") | .unflagged => kwCase c (kw "unflagged")
  | .unseen => kwCase c (kw "unseen") | .draft => kwCase c (kw "draft")
  | .undraft => kwCase c (kw "undraft")
  | .bcc v => printKeyStr c "bcc" v | .body v => printKeyStr c "body" v | .cc v => printKeyStr c "cc" v
  | .from v => printKeyStr c "from" v | .subject v => printKeyStr c "subject" v
  | .text v => printKeyStr c "text" v | .to v => printKeyStr c "to" v
  | .keyword v => kwCase c (kw "keyword") ++ (32 :: v)
  | .unkeyword v => kwCase c (kw "unkeyword") ++ (32 :: v)
  | .header f v =>
    kwCase c.l (kw "header") ++ (32 :: (printAString c.r.l.here f ++ (32 :: printAString c.r.r.here v)))
  | .before d => printKeyDate c "before" d | .on d => printKeyDate c "on" d
  | .since d => printKeyDate c "since" d | .sentBefore d => printKeyDate c "sentbefore" d
  | .sentOn d => printKeyDate c "senton" d | .sentSince d => printKeyDate c "sentsince" d
  | .larger n => kwCase c (kw "larger") ++ (32 :: printNum n)
  | .smaller n => kwCase c (kw "smaller") ++ (32 :: printNum n)
  | .uid s => kwCase c.l (kw "uid") ++ (32 :: printSeqSet c.r s)
  | .seqSet s => printSeqSet c s
  | .not k => kwCase c.l (kw "not") ++ (32 :: printKey c.r k)
  | .or a b => kwCase c.l (kw "or") ++ (32 :: (printKey c.r.l a ++ (32 :: printKey c.r.r b)))
  | .list ks => 40 :: (printKeys c ks ++ [41])
/-- `k0 SP k1 SP …` -/
def printKeys (c : Choices) : SearchKeys → Bytes
  | .nil => []
  | .cons k .nil => printKey c.l k
  | .cons k ks => printKey c.l k ++ (32 :: printKeys c.r ks)
end

/-- `SP [CHARSET SP astring SP] key *(SP key)` (an empty charset is "no CHARSET") -/
def printSearchArgs (c : Choices) (cs : BStr) (keys : List SearchKey) : Bytes :=
  if cs.isEmpty then 32 :: printSepList 32 printKey c.r keys
  else 32 :: (kwCase c.l.r.l (kw "charset") ++ (32 :: (printAString c.l.r.r.here cs ++
    printSepTail 32 printKey c.r keys)))

/-! ### commands -/

def printStatusAttr (c : Choices) : StatusAttr → Bytes
  | .messages => kwCase c (kw "messages") | .recent => kwCase c (kw "recent")
  | .uidNext => kwCase c (kw "uidnext") | .uidValidity => kwCase c (kw "uidvalidity")
  | .unseen => kwCase c (kw "unseen")

/-- an ID value: NIL (by choice, when empty) or a string -/
def printNString (c : Choices) (v : BStr) : Bytes :=
  if v.isEmpty ∧ c.l.here % 2 = 0 then kwCase c.r (kw "nil") else printString c.l.here v

def printIdPair (c : Choices) (p : BStr × BStr) : Bytes :=
  printString c.l.here p.1 ++ (32 :: printNString c.r p.2)

/-- the optional flag list of APPEND, with its SP (`()` and "absent" both denote no flags) -/
def printAppendFlags (c : Choices) (fl : List BStr) : Bytes :=
  if fl.isEmpty ∧ c.here % 2 = 0 then [] else printFlagList c.r fl ++ [32]

/-- the optional date-time of APPEND, with its SP -/
def printAppendDate (c : Choices) : Option DateTime → Bytes
  | none => []
  | some d => printDateTime c d ++ [32]

def printStoreAction : StoreAction → Bytes
  | .add => [43] | .rem => [45] | .set => []

/-- the command after `tag SP` and before CRLF -/
def printCmd (c : Choices) : Cmd → Bytes
  | .done => kwCase c (kw "done")
  | .capability => kwCase c (kw "capability") | .idle => kwCase c (kw "idle")
  | .noop => kwCase c (kw "noop") | .logout => kwCase c (kw "logout") | .check => kwCase c (kw "check")
  | .close => kwCase c (kw "close") | .expunge => kwCase c (kw "expunge")
  | .unselect => kwCase c (kw "unselect") | .starttls => kwCase c (kw "starttls")
  | .login u p => kwCase c.l (kw "login") ++ (32 :: (printAString c.r.l.here u ++ (32 :: printAString c.r.r.here p)))
  | .select m => kwCase c.l (kw "select") ++ (32 :: printMailbox c.r m)
  | .examine m => kwCase c.l (kw "examine") ++ (32 :: printMailbox c.r m)
  | .create m => kwCase c.l (kw "create") ++ (32 :: printMailbox c.r m)
  | .delete m => kwCase c.l (kw "delete") ++ (32 :: printMailbox c.r m)
  | .subscribe m => kwCase c.l (kw "subscribe") ++ (32 :: printMailbox c.r m)
  | .unsubscribe m => kwCase c.l (kw "unsubscribe") ++ (32 :: printMailbox c.r m)
  | .rename a b => kwCase c.l (kw "rename") ++ (32 :: (printMailbox c.r.l a ++ (32 :: printMailbox c.r.r b)))
  | .list m p => kwCase c.l (kw "list") ++ (32 :: (printMailbox c.r.l m ++ (32 :: printListMailbox c.r.r p)))
  | .lsub m p => kwCase c.l (kw "lsub") ++ (32 :: (printMailbox c.r.l m ++ (32 :: printListMailbox c.r.r p)))
  | .status m a =>
    kwCase c.l (kw "status") ++ (32 :: (printMailbox c.r.l m ++ (32 :: (40 ::
      (printSepList 32 printStatusAttr c.r.r a ++ [41])))))
  | .store s a fl silent =>
    kwCase c.l.l (kw "store") ++ (32 :: (printSeqSet c.l.r s ++ (32 ::
      (printStoreAction a ++ (kwCase c.r.l.l (kw "flags") ++
        ((if silent then 46 :: kwCase c.r.l.r (kw "silent") else []) ++ (32 ::
          (if fl.isEmpty ∨ c.r.r.here % 2 = 0 then printFlagList c.r.r.r fl
           else printSepList 32 (fun _ f => f) c.r.r.r fl))))))))
  | .copy s m => kwCase c.l (kw "copy") ++ (32 :: (printSeqSet c.r.l s ++ (32 :: printMailbox c.r.r m)))
  | .move s m => kwCase c.l (kw "move") ++ (32 :: (printSeqSet c.r.l s ++ (32 :: printMailbox c.r.r m)))
  | .uid sub => kwCase c.l (kw "uid") ++ (32 :: printCmd c.r sub)
  | .uidExpunge s => kwCase c.l.l (kw "uid") ++ (32 :: (kwCase c.l.r (kw "expunge") ++ (32 :: printSeqSet c.r s)))
  | .fetch s attrs =>
    kwCase c.l (kw "fetch") ++ (32 :: (printSeqSet c.r.l s ++ (32 :: printFetchAttrs c.r.r attrs)))
  | .append m fl dt lit =>
    kwCase c.l.l (kw "append") ++ (32 :: (printMailbox c.l.r m ++ (32 ::
      (printAppendFlags c.r.l fl ++ (printAppendDate c.r.r.l dt ++ printLiteral lit)))))
  | .search cs keys => kwCase c.l.l (kw "search") ++ printSearchArgs c cs keys
  | .idGet => kwCase c.l (kw "id") ++ (32 :: kwCase c.r (kw "nil"))
  | .idSet vals => kwCase c.l (kw "id") ++ (32 :: (40 :: (printSepList 32 printIdPair c.r vals ++ [41])))

/-- a complete command line: `tag SP command CRLF`, or `DONE CRLF` -/
def print (c : Choices) (cmd : Command) : Bytes :=
  match cmd.payload with
  | .done => kwCase c (kw "done") ++ [13, 10]
  | p => cmd.tag ++ (32 :: (printCmd c p ++ [13, 10]))

end Gluon.Parse
