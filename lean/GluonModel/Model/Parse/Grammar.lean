/-
M-PARSE, part 4: the command grammar of `imap/command/*.go`, function by function.

Each Go parsing function is one definition here, with the same order of token tests. Loops take fuel.
Keyword comparison: the Go code lower-cases what it collected (`ByteToLower` per byte, or
`strings.ToLower` / `strings.EqualFold` on strings made of ASCII letters / compared with an ASCII word
without `k` or `s`, for which Unicode folding adds no further match) and compares with a lower-case
word; the model lower-cases bytewise.
-/
import GluonModel.Model.Parse.Prim
import GluonModel.Model.Parse.Ast
import GluonModel.Generated.Facts.Parse

namespace Gluon.Parse

/-- ASCII bytes of a keyword -/
def kw (s : String) : Bytes := s.toList.map (fun c => c.toNat.toUInt8)

def lowerBytes (b : Bytes) : Bytes := b.map byteToLower

/-- `for { if Matches(sep) { x := item(); xs = append(xs, x) } else { break } }` -/
def sepLoop (sep : TokTy) (item : P α) : Nat → P (List α)
  | 0 => outOfFuel
  | n + 1 => do
    if (← matchesTy sep) then
      let x ← item
      let r ← sepLoop sep item n
      pure (x :: r)
    else
      pure []

/-- `CollectBytesWhileMatches(TokenTypeChar)` followed by lower-casing (keywords, attribute names) -/
def readKeyword (fuel : Nat) : P Bytes := do
  let b ← collectWhile (· == .char) fuel
  pure (lowerBytes b)

/-! ### mailbox, flags (mailbox.go, flags.go, list.go) -/

/-- `ParseMailbox` -/
def parseMailbox (fuel : Nat) : P BStr := do
  let a ← parseAString fuel
  if lowerBytes a = kw "inbox" then pure (kw "INBOX") else pure a

def isListChar (t : TokTy) : Bool :=
  isAtomChar t || isRespSpecial t || t == .percent || t == .asterisk

/-- `parseListMailbox` -/
def parseListMailbox (fuel : Nat) : P BStr := do
  if (← matchesWith isListChar) then collectWhilePrev isListChar fuel
  else parseString fuel

/-- `ParseFlag` -/
def parseFlag (fuel : Nat) : P BStr := do
  if (← matchesTy .backslash) then
    let f ← parseAtom fuel
    if lowerBytes f = kw "recent" then makeError
    else pure (92 :: f)
  else parseAtom fuel

/-- `ParseFlagList` -/
def parseFlagList (fuel : Nat) : P (List BStr) := do
  consume .lparen
  let flags ← (do
    if !(← check .rparen) then
      let f ← parseFlag fuel
      let r ← sepLoop .sp (parseFlag fuel) fuel
      pure (f :: r)
    else pure [])
  consume .rparen
  pure flags

/-- `TryParseFlagList` -/
def tryParseFlagList (fuel : Nat) : P (Option (List BStr)) := do
  if !(← check .lparen) then pure none
  else do
    let f ← parseFlagList fuel
    pure (some f)

/-! ### sequence sets (seq_set.go) -/

/-- `ParseNZNumber` -/
def parseNZNumber (fuel : Nat) : P Int := do
  let n ← parseNumber fuel
  if n ≤ 0 then makeError else pure n

/-- `ParseSeqNumber` (`*` is 0) -/
def parseSeqNumber (fuel : Nat) : P Int := do
  if (← matchesTy .asterisk) then pure 0
  else parseNZNumber fuel

/-- `ParseSeqRange` -/
def parseSeqRange (fuel : Nat) : P SeqRange := do
  let b ← parseSeqNumber fuel
  if !(← matchesTy .colon) then pure ⟨b, b⟩
  else do
    let e ← parseSeqNumber fuel
    pure ⟨b, e⟩

/-- `ParseSeqSet` -/
def parseSeqSet (fuel : Nat) : P SeqSet := do
  let r ← parseSeqRange fuel
  let rs ← sepLoop .comma (parseSeqRange fuel) fuel
  pure (r :: rs)

/-! ### dates (date_time.go) -/

/-- `ParseDateDayFixed` -/
def parseDateDayFixed : P Int := do
  if (← matchesTy .sp) then
    consume .digit
    let d ← prevVal
    pure (byteToInt d)
  else parseNumberN 2

def monthTable : List (Bytes × Int) :=
  [(kw "jan", 1), (kw "feb", 2), (kw "mar", 3), (kw "apr", 4), (kw "may", 5), (kw "jun", 6),
   (kw "jul", 7), (kw "aug", 8), (kw "sep", 9), (kw "oct", 10), (kw "nov", 11), (kw "dec", 12)]

/-- `ParseDateMonth` -/
def parseDateMonth : P Int := do
  consume .char
  let a ← prevVal
  consume .char
  let b ← prevVal
  consume .char
  let c ← prevVal
  match monthTable.lookup (lowerBytes [a, b, c]) with
  | some m => pure m
  | none => makeError

/-- `ParseDateYear` -/
def parseDateYear : P Int := parseNumberN 4

/-- `ParseZone` (seconds east of UTC) -/
def parseZone : P Int := do
  let mult : Int ← (do
    if (← matchesTy .plus) then pure 1
    else if (← matchesTy .minus) then pure (-1)
    else makeError)
  let zh ← parseNumberN 2
  let zm ← parseNumberN 2
  pure ((zh * 3600 + zm * 60) * mult)

/-- `ParseTime` -/
def parseTime : P (Int × Int × Int) := do
  let h ← parseNumberN 2
  consume .colon
  let m ← parseNumberN 2
  consume .colon
  let s ← parseNumberN 2
  pure (h, m, s)

/-- `ParseDateTime` -/
def parseDateTime : P DateTime := do
  consume .dquote
  let day ← parseDateDayFixed
  consume .minus
  let month ← parseDateMonth
  consume .minus
  let year ← parseDateYear
  consume .sp
  let (h, m, s) ← parseTime
  consume .sp
  let zone ← parseZone
  consume .dquote
  pure ⟨year, month, day, h, m, s, zone⟩

/-- `ParseDateText` -/
def parseDateText : P Date := do
  let day ← parseNumberN 2
  consume .minus
  let month ← parseDateMonth
  consume .minus
  let year ← parseDateYear
  pure ⟨year, month, day⟩

/-- `ParseDate` -/
def parseDate : P Date := do
  let q ← matchesTy .dquote
  let d ← parseDateText
  if q then consume .dquote
  pure d

/-! ### simple commands -/

/-- `"X" SP mailbox` commands: select, examine, create, delete, subscribe, unsubscribe -/
def parseMailboxCmd (mk : BStr → Cmd) (fuel : Nat) : P Cmd := do
  consume .sp
  let m ← parseMailbox fuel
  pure (mk m)

/-- login.go -/
def parseLogin (fuel : Nat) : P Cmd := do
  consume .sp
  let u ← parseAString fuel
  consume .sp
  let p ← parseAString fuel
  pure (.login u p)

/-- rename.go -/
def parseRename (fuel : Nat) : P Cmd := do
  consume .sp
  let a ← parseMailbox fuel
  consume .sp
  let b ← parseMailbox fuel
  pure (.rename a b)

/-- list.go, lsub.go -/
def parseListCmd (mk : BStr → BStr → Cmd) (fuel : Nat) : P Cmd := do
  consume .sp
  let m ← parseMailbox fuel
  consume .sp
  let lm ← parseListMailbox fuel
  pure (mk m lm)

/-- `parseStatusAttribute` -/
def parseStatusAttribute (fuel : Nat) : P StatusAttr := do
  let a ← readKeyword fuel
  if a = kw "messages" then pure .messages
  else if a = kw "recent" then pure .recent
  else if a = kw "uidnext" then pure .uidNext
  else if a = kw "uidvalidity" then pure .uidValidity
  else if a = kw "unseen" then pure .unseen
  else makeErrorAt

/-- status.go -/
def parseStatus (fuel : Nat) : P Cmd := do
  consume .sp
  let m ← parseMailbox fuel
  consume .sp
  consume .lparen
  let a ← parseStatusAttribute fuel
  let r ← sepLoop .sp (parseStatusAttribute fuel) fuel
  consume .rparen
  pure (.status m (a :: r))

/-! ### store, copy, move (store.go, copy.go, move.go) -/

/-- `parseStoreFlags` -/
def parseStoreFlags (fuel : Nat) : P (List BStr) := do
  match (← tryParseFlagList fuel) with
  | some fl => pure fl
  | none =>
    let f ← parseFlag fuel
    let r ← sepLoop .sp (parseFlag fuel) fuel
    pure (f :: r)

/-- store.go -/
def parseStore (fuel : Nat) : P Cmd := do
  consume .sp
  let seq ← parseSeqSet fuel
  consume .sp
  let action ← (do
    if (← matchesTy .plus) then pure StoreAction.add
    else if (← matchesTy .minus) then pure StoreAction.rem
    else pure StoreAction.set)
  consumeBytesFold (kw "FLAGS")
  let silent ← (do
    if (← matchesTy .period) then
      consumeBytesFold (kw "SILENT")
      pure true
    else pure false)
  consume .sp
  let flags ← parseStoreFlags fuel
  pure (.store seq action flags silent)

/-- copy.go, move.go -/
def parseCopyMove (mk : SeqSet → BStr → Cmd) (fuel : Nat) : P Cmd := do
  consume .sp
  let seq ← parseSeqSet fuel
  consume .sp
  let m ← parseMailbox fuel
  pure (mk seq m)

/-! ### fetch (fetch.go) -/

/-- `parseHeaderList` -/
def parseHeaderList (fuel : Nat) : P (List BStr) := do
  consume .lparen
  let h ← parseAString fuel
  let r ← sepLoop .sp (parseAString fuel) fuel
  consume .rparen
  pure (h :: r)

/-- `parseHeaderFieldsSectionMessageText` -/
def parseHeaderFields (fuel : Nat) : P SecText := do
  let t ← readKeyword fuel
  if t ≠ kw "fields" then makeError
  else do
    let negate ← (do
      if (← matchesTy .period) then
        let t ← readKeyword fuel
        if t ≠ kw "not" then makeError else pure true
      else pure false)
    consume .sp
    let l ← parseHeaderList fuel
    pure (.headerFields negate l)

/-- `handleSectionMessageText` -/
def handleSectionMessageText (text : Bytes) (fuel : Nat) : P SecText := do
  if text = kw "header" then
    if !(← matchesTy .period) then pure .header
    else parseHeaderFields fuel
  else if text = kw "text" then pure .text
  else makeErrorAt

/-- `parseSectionText` -/
def parseSectionText (fuel : Nat) : P SecText := do
  let t ← readKeyword fuel
  if t = kw "mime" then pure .mime
  else handleSectionMessageText t fuel

/-- `parseSectionMsgText` -/
def parseSectionMsgText (fuel : Nat) : P SecText := do
  let t ← readKeyword fuel
  handleSectionMessageText t fuel

/-- the `for` loop of `parseSectionPart`: `.` then a number, or `.` then something else (break) -/
def sectionPartLoop (fuel : Nat) : Nat → P (List Int)
  | 0 => outOfFuel
  | n + 1 => do
    if !(← matchesTy .period) then pure []
    else if !(← check .digit) then pure []
    else do
      let x ← parseNZNumber fuel
      let r ← sectionPartLoop fuel n
      pure (x :: r)

/-- `parseSectionPart` -/
def parseSectionPart (fuel : Nat) : P (List Int) := do
  let x ← parseNZNumber fuel
  let r ← sectionPartLoop fuel fuel
  pure (x :: r)

/-- `parseSectionSpec` -/
def parseSectionSpec (fuel : Nat) : P Section := do
  if (← check .digit) then
    let p ← parseSectionPart fuel
    if (← check .char) then
      let t ← parseSectionText fuel
      pure (.part p (some t))
    else pure (.part p none)
  else do
    let t ← parseSectionMsgText fuel
    pure (.msg t)

/-- `handleBodyFetchAttribute` -/
def handleBodyFetchAttribute (fuel : Nat) : P FetchAttr := do
  if !(← check .lbracket) && !(← check .period) then pure .body
  else do
    let peek ← (do
      if (← matchesTy .period) then
        consumeBytesFold (kw "PEEK")
        pure true
      else pure false)
    consume .lbracket
    let sec ← (do
      if !(← check .rbracket) then
        let s ← parseSectionSpec fuel
        pure (some s)
      else pure none)
    consume .rbracket
    let part ← (do
      if (← matchesTy .less) then
        let off ← parseNumber fuel
        consume .period
        let cnt ← parseNZNumber fuel
        consume .greater
        pure (some (off, cnt))
      else pure none)
    pure (.bodySection sec peek part)

/-- `handleRFC822FetchAttribute` -/
def handleRFC822FetchAttribute (fuel : Nat) : P FetchAttr := do
  consumeBytesFold (kw "822")
  if !(← matchesTy .period) then pure .rfc822
  else do
    let a ← readKeyword fuel
    if a = kw "header" then pure .rfc822Header
    else if a = kw "size" then pure .rfc822Size
    else if a = kw "text" then pure .rfc822Text
    else makeErrorAt

/-- `handleFetchAttribute` -/
def handleFetchAttribute (name : Bytes) (fuel : Nat) : P FetchAttr := do
  if name = kw "envelope" then pure .envelope
  else if name = kw "flags" then pure .flags
  else if name = kw "internaldate" then pure .internalDate
  else if name = kw "bodystructure" then pure .bodyStructure
  else if name = kw "uid" then pure .uid
  else if name = kw "rfc" then handleRFC822FetchAttribute fuel
  else if name = kw "body" then handleBodyFetchAttribute fuel
  else makeErrorAt

/-- `parseFetchAttribute` -/
def parseFetchAttribute (fuel : Nat) : P FetchAttr := do
  let n ← readKeyword fuel
  handleFetchAttribute n fuel

/-- `parseFetchAttributes` -/
def parseFetchAttributes (fuel : Nat) : P (List FetchAttr) := do
  consume .lparen
  let a ← parseFetchAttribute fuel
  let r ← sepLoop .sp (parseFetchAttribute fuel) fuel
  consume .rparen
  pure (a :: r)

/-- fetch.go `FetchCommandParser.FromParser` -/
def parseFetch (fuel : Nat) : P Cmd := do
  consume .sp
  let seq ← parseSeqSet fuel
  consume .sp
  if (← check .lparen) then
    let attrs ← parseFetchAttributes fuel
    pure (.fetch seq attrs)
  else do
    let n ← readKeyword fuel
    if n = kw "all" then pure (.fetch seq [.all])
    else if n = kw "full" then pure (.fetch seq [.full])
    else if n = kw "fast" then pure (.fetch seq [.fast])
    else do
      let a ← handleFetchAttribute n fuel
      pure (.fetch seq [a])

/-! ### append (append.go) -/

/-- `if cond { Consume(t) }` -/
def consumeIf (cond : Bool) (t : TokTy) : P Unit := if cond then consume t else pure ()

/-- the optional date-time of APPEND: `if !p.Check(TokenTypeLCurly) { ParseDateTime; Consume(SP) }` -/
def appendDateTime : P (Option DateTime) := do
  if !(← check .lcurly) then
    let dt ← parseDateTime
    consume .sp
    pure (some dt)
  else pure none

def parseAppend (fuel : Nat) : P Cmd := do
  consume .sp
  let m ← parseMailbox fuel
  consume .sp
  let fl ← tryParseFlagList fuel
  consumeIf fl.isSome .sp
  let dt ← appendDateTime
  let lit ← parseLiteral fuel
  pure (.append m (fl.getD []) dt lit)

/-! ### search (search.go) -/

def spThen (p : P α) : P α := do
  consume .sp
  p

/-- `handleSearchKey`; `recKey` is `parseSearchKey` (with less fuel) for NOT and OR -/
def handleSearchKey (recKey : P SearchKey) (k : Bytes) (fuel : Nat) : P SearchKey := do
  if k = kw "all" then pure .all
  else if k = kw "answered" then pure .answered
  else if k = kw "bcc" then (do let v ← spThen (parseAString fuel); pure (.bcc v))
  else if k = kw "before" then (do let v ← spThen parseDate; pure (.before v))
  else if k = kw "on" then (do let v ← spThen parseDate; pure (.on v))
  else if k = kw "body" then (do let v ← spThen (parseAString fuel); pure (.body v))
  else if k = kw "cc" then (do let v ← spThen (parseAString fuel); pure (.cc v))
  else if k = kw "deleted" then pure .deleted
  else if k = kw "flagged" then pure .flagged
  else if k = kw "from" then (do let v ← spThen (parseAString fuel); pure (.from v))
  else if k = kw "keyword" then (do let v ← spThen (parseAtom fuel); pure (.keyword v))
  else if k = kw "new" then pure .new
  else if k = kw "old" then pure .old
  else if k = kw "recent" then pure .recent
  else if k = kw "seen" then pure .seen
  else if k = kw "since" then (do let v ← spThen parseDate; pure (.since v))
  else if k = kw "subject" then (do let v ← spThen (parseAString fuel); pure (.subject v))
  else if k = kw "text" then (do let v ← spThen (parseAString fuel); pure (.text v))
  else if k = kw "to" then (do let v ← spThen (parseAString fuel); pure (.to v))
  else if k = kw "unanswered" then pure .unanswered
  else if k = kw "undeleted" then pure .undeleted
  else if k = kw "unflagged" then pure .unflagged
  else if k = kw "unkeyword" then (do let v ← spThen (parseAtom fuel); pure (.unkeyword v))
  else if k = kw "unseen" then pure .unseen
  else if k = kw "draft" then pure .draft
  else if k = kw "header" then (do
    let f ← spThen (parseAString fuel)
    let v ← spThen (parseAString fuel)
    pure (.header f v))
  else if k = kw "larger" then (do let v ← spThen (parseNumber fuel); pure (.larger v))
  else if k = kw "not" then (do
    consume .sp
    let key ← recKey
    pure (.not key))
  else if k = kw "or" then (do
    consume .sp
    let k1 ← recKey
    consume .sp
    let k2 ← recKey
    pure (.or k1 k2))
  else if k = kw "sentbefore" then (do let v ← spThen parseDate; pure (.sentBefore v))
  else if k = kw "senton" then (do let v ← spThen parseDate; pure (.sentOn v))
  else if k = kw "sentsince" then (do let v ← spThen parseDate; pure (.sentSince v))
  else if k = kw "smaller" then (do let v ← spThen (parseNumber fuel); pure (.smaller v))
  else if k = kw "uid" then (do let v ← spThen (parseSeqSet fuel); pure (.uid v))
  else if k = kw "undraft" then pure .undraft
  else makeErrorAt

/-- `parseSearchKeyList` (after the `(` was matched); `recKey` is `parseSearchKey` with less fuel -/
def parseSearchKeyList (recKey : P SearchKey) (fuel : Nat) : P SearchKey := do
  let k ← recKey
  let r ← sepLoop .sp recKey fuel
  consume .rparen
  pure (.list (SearchKeys.ofList (k :: r)))

/-- the shape of the depth bookkeeping the model was written against (`Generated/Facts/Parse.lean`): the test
`depth > maxSearchKeyDepth` at the head of `parseSearchKey`, `depth + 1` for the elements of a list and the
operands of NOT / OR, `0` from `FromParser` -/
def searchDepthShapeKnown : Bool :=
  Facts.searchDepthCheck == "if depth > maxSearchKeyDepth { return nil, p.MakeError(…) }"
  && Facts.searchDepthCalls ==
      ["parseSearchKey -> parseSearchKeyList(depth)", "parseSearchKey -> handleSearchKey(depth)",
       "parseSearchKeyList -> parseSearchKey(depth + 1)", "parseSearchKeyList -> parseSearchKey(depth + 1)",
       "handleSearchKey -> parseSearchKey(depth + 1)", "handleSearchKey -> parseSearchKey(depth + 1)",
       "handleSearchKey -> parseSearchKey(depth + 1)", "FromParser -> handleSearchKey(0)",
       "FromParser -> handleSearchKey(0)", "FromParser -> parseSearchKey(0)", "FromParser -> parseSearchKey(0)"]

/-- number of nesting levels `parseSearchKey` accepts: depths `0 … maxSearchKeyDepth`, i.e. `maxSearchKeyDepth + 1`
(/repo c30e930; regenerated from the source). An unknown constant or shape gives 0: every search key is
refused, which the `parse` / `parsebad` correspondences then show. -/
def searchBudget : Nat :=
  match Facts.searchMaxDepth with
  | some n => if searchDepthShapeKnown then n + 1 else 0
  | none => 0

/-- `parseSearchKey(p, depth)`: the first argument is the number of nesting levels still allowed
(`maxSearchKeyDepth + 1 - depth`): at 0 the Go code returns `MakeError("search keys are nested too deeply")`
(before /repo c30e930 there was no limit, #18). The second argument is the loop fuel. -/
def parseSearchKey : Nat → Nat → P SearchKey
  | 0, _ => makeError
  | d + 1, fuel => do
    if (← matchesTy .lparen) then parseSearchKeyList (parseSearchKey d fuel) fuel
    else if (← check .digit) || (← check .asterisk) then
      let s ← parseSeqSet fuel
      pure (.seqSet s)
    else do
      let k ← readKeyword fuel
      handleSearchKey (parseSearchKey d fuel) k fuel

/-- the first search key of `SearchCommandParser.FromParser`, which also detects `CHARSET`: a key starting
with a letter is read through its first letter (`c`: CC or CHARSET); returns (charset, keys so far) -/
def searchFirst (fuel : Nat) : P (BStr × List SearchKey) := do
  if (← matchesTy .char) then
    let c ← prevVal
    if byteToLower c == 99 then
      if byteToLower (← curVal) == 99 then
        consume .char
        let k ← handleSearchKey (parseSearchKey (searchBudget - 1) fuel) (kw "cc") fuel
        pure (([] : BStr), [k])
      else do
        consumeBytesFold (kw "HARSET")
        consume .sp
        let e ← parseAString fuel
        pure (e, [])
    else do
      let r ← collectWhile (· == .char) fuel
      let k ← handleSearchKey (parseSearchKey (searchBudget - 1) fuel) (lowerBytes (c :: r)) fuel
      pure (([] : BStr), [k])
  else do
    let k ← parseSearchKey searchBudget fuel
    pure (([] : BStr), [k])

/-- search.go `SearchCommandParser.FromParser` -/
def parseSearch (fuel : Nat) : P Cmd := do
  consume .sp
  let (charset, first) ← searchFirst fuel
  let more ← sepLoop .sp (parseSearchKey searchBudget fuel) fuel
  let keys := first ++ more
  if keys.isEmpty then makeError
  else pure (.search charset keys)

/-! ### uid (uid.go), id (id.go) -/

/-- the `uid expunge` special case and the lookup in `UIDCommandParser.commands` -/
def dispatchUID (c : Bytes) (fuel : Nat) : P Cmd :=
  if c = kw "expunge" then (do
    consume .sp
    let s ← parseSeqSet fuel
    pure (.uidExpunge s))
  else if c = kw "copy" then (do let p ← parseCopyMove .copy fuel; pure (.uid p))
  else if c = kw "fetch" then (do let p ← parseFetch fuel; pure (.uid p))
  else if c = kw "search" then (do let p ← parseSearch fuel; pure (.uid p))
  else if c = kw "move" then (do let p ← parseCopyMove .move fuel; pure (.uid p))
  else if c = kw "store" then (do let p ← parseStore fuel; pure (.uid p))
  else makeErrorAt

/-- `UIDCommandParser.FromParser` -/
def parseUID (fuel : Nat) : P Cmd := do
  consume .sp
  let c ← readKeyword fuel
  dispatchUID c fuel

/-- `ParseNString`: `none` = NIL -/
def parseNString (fuel : Nat) : P (Option BStr) := do
  match (← tryParseString fuel) with
  | some s => pure (some s)
  | none =>
    consumeBytesFold (kw "NIL")
    pure none

/-- `values[key] = value` on the association list -/
def mapInsert (m : List (BStr × BStr)) (k v : BStr) : List (BStr × BStr) :=
  if m.any (·.1 == k) then m.map (fun e => if e.1 == k then (k, v) else e) else m ++ [(k, v)]

/-- the `for` loop of `IDCommandParser.FromParser` -/
def idLoop (fuel : Nat) : Nat → List (BStr × BStr) → P (List (BStr × BStr))
  | 0, _ => outOfFuel
  | n + 1, m => do
    match (← tryParseString fuel) with
    | none => pure m
    | some key =>
      consume .sp
      let v ← parseNString fuel
      let atEnd ← check .rparen
      consumeIf (!atEnd) .sp
      idLoop fuel n (mapInsert m key (v.getD []))

/-- id.go -/
def parseID (fuel : Nat) : P Cmd := do
  consume .sp
  if (← check .char) then
    consumeBytesFold (kw "NIL")
    pure .idGet
  else do
    consume .lparen
    let m ← idLoop fuel fuel []
    consume .rparen
    pure (.idSet m)

/-! ### command line (parser.go) -/

def isTagChar (t : TokTy) : Bool := isAStringChar t && t != .plus

/-- `parseTag` -/
def parseTag (fuel : Nat) : P BStr := do
  consumeWith isTagChar
  collectWhilePrev isTagChar fuel

/-- the lookup `p.commands[p.lastCmd]` and the call of the builder's `FromParser` -/
def dispatchCommand (c : Bytes) (fuel : Nat) : P Cmd :=
  if c = kw "list" then parseListCmd .list fuel
  else if c = kw "append" then parseAppend fuel
  else if c = kw "search" then parseSearch fuel
  else if c = kw "fetch" then parseFetch fuel
  else if c = kw "capability" then pure .capability
  else if c = kw "idle" then pure .idle
  else if c = kw "noop" then pure .noop
  else if c = kw "logout" then pure .logout
  else if c = kw "check" then pure .check
  else if c = kw "close" then pure .close
  else if c = kw "expunge" then pure .expunge
  else if c = kw "unselect" then pure .unselect
  else if c = kw "starttls" then pure .starttls
  else if c = kw "status" then parseStatus fuel
  else if c = kw "select" then parseMailboxCmd .select fuel
  else if c = kw "examine" then parseMailboxCmd .examine fuel
  else if c = kw "create" then parseMailboxCmd .create fuel
  else if c = kw "delete" then parseMailboxCmd .delete fuel
  else if c = kw "subscribe" then parseMailboxCmd .subscribe fuel
  else if c = kw "unsubscribe" then parseMailboxCmd .unsubscribe fuel
  else if c = kw "rename" then parseRename fuel
  else if c = kw "lsub" then parseListCmd .lsub fuel
  else if c = kw "login" then parseLogin fuel
  else if c = kw "store" then parseStore fuel
  else if c = kw "copy" then parseCopyMove .copy fuel
  else if c = kw "move" then parseCopyMove .move fuel
  else if c = kw "uid" then parseUID fuel
  else if c = kw "id" then parseID fuel
  else makeErrorAt

/-- `parseCommand`: read the command word, look it up in `commands` -/
def parseCommand (fuel : Nat) : P Cmd := do
  let c ← readKeyword fuel
  dispatchCommand c fuel

/-- `Parser.Parse`: one command line. The final LF is checked, not consumed. -/
def parseLine (fuel : Nat) : P Command := do
  advance
  let tag ← parseTag fuel
  let cmd ← (do
    if lowerBytes tag = kw "done" then pure (Command.mk [] .done)
    else do
      consume .sp
      let p ← parseCommand fuel
      pure (Command.mk tag p))
  consume .cr
  if !(← check .lf) then makeError
  else pure cmd

/-! ### API for the session loop (`internal/session/command.go`)

`parseLine fuel : P Command` is one call of `Parser.Parse()` on the parser state at hand: it starts with
`Advance` (loading the byte after the LF that the previous call left as look-ahead) and ends with the LF
of its own line as look-ahead, unread bytes in `PState.rest`. Calling it again on the resulting state is
the next `Parse()` of the same parser. `parse fuel input` is the first call on a fresh parser
(`PState.init input`). Fuel: any value above the number of unread bytes is enough
(`Gluon.C11.parse_terminates`); `fuelFor` gives the driver's choice. Outcomes: `Res.ok cmd s`,
`Res.err (.parse t) s` (`*rfcparser.Error`, `IsEOF()` iff `t = .eof`), `Res.err .ioEOF s` (input ended
inside a literal: not a parser error, the reader exits), never `.panic`, never `.fuel`
(`Gluon.C11.parse_outcomes`). After an error the reader calls `ConsumeInvalidInput`
(`consumeInvalidInput` below) and uses `LastParsedTag` / `LastParsedCommand` (`lastParsedTag`,
`lastParsedCommand`, functions of the state BEFORE the failed call). `PState.conts` counts the literal
continuation requests (`+ Ready`) issued so far. -/

/-- `Parser.LastParsedTag()` after a `Parse()` call on state `s`: the tag when `parseTag` succeeded and the
tag is not DONE, else empty -/
def lastParsedTag (fuel : Nat) (s : PState) : BStr :=
  match (advance >>= fun _ => parseTag fuel) s with
  | .ok tag _ => if lowerBytes tag = kw "done" then [] else tag
  | _ => []

/-- `Parser.LastParsedCommand()` after a `Parse()` call on state `s`: the lower-cased command word (also
of an unknown command), `done` for DONE, empty when the tag or the SP after it was not accepted -/
def lastParsedCommand (fuel : Nat) (s : PState) : BStr :=
  match (advance >>= fun _ => parseTag fuel) s with
  | .ok tag s1 =>
    if lowerBytes tag = kw "done" then kw "done"
    else match (consume .sp >>= fun _ => readKeyword fuel) s1 with
      | .ok c _ => c
      | _ => []
  | _ => []

/-- the regenerated skeleton of `ConsumeInvalidInput` is one of the two the model knows: `ConsumeUntilNewLine()`
unconditionally, or (the repair proposed for `cause=bare-lf-swallows-next-line`) preceded by
`if p.parser.Check(rfcparser.TokenTypeLF) { return nil }` — classified by the facts translator -/
def consumeInvalidInputShapeKnown : Bool := Facts.consumeInvalidInputStopsAtLF.isSome

/-- `ConsumeInvalidInput` returns at once when the current (look-ahead) token is LF; an unknown shape counts as
the code as it was -/
def skipStopsAtLookaheadLF : Bool := Facts.consumeInvalidInputStopsAtLF == some true

/-- `Parser.ConsumeInvalidInput()` = `scanner.ConsumeUntilNewLine()` = `source.ReadBytes('\n')`: reads and
discards bytes straight from the source up to and including the next LF; `false` = the source ended
first (`io.EOF`; everything was consumed). The tokens are not touched: the byte that is the current
token has already left the source — so when the failed `Parse` stopped with the line's own LF as look-ahead
(a line ended by a bare LF), the NEXT line is what gets skipped (`cause=bare-lf-swallows-next-line`), unless
the function checks for that first (`skipStopsAtLookaheadLF`). -/
def consumeInvalidInput (s : PState) : PState × Bool :=
  if skipStopsAtLookaheadLF && s.cur.ty == .lf then (s, true)
  else
    match s.rest.dropWhile (· != 10) with
    | [] => ({ s with rest := [] }, false)
    | _ :: r => ({ s with rest := r }, true)

/-- run `Parse` once on a fresh parser over `input` -/
def parse (fuel : Nat) (input : Bytes) : Res Command := parseLine fuel (PState.init input)

/-- the fuel the driver and the theorems use: linear in the input length -/
def fuelFor (input : Bytes) : Nat := 2 * input.length + 16

end Gluon.Parse
