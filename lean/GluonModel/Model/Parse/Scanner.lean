/-
M-PARSE, part 1: the scanner of `rfcparser/scanner.go`.

`ScanToken` reads one byte and classifies it. The order of the tests is the one of the Go code
(digit, alpha, >= 128, <= 31 with its inner switch, then the big switch). The final
`return Token{}, fmt.Errorf("unexpected character")` of the Go function is unreachable (every byte
value is classified before it: theorem `Gluon.C11.scanner_total`), so the model has no such case.
End of input is the token `eof` with value 0 (`makeEOF`).

Not modelled: `Token.Offset` (only used in error messages).
-/
namespace Gluon.Parse

/-- `rfcparser.TokenType`, in the order of the Go `iota` block (`ord` gives the Go integer). -/
inductive TokTy
  | eof | error | sp | exclamation | dquote | hash | dollar | percent | ampersand | squote
  | lparen | rparen | asterisk | plus | comma | minus | period | slash | semicolon | colon
  | less | equal | greater | question | at | lbracket | rbracket | caret | underscore | backtick
  | lcurly | pipe | rcurly | tilde | backslash | digit | char | extendedChar | cr | lf | ctl | tab
  | delete | zero
  deriving DecidableEq, Repr, Inhabited

/-- The Go integer value of the token type (`iota` order). -/
def TokTy.ord : TokTy → Nat
  | .eof => 0 | .error => 1 | .sp => 2 | .exclamation => 3 | .dquote => 4 | .hash => 5
  | .dollar => 6 | .percent => 7 | .ampersand => 8 | .squote => 9 | .lparen => 10 | .rparen => 11
  | .asterisk => 12 | .plus => 13 | .comma => 14 | .minus => 15 | .period => 16 | .slash => 17
  | .semicolon => 18 | .colon => 19 | .less => 20 | .equal => 21 | .greater => 22 | .question => 23
  | .at => 24 | .lbracket => 25 | .rbracket => 26 | .caret => 27 | .underscore => 28 | .backtick => 29
  | .lcurly => 30 | .pipe => 31 | .rcurly => 32 | .tilde => 33 | .backslash => 34 | .digit => 35
  | .char => 36 | .extendedChar => 37 | .cr => 38 | .lf => 39 | .ctl => 40 | .tab => 41
  | .delete => 42 | .zero => 43

/-- `isByteDigit` -/
def isByteDigit (b : UInt8) : Bool := 48 ≤ b.toNat && b.toNat ≤ 57
/-- `isByteAlpha` -/
def isByteAlpha (b : UInt8) : Bool := (65 ≤ b.toNat && b.toNat ≤ 90) || (97 ≤ b.toNat && b.toNat ≤ 122)
/-- `isByteExtendedChar` -/
def isByteExtendedChar (b : UInt8) : Bool := 128 ≤ b.toNat
/-- `isByteCTL` -/
def isByteCTL (b : UInt8) : Bool := b.toNat ≤ 31

/-- The big `switch b` at the end of `ScanToken` (bytes 32..127 that are neither digit nor alpha).
`none` is the unreachable `fmt.Errorf("unexpected character")`. -/
def punctTy (n : Nat) : Option TokTy :=
  match n with
  | 32 => some .sp | 33 => some .exclamation | 34 => some .dquote | 35 => some .hash
  | 36 => some .dollar | 37 => some .percent | 38 => some .ampersand | 39 => some .squote
  | 92 => some .backslash | 40 => some .lparen | 41 => some .rparen | 42 => some .asterisk
  | 43 => some .plus | 44 => some .comma | 45 => some .minus | 46 => some .period
  | 47 => some .slash | 58 => some .colon | 59 => some .semicolon | 60 => some .less
  | 61 => some .equal | 62 => some .greater | 63 => some .question | 64 => some .at
  | 91 => some .lbracket | 93 => some .rbracket | 94 => some .caret | 95 => some .underscore
  | 96 => some .backtick | 123 => some .lcurly | 124 => some .pipe | 125 => some .rcurly
  | 126 => some .tilde | 127 => some .delete
  | _ => none

/-- Classification of the byte with value `n` by `ScanToken`, in the order of the Go tests;
`none` = the (unreachable) error return. -/
def scanNat? (n : Nat) : Option TokTy :=
  if 48 ≤ n && n ≤ 57 then some .digit
  else if (65 ≤ n && n ≤ 90) || (97 ≤ n && n ≤ 122) then some .char
  else if 128 ≤ n then some .extendedChar
  else if n ≤ 31 then
    some (match n with
      | 0 => .zero
      | 13 => .cr
      | 10 => .lf
      | 9 => .tab
      | _ => .ctl)
  else punctTy n

def scanByte? (b : UInt8) : Option TokTy := scanNat? b.toNat

/-- Token type of a byte. (`error` stands for the unreachable error return, see `scanner_total`.) -/
def tokTy (b : UInt8) : TokTy := (scanByte? b).getD .error

/-- `rfcparser.Token` without the offset. -/
structure Tok where
  ty : TokTy
  val : UInt8
  deriving DecidableEq, Repr, Inhabited

/-- `makeEOF()` and also the zero `Token{}`. -/
def Tok.eof : Tok := ⟨.eof, 0⟩

/-- `makeToken` for byte `b`. -/
def Tok.ofByte (b : UInt8) : Tok := ⟨tokTy b, b⟩

/-- `ByteToLower` -/
def byteToLower (b : UInt8) : UInt8 :=
  if 65 ≤ b.toNat && b.toNat ≤ 90 then b + 32 else b

/-- `ByteToInt` (Go `int(b) - int('0')`, may be negative for non-digits). -/
def byteToInt (b : UInt8) : Int := (b.toNat : Int) - 48

end Gluon.Parse
