/-
M-PARSE, part 2: the token parser `rfcparser/parser.go`, primitive by primitive.

State = what the Go `Parser` + `Scanner` hold: the bytes the scanner has not read yet, the previous and
the current token (one token of look-ahead), the scanner's `currentByte` (the last byte that was read
successfully: `ConsumeBytes` copies it into the literal), and a counter of literal continuation
callbacks. Every Go `for { … }` loop is a function with an explicit FUEL argument: the definitions do
not presuppose termination, a loop that does not stop within its fuel yields `Res.fuel`
(`ParseQuoted` at end of input does exactly that, DESIGN section 9 #7).

Outcomes: `ok value state`, `err e state` (Go `error` return), `fuel` (loop did not stop).
Errors: `parse t` is a `*rfcparser.Error` whose `Token.TType` is `t` (`MakeError` takes the previous
token, `MakeErrorAtOffset` has `TokenTypeError`; `IsEOF()` is `t = eof`); `ioEOF` is the `io.EOF` of
`Scanner.ConsumeBytes` (the input ended inside a literal; not a `*rfcparser.Error`), `panic` a Go runtime
panic at one of the (guarded) panic sites.

Not modelled: offsets, error message texts, the continuation callback failing (it counts the calls),
read errors of the source other than end of input.
-/
import GluonModel.Model.Parse.Scanner

namespace Gluon.Parse

abbrev Bytes := List UInt8

structure PState where
  /-- bytes the scanner has not read yet -/
  rest : Bytes
  /-- `previousToken` -/
  prev : Tok
  /-- `currentToken` -/
  cur : Tok
  /-- `Scanner.currentByte` -/
  curByte : UInt8
  /-- number of times the literal continuation callback ran -/
  conts : Nat
  deriving DecidableEq, Repr, Inhabited

inductive PErr
  | parse (t : TokTy)
  | ioEOF
  /-- a Go runtime panic (index out of range, makeslice). In the model it propagates like an error; in
  reality the process dies. `Gluon.C11.parse_no_panic`: never produced. -/
  | panic
  deriving DecidableEq, Repr, Inhabited

inductive Res (α : Type)
  | ok (a : α) (s : PState)
  | err (e : PErr) (s : PState)
  | fuel
  deriving Repr

/-- The parser monad: state in, outcome out. -/
def P (α : Type) := PState → Res α

@[inline] def P.pure (a : α) : P α := fun s => .ok a s

@[inline] def P.bind (x : P α) (f : α → P β) : P β := fun s =>
  match x s with
  | .ok a s' => f a s'
  | .err e s' => .err e s'
  | .fuel => .fuel

instance : Monad P where
  pure := P.pure
  bind := P.bind

/-- error return -/
def fail (e : PErr) : P α := fun s => .err e s
/-- a loop ran out of fuel -/
def outOfFuel : P α := fun _ => .fuel
def getState : P PState := fun s => .ok s s

/-- `NewParserWithLiteralContinuationCb`: both tokens are the zero/EOF token, nothing read yet. -/
def PState.init (input : Bytes) : PState :=
  { rest := input, prev := Tok.eof, cur := Tok.eof, curByte := 0, conts := 0 }

/-- `Advance`: previous := current; current := `ScanToken()`. At end of input the EOF token, again and
again. -/
def advance : P Unit := fun s =>
  match s.rest with
  | [] => .ok () { s with prev := s.cur, cur := Tok.eof }
  | b :: bs => .ok () { s with prev := s.cur, cur := Tok.ofByte b, rest := bs, curByte := b }

/-- `Check` -/
def check (t : TokTy) : P Bool := fun s => .ok (s.cur.ty == t) s
/-- `CheckWith` -/
def checkWith (f : TokTy → Bool) : P Bool := fun s => .ok (f s.cur.ty) s
/-- `PreviousToken().Value` -/
def prevVal : P UInt8 := fun s => .ok s.prev.val s
/-- `CurrentToken().Value` -/
def curVal : P UInt8 := fun s => .ok s.cur.val s

/-- `return …, p.MakeError(msg)`: error carrying the previous token. -/
def makeError : P α := fun s => .err (.parse s.prev.ty) s
/-- `return …, p.MakeErrorAtOffset(msg, off)`: error carrying `TokenTypeError`. -/
def makeErrorAt : P α := fun s => .err (.parse .error) s

/-- `ConsumeWith` -/
def consumeWith (f : TokTy → Bool) : P Unit := fun s =>
  if f s.cur.ty then advance s else makeError s

/-- `Consume` -/
def consume (t : TokTy) : P Unit := consumeWith (· == t)

/-- `ConsumeBytes(chars...)`: compares the current token's VALUE (an EOF token has value 0). -/
def consumeBytes : Bytes → P Unit
  | [] => pure ()
  | c :: cs => fun s =>
    if s.cur.val != c then makeError s
    else (advance >>= fun _ => consumeBytes cs) s

/-- `ConsumeBytesFold(chars...)` -/
def consumeBytesFold : Bytes → P Unit
  | [] => pure ()
  | c :: cs => fun s =>
    if byteToLower s.cur.val != byteToLower c then makeError s
    else (advance >>= fun _ => consumeBytesFold cs) s

/-- `MatchesWith` -/
def matchesWith (f : TokTy → Bool) : P Bool := fun s =>
  if f s.cur.ty then (advance >>= fun _ => pure true) s else .ok false s

/-- `Matches` -/
def matchesTy (t : TokTy) : P Bool := matchesWith (· == t)

/-- `ConsumeNewLine` -/
def consumeNewLine : P Unit := do
  consume .cr
  consume .lf

/-- The loop shared by `CollectBytesWhileMatchesWith` and `CollectBytesWhileMatchesWithPrevWith`:
`for { if MatchesWith(f) { value = append(value, previousToken.Value) } else { break } }`. -/
def collectLoop (f : TokTy → Bool) : Nat → P Bytes
  | 0 => outOfFuel
  | n + 1 => do
    if (← matchesWith f) then
      let b ← prevVal
      let r ← collectLoop f n
      pure (b :: r)
    else
      pure []

/-- `CollectBytesWhileMatchesWith` (does not include the previous token). -/
def collectWhile (f : TokTy → Bool) (fuel : Nat) : P Bytes := collectLoop f fuel

/-- `CollectBytesWhileMatchesWithPrevWith` (starts with the previous token's value). -/
def collectWhilePrev (f : TokTy → Bool) (fuel : Nat) : P Bytes := do
  let b ← prevVal
  let r ← collectLoop f fuel
  pure (b :: r)

/-! ### character classes -/

/-- `IsQuotedSpecial` -/
def isQuotedSpecial (t : TokTy) : Bool := t == .dquote || t == .backslash
/-- `IsRespSpecial` -/
def isRespSpecial (t : TokTy) : Bool := t == .rbracket
/-- `IsCTL` (the token type `zero` is not in it) -/
def isCTL (t : TokTy) : Bool := t == .ctl || t == .cr || t == .lf || t == .tab
/-- `IsAtomChar` (as written: `{`, `%`, `*`, NUL, DEL and 8-bit bytes pass) -/
def isAtomChar (t : TokTy) : Bool :=
  match t with
  | .lparen | .rparen | .lbracket | .eof | .sp => false
  | _ => !isQuotedSpecial t && !isRespSpecial t && !isCTL t
/-- `IsAStringChar` -/
def isAStringChar (t : TokTy) : Bool := isAtomChar t || isRespSpecial t
/-- `IsQuotedChar`: everything but `"`, `\`, the EOF token, CR and LF (commit 18609dc; before it the EOF
token was a quoted character and `ParseQuoted` looped forever at end of input, #7). -/
def isQuotedChar (t : TokTy) : Bool := !isQuotedSpecial t && t != .eof && t != .cr && t != .lf

/-! ### numbers -/

/-- Go `int` arithmetic (64 bit two's complement): wrap an integer into [-2^63, 2^63).
(`irreducible` only keeps the elaborator from unfolding 64-bit modular arithmetic during unification.) -/
@[irreducible] def wrap64 (x : Int) : Int := (x + 9223372036854775808) % 18446744073709551616 - 9223372036854775808

/-- `number *= 10; number += ByteToInt(d)` with Go wrap-around. -/
def numStep (acc : Int) (d : UInt8) : Int := wrap64 (wrap64 (acc * 10) + byteToInt d)

/-- `math.MaxUint32` -/
def maxUint32 : Int := 4294967295

/-- the `for` loop of `ParseNumber`: after every further digit the accumulated value must fit into 32
bits (RFC 3501 `number`), otherwise `MakeError` (commit d71238c; so the 64-bit wrap-around of `numStep`
is no longer reachable here: `Gluon.C10.number_too_big`) -/
def numberLoop : Nat → Int → P Int
  | 0, _ => outOfFuel
  | n + 1, acc => do
    if (← matchesTy .digit) then
      let d ← prevVal
      let acc' := numStep acc d
      if acc' > maxUint32 then makeError
      else numberLoop n acc'
    else
      pure acc

/-- `ParseNumber` -/
def parseNumber (fuel : Nat) : P Int := do
  consume .digit
  let d ← prevVal
  numberLoop fuel (byteToInt d)

/-- the counted loop `for i := 0; i < n-1; i++` of `ParseNumberN` -/
def numberNLoop : Nat → Int → P Int
  | 0, acc => pure acc
  | k + 1, acc => do
    if (← matchesTy .digit) then
      let d ← prevVal
      numberNLoop k (numStep acc d)
    else
      pure acc

/-- `ParseNumberN(n)` (at most `n` digits; fewer are accepted) -/
def parseNumberN (n : Nat) : P Int :=
  if n == 0 then makeError else do
    consume .digit
    let d ← prevVal
    numberNLoop (n - 1) (byteToInt d)

/-! ### atoms and strings -/

/-- `ParseAtom` -/
def parseAtom (fuel : Nat) : P Bytes := do
  consumeWith isAtomChar
  collectWhilePrev isAtomChar fuel

/-- the `for` loop of `ParseQuoted` -/
def quotedLoop : Nat → P Bytes
  | 0 => outOfFuel
  | n + 1 => do
    if (← matchesWith isQuotedChar) then
      let b ← prevVal
      let r ← quotedLoop n
      pure (b :: r)
    else if (← matchesTy .backslash) then
      consumeWith isQuotedSpecial
      let b ← prevVal
      let r ← quotedLoop n
      pure (b :: r)
    else
      pure []

/-- `ParseQuoted` -/
def parseQuoted (fuel : Nat) : P Bytes := do
  consume .dquote
  let q ← quotedLoop fuel
  consume .dquote
  pure q

/-- literal size cap of `ParseLiteral`: `30*1024*1024` -/
def literalCap : Int := 31457280

/-- `Scanner.ConsumeBytes(dst)` with `len(dst) = n ≥ 1`: `dst[0] = currentByte`, then `io.ReadFull` of the
other `n-1` bytes straight from the source (`io.ErrUnexpectedEOF` and `io.EOF` both come back as
`io.EOF`; the source is drained in that case). -/
def scannerConsumeBytes (n : Nat) : P Bytes := fun s =>
  if n = 0 then .err .panic s  -- `dst[0]` on an empty slice
  else if s.rest.length < n - 1 then .err .ioEOF { s with rest := [] }
  else .ok (s.curByte :: s.rest.take (n - 1)) { s with rest := s.rest.drop (n - 1) }

/-- `make([]byte, size)`: runtime panic for a negative or absurd length -/
def goMakeBytes (size : Int) : P Unit := fun s =>
  if size < 0 || size > 281474976710656 then .err .panic s else .ok () s

/-- `p.literalContinuationCb()` (counted; the callback of the harness and of the session do not fail
on their own) -/
def bumpConts : P Unit := fun s => .ok () { s with conts := s.conts + 1 }

/-- `if p.Check(TokenTypeLF) && p.literalContinuationCb != nil { cb() }` -/
def bumpContsIf (b : Bool) : P Unit := if b then bumpConts else pure ()

/-- `ParseLiteral` (commit e5f2a7d: `{0}` is an empty literal; a negative or too large size is a parser
error like any other, so the session answers BAD; before it both were plain errors and `{0}` was
rejected, #17) -/
def parseLiteral (fuel : Nat) : P Bytes := do
  consume .lcurly
  let size ← parseNumber fuel
  if size < 0 then makeError
  else if size ≥ literalCap then makeError
  else do
    consume .rcurly
    consume .cr
    bumpContsIf (← check .lf)
    consume .lf
    if size = 0 then pure []
    else do
      goMakeBytes size
      let lit ← scannerConsumeBytes size.toNat
      advance
      pure lit

/-- `ParseString` -/
def parseString (fuel : Nat) : P Bytes := do
  if (← check .dquote) then parseQuoted fuel
  else if (← check .lcurly) then parseLiteral fuel
  else makeError

/-- `ParseAString` -/
def parseAString (fuel : Nat) : P Bytes := do
  if (← check .dquote) || (← check .lcurly) then parseString fuel
  else collectWhile isAStringChar fuel

/-- `TryParseString` (`none` = not at a string start) -/
def tryParseString (fuel : Nat) : P (Option Bytes) := do
  if !(← check .dquote) && !(← check .lcurly) then pure none
  else do
    let v ← parseString fuel
    pure (some v)

end Gluon.Parse
