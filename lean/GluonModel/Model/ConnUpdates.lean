/-
M-ACT (connector part) — model of `/repo/internal/backend/connector_updates.go` (`user.apply` and every
`apply*`), of the update loop in `/repo/internal/backend/user.go` (`newUser`) and of the one-shot
waiter `/repo/imap/update_waiter.go`.  Core Lean only.

### State

A small relational abstraction of the SQLite index, *as the apply functions see it* (to be unified
with `Model/DB.lean` (M-DB, agent-db) when that lands: `Mbox` = a row of `mailboxes_v2` + its
`mailbox_message_<id>` table + its `sqlite_sequence` entry; `Msg` = a row of `messages_v2` + its
`message_flags_v2` rows; `delSubs` = `deleted_subscriptions`; `message_to_mailbox` is not kept
separately — every writer keeps it equal to the union of the per-mailbox tables, and every reader
used here (`GetMessageMailboxIDs`) is answered from the per-mailbox tables: `DB.mailboxesOf`).

* internal mailbox ids are `AUTOINCREMENT` (`nextMbox`, advanced only by a committed insert);
* internal message ids are UUIDs in Go; here a counter `nextMsg` (only freshness matters);
* UIDs are `AUTOINCREMENT` per mailbox table: `seq` = last UID ever assigned (never reused);
* `\Deleted` set by a client lives in the per-mailbox row (`Row.deleted`), all other flags live
  with the message (`Msg.flags`, lower-cased names; `imap.FlagSet` is case-insensitive);
  `\Recent` is not modelled (per-session);
* `Msg.deleted` is the "marked for deletion" column: such a row stays in `messages_v2` — and is
  still found by `GetMessageIDFromRemoteID` — until a session ends or the user is loaded (`gc`);
* `Msg.lit` stands for the literal in the store: two literals are `bytes.Equal` iff the tags are
  equal (the harness derives the literal from the tag);
* `gen` is the state of the `UIDValidityGenerator` (incremental generator of the harness:
  `Generate()` returns `gen+1`); it is *not* part of the transaction.

Every `apply*` returns the new state, the `state.Update`s queued for the sessions (abstract
events), and success / the error class.  A failing write transaction rolls everything back except
the generator.  Statement-level correspondence with the Go source is noted at each function.
-/
namespace Gluon.ConnUpd

abbrev RID := String
abbrev Flag := String

structure Row where
  uid : Nat
  msg : Nat
  rid : RID
  deleted : Bool
deriving DecidableEq, Repr, Inhabited

structure Mbox where
  iid : Nat
  rid : RID
  name : String
  uidv : Nat
  subscribed : Bool
  seq : Nat
  rows : List Row
deriving DecidableEq, Repr, Inhabited

structure Msg where
  iid : Nat
  rid : RID
  flags : List Flag
  deleted : Bool
  lit : String
deriving DecidableEq, Repr, Inhabited

structure DB where
  mboxes : List Mbox
  msgs : List Msg
  delSubs : List (String × RID)
  nextMbox : Nat
  nextMsg : Nat
  gen : Nat
deriving DecidableEq, Repr, Inhabited

/-- limits (`limits.IMAP`; counts are far below 2^63 so the int64 wrap-around modelled in
    `Model/Limits.lean` cannot occur here), the protected mailbox, and one regenerated fact:
    whether `UpdateRemoteMessageID` addresses the messages table (today it does not, DESIGN §9 #5) -/
structure Cfg where
  maxMailboxes : Nat
  maxMessages : Nat
  maxUID : Nat
  maxUIDValidity : Nat
  msgIDTableOK : Bool
  recoveryRID : RID
  recoveryIID : Nat
deriving DecidableEq, Repr, Inhabited

def recoveryRemoteID : RID := "GLUON-INTERNAL-RECOVERY-MBOX"

/-- `limits.DefaultLimits()` on 64-bit, recovery mailbox created first by `newUser` (id 1) -/
def Cfg.default (msgIDTableOK : Bool) : Cfg :=
  { maxMailboxes := 4294967295, maxMessages := 4294967295, maxUID := 4294967295,
    maxUIDValidity := 4294967295, msgIDTableOK := msgIDTableOK,
    recoveryRID := recoveryRemoteID, recoveryIID := 1 }

/-- the index right after `newUser`: only the recovery mailbox (`GetOrCreateMailboxAlt`), for which
    one UIDVALIDITY was generated -/
def DB.initial : DB :=
  { mboxes := [{ iid := 1, rid := recoveryRemoteID, name := "Recovered Messages", uidv := 1,
                 subscribed := true, seq := 0, rows := [] }],
    msgs := [], delSubs := [], nextMbox := 2, nextMsg := 0, gen := 1 }

inductive Err where
  | protectedMbox  -- "attempting to … protected mailbox (recovery)"
  | notFound       -- db.ErrNotFound
  | noSuchMessage  -- state.ErrNoSuchMessage
  | constraint     -- SQLite UNIQUE constraint failed
  | sql            -- SQLite "no such table"
  | noChange       -- ExecQueryAndCheckUpdatedNotZero: "no values changed"
  | limit          -- limits.ErrMax…
  | badUpdate      -- default branch of the type switch
  | goPanic        -- Go run-time panic (index out of range in setMessageFlags)
deriving DecidableEq, Repr, Inhabited

/-- `state.Update`s queued to the sessions (`queueStateUpdate`), abstractly -/
inductive Ev where
  | exists (mbox : Nat) (items : List (Nat × Nat × List Flag))  -- one ExistsStateUpdate: (message, UID, flags) each
  | expunge (mbox msg : Nat)                                    -- MessageIDAndMailboxIDResponderStateUpdate(NewExpunge)
  | fetchAdd (msg : Nat) (flag : Flag)                          -- RemoteAddMessageFlagsStateUpdate
  | fetchRem (msg : Nat) (flag : Flag)                          -- RemoteRemoveMessageFlagsStateUpdate
  | mailboxDeleted (mbox : Nat)                                 -- MailboxDeletedStateUpdate (session becomes invalid)
  | mailboxRemoteID (mbox : Nat) (rid : RID)                    -- MailboxRemoteIDUpdateStateUpdate (snapshot field only)
  | uidValidityBumped                                           -- UIDValidityBumpedStateUpdate (every session invalid)
  | messageRemoteID (msg : Nat) (rid : RID)                     -- forState(UpdateMessageRemoteID)
deriving DecidableEq, Repr, Inhabited

/-- an event a selected client can see as EXISTS / EXPUNGE / FETCH -/
def Ev.observable : Ev → Bool
  | .exists _ items => !items.isEmpty
  | .expunge _ _ => true
  | .fetchAdd _ _ => true
  | .fetchRem _ _ => true
  | _ => false

structure Res where
  db : DB
  evs : List Ev
  err : Option Err
deriving DecidableEq, Repr, Inhabited

def Res.ok (db : DB) (evs : List Ev) : Res := { db := db, evs := evs, err := none }
def Res.fail (db : DB) (e : Err) : Res := { db := db, evs := [], err := some e }

/-- duplicate-free version of a flag list (`imap.FlagSet` is a set) -/
def dedup : List String → List String
  | [] => []
  | x :: xs => if xs.contains x then dedup xs else x :: dedup xs

/-! ### reads -/

def DB.mboxByRid (db : DB) (rid : RID) : Option Mbox := db.mboxes.find? (fun m => m.rid == rid)
def DB.mboxByIid (db : DB) (iid : Nat) : Option Mbox := db.mboxes.find? (fun m => m.iid == iid)
def DB.msgByRid (db : DB) (rid : RID) : Option Msg := db.msgs.find? (fun m => m.rid == rid)
def DB.msgByIid (db : DB) (iid : Nat) : Option Msg := db.msgs.find? (fun m => m.iid == iid)

def Mbox.has (m : Mbox) (msg : Nat) : Bool := m.rows.any (fun r => r.msg == msg)

/-- `GetMessageMailboxIDs` -/
def DB.mailboxesOf (db : DB) (msg : Nat) : List Nat := (db.mboxes.filter (fun m => m.has msg)).map (·.iid)

def DB.updMbox (db : DB) (iid : Nat) (f : Mbox → Mbox) : DB :=
  { db with mboxes := db.mboxes.map (fun m => if m.iid == iid then f m else m) }

def DB.updMsg (db : DB) (iid : Nat) (f : Msg → Msg) : DB :=
  { db with msgs := db.msgs.map (fun m => if m.iid == iid then f m else m) }

/-! ### shared writers -/

def mkRows : Nat → List (Nat × RID) → List Row
  | _, [] => []
  | uid, p :: ps => { uid := uid, msg := p.1, rid := p.2, deleted := false } :: mkRows (uid + 1) ps

def hasDupMsg : List (Nat × RID) → Bool
  | [] => false
  | p :: ps => ps.any (fun q => q.1 == p.1 || q.2 == p.2) || hasDupMsg ps

def flagsOf (db : DB) (msg : Nat) : List Flag :=
  match db.msgByIid msg with
  | some m => m.flags
  | none => []

/-- `state.AddMessagesToMailbox` → `tx.AddMessagesToMailbox`: count and UID limits, then one
    `INSERT` per chunk into `mailbox_message_<id>` (UNIQUE message id, UNIQUE remote id,
    AUTOINCREMENT UID) and `message_to_mailbox`, then the rows are read back ordered by UID for
    the `ExistsStateUpdate`. -/
def addMessages (cfg : Cfg) (db : DB) (mbox : Nat) (pairs : List (Nat × RID)) : Except Err (DB × Ev) :=
  match db.mboxByIid mbox with
  | none => .error .sql
  | some mb =>
    if mb.rows.length + pairs.length > cfg.maxMessages then .error .limit
    else if mb.seq + 1 + pairs.length > cfg.maxUID then .error .limit
    else if hasDupMsg pairs || pairs.any (fun p => mb.rows.any (fun r => r.msg == p.1 || r.rid == p.2)) then
      .error .constraint
    else
      let rows := mkRows (mb.seq + 1) pairs
      let db' := db.updMbox mbox (fun m => { m with seq := m.seq + pairs.length, rows := m.rows ++ rows })
      .ok (db', .exists mbox (rows.map (fun r => (r.msg, r.uid, flagsOf db r.msg))))

/-- `state.RemoveMessagesFromMailbox` with one message -/
def removeMessage (db : DB) (mbox msg : Nat) : DB × List Ev :=
  (db.updMbox mbox (fun m => { m with rows := m.rows.filter (fun r => r.msg != msg) }), [.expunge mbox msg])

def removeFromAll (db : DB) (msg : Nat) : List Nat → DB × List Ev
  | [] => (db, [])
  | mb :: rest =>
    let (db1, e1) := removeMessage db mb msg
    let (db2, e2) := removeFromAll db1 msg rest
    (db2, e1 ++ e2)

def addToAll (cfg : Cfg) (db : DB) (p : Nat × RID) : List Nat → Except Err (DB × List Ev)
  | [] => .ok (db, [])
  | mb :: rest =>
    match addMessages cfg db mb [p] with
    | .error e => .error e
    | .ok (db1, e1) =>
      match addToAll cfg db1 p rest with
      | .error e => .error e
      | .ok (db2, e2) => .ok (db2, e1 :: e2)

/-- `user.setMessageMailboxes`: first the additions (target \ current), then the removals
    (current \ target) -/
def setMessageMailboxes (cfg : Cfg) (db : DB) (g : Msg) (target : List Nat) : Except Err (DB × List Ev) :=
  let cur := db.mailboxesOf g.iid
  match addToAll cfg db (g.iid, g.rid) (target.filter (fun m => !cur.contains m)) with
  | .error e => .error e
  | .ok (db1, e1) =>
    let (db2, e2) := removeFromAll db1 g.iid (cur.filter (fun m => !target.contains m))
    .ok (db2, e1 ++ e2)

/-- `user.setMessageFlags`: one `removeMessageFlags` per current flag not wanted, one
    `addMessageFlags` per wanted flag not present (`curFlags[0]` panics if the message row is gone) -/
def setMessageFlags (db : DB) (iid : Nat) (target : List Flag) : Except Err (DB × List Ev) :=
  match db.msgByIid iid with
  | none => .error .goPanic
  | some m =>
    let rems := m.flags.filter (fun f => !target.contains f)
    let adds := (dedup target).filter (fun f => !m.flags.contains f)
    let flags' := m.flags.filter (fun f => target.contains f) ++ adds
    .ok (db.updMsg iid (fun x => { x with flags := flags' }),
         rems.map (Ev.fetchRem iid) ++ adds.map (Ev.fetchAdd iid))

/-! ### the updates -/

structure NewMsg where
  rid : RID
  flags : List Flag
  lit : String
  mboxes : List RID
deriving DecidableEq, Repr, Inhabited

inductive Update where
  | mailboxCreated (rid : RID) (name : String)
  | mailboxDeleted (rid : RID)
  | mailboxUpdated (rid : RID) (name : String)
  | mailboxIDChanged (iid : Nat) (rid : RID)
  | messagesCreated (ignoreUnknown : Bool) (msgs : List NewMsg)
  | messageMailboxesUpdated (rid : RID) (mboxes : List RID) (flags : List Flag)
  | messageFlagsUpdated (rid : RID) (flags : List Flag)
  | messageIDChanged (iid : Nat) (rid : RID)
  | messageDeleted (rid : RID)
  | messageUpdated (m : NewMsg) (allowCreate : Bool)
  | uidValidityBumped
  | noop
  | unknown
deriving DecidableEq, Repr, Inhabited

/-- `applyMailboxCreated`: protected id refused; known id → nothing; otherwise a UIDVALIDITY is
    generated (outside the transaction), checked, and inside the transaction the mailbox count is
    checked and the row inserted (UNIQUE name) with `subscribed = true`. -/
def applyMailboxCreated (cfg : Cfg) (db : DB) (rid : RID) (name : String) : Res :=
  if rid == cfg.recoveryRID then .fail db .protectedMbox
  else if (db.mboxByRid rid).isSome then .ok db []
  else
    let v := db.gen + 1
    let db1 := { db with gen := v }
    if v ≥ cfg.maxUIDValidity then .fail db1 .limit
    else if db.mboxes.length ≥ cfg.maxMailboxes then .fail db1 .limit
    else if db.mboxes.any (fun m => m.name == name) then .fail db1 .constraint
    else
      .ok { db1 with
              mboxes := db1.mboxes ++ [{ iid := db.nextMbox, rid := rid, name := name, uidv := v,
                                          subscribed := true, seq := 0, rows := [] }],
              nextMbox := db.nextMbox + 1 } []

/-- `AddDeletedSubscription`: UPDATE by name, INSERT if nothing was updated; both columns UNIQUE -/
def addDeletedSub (ds : List (String × RID)) (name : String) (rid : RID) : Option (List (String × RID)) :=
  if ds.any (fun e => e.1 == name) then
    if ds.any (fun e => e.1 != name && e.2 == rid) then none
    else some (ds.map (fun e => if e.1 == name then (e.1, rid) else e))
  else if ds.any (fun e => e.2 == rid) then none
  else some (ds ++ [(name, rid)])

/-- `applyMailboxDeleted`: protected id refused; unknown id → nothing; otherwise
    `DeleteMailboxWithRemoteID` (a deleted-subscription entry if subscribed, DROP TABLE, DELETE row)
    and `RemoveDeletedSubscriptionWithName`; one `MailboxDeletedStateUpdate`. -/
def applyMailboxDeleted (cfg : Cfg) (db : DB) (rid : RID) : Res :=
  if rid == cfg.recoveryRID then .fail db .protectedMbox
  else
    match db.mboxByRid rid with
    | none => .ok db []
    | some mb =>
      match (if mb.subscribed then addDeletedSub db.delSubs mb.name rid else some db.delSubs) with
      | none => .fail db .constraint
      | some ds =>
        .ok { db with mboxes := db.mboxes.filter (fun m => m.rid != rid),
                      delSubs := ds.filter (fun e => e.1 != mb.name) } [.mailboxDeleted mb.iid]

/-- ASCII lower-casing (`strings.EqualFold(remoteName, "inbox")`; kernel-reducible, unlike `String.toLower`) -/
def lowerAscii (s : String) : String := String.ofList (s.toList.map Char.toLower)

/-- `applyMailboxUpdated`: protected id refused; unknown id → nothing; the new name is compared
    after mapping any spelling of "inbox" to "INBOX", but the mailbox is renamed to the name as
    given (UNIQUE name). -/
def applyMailboxUpdated (cfg : Cfg) (db : DB) (rid : RID) (name : String) : Res :=
  if rid == cfg.recoveryRID then .fail db .protectedMbox
  else
    match db.mboxByRid rid with
    | none => .ok db []
    | some mb =>
      let remoteName := if lowerAscii name == "inbox" then "INBOX" else name
      if mb.name == remoteName then .ok db []
      else if db.mboxes.any (fun m => m.iid != mb.iid && m.name == name) then .fail db .constraint
      else .ok (db.updMbox mb.iid (fun m => { m with name := name })) []

/-- `applyMailboxIDChanged`: the recovery mailbox's internal id refused; `UpdateRemoteMailboxID`
    (no row → "no values changed"; UNIQUE remote id); one `MailboxRemoteIDUpdateStateUpdate`. -/
def applyMailboxIDChanged (cfg : Cfg) (db : DB) (iid : Nat) (rid : RID) : Res :=
  if iid == cfg.recoveryIID then .fail db .protectedMbox
  else
    match db.mboxByIid iid with
    | none => .fail db .noChange
    | some _ =>
      if db.mboxes.any (fun m => m.iid != iid && m.rid == rid) then .fail db .constraint
      else .ok (db.updMbox iid (fun m => { m with rid := rid })) [.mailboxRemoteID iid rid]

/-- accumulators of the loop in `applyMessagesCreated`: `messagesToCreate` (+ its filter map) and
    `messageForMBox` (the `mboxInternalIDMap` cache only saves look-ups: the index does not change
    during the loop) -/
structure MscAcc where
  toCreate : List Msg
  forMbox : List (Nat × List (Nat × RID))
deriving DecidableEq, Repr, Inhabited

def addPair (fm : List (Nat × List (Nat × RID))) (mb : Nat) (p : Nat × RID) : List (Nat × List (Nat × RID)) :=
  if fm.any (fun e => e.1 == mb) then
    fm.map (fun e => if e.1 == mb then (if e.2.any (fun q => q.1 == p.1) then e else (e.1, e.2 ++ [p])) else e)
  else fm ++ [(mb, [p])]

def mscMailboxes (db : DB) (ignore : Bool) (p : Nat × RID) :
    List RID → List (Nat × List (Nat × RID)) → Except Err (List (Nat × List (Nat × RID)))
  | [], fm => .ok fm
  | b :: bs, fm =>
    match db.mboxByRid b with
    | none => if ignore then mscMailboxes db ignore p bs fm else .error .notFound
    | some mb => mscMailboxes db ignore p bs (addPair fm mb.iid p)

/-- `internalID, ok := messagesToCreateFilter[message.Message.ID]`; if absent
    `GetMessageIDFromRemoteID` (finds messages marked deleted too); if not found a fresh id and a
    `messagesToCreate` entry -/
def mscResolve (db : DB) (acc : MscAcc) (m : NewMsg) : Nat × MscAcc :=
  match acc.toCreate.find? (fun c => c.rid == m.rid) with
  | some c => (c.iid, acc)
  | none =>
    match db.msgByRid m.rid with
    | some g => (g.iid, acc)
    | none =>
      let i := db.nextMsg + acc.toCreate.length
      (i, { acc with toCreate := acc.toCreate ++
              [({ iid := i, rid := m.rid, flags := dedup m.flags, deleted := false, lit := m.lit } : Msg)] })

/-- one iteration of `for _, message := range update.Messages` -/
def mscStep (cfg : Cfg) (db : DB) (ignore : Bool) (acc : MscAcc) (m : NewMsg) : Except Err MscAcc :=
  if m.mboxes.contains cfg.recoveryRID then .ok acc
  else
    let r := mscResolve db acc m
    match mscMailboxes db ignore (r.1, m.rid) m.mboxes r.2.forMbox with
    | .error e => .error e
    | .ok fm => .ok { r.2 with forMbox := fm }

def mscLoop (cfg : Cfg) (db : DB) (ignore : Bool) : MscAcc → List NewMsg → Except Err MscAcc
  | acc, [] => .ok acc
  | acc, m :: ms =>
    match mscStep cfg db ignore acc m with
    | .error e => .error e
    | .ok acc1 => mscLoop cfg db ignore acc1 ms

/-- `for mboxID, msgList := range messageForMBox`, visited in the order of the list (the model's
    representative schedule: insertion order), stopping at the first mailbox whose
    `AddMessagesToMailbox` fails.  In Go this is a *map* iteration: the order is unspecified.  Each
    iteration only reads and writes its own mailbox, so the resulting index and whether the update
    fails do not depend on the order; what does depend on it is the order of the queued state
    updates and — when several mailboxes would fail with *different* errors — which of these errors
    is acknowledged (`assignErrs`, `applyMessagesCreatedIn`, `mscPossibleErrs` below; proofs in
    `Lemmas/ConnMapOrder.lean`, `Theorems/C06.lean` `messagesCreated_map_order`). -/
def assignAll (cfg : Cfg) : DB → List (Nat × List (Nat × RID)) → Except Err (DB × List Ev)
  | db, [] => .ok (db, [])
  | db, (mb, pairs) :: rest =>
    let toAdd :=
      match db.mboxByIid mb with
      | some m => pairs.filter (fun p => !m.has p.1)
      | none => pairs
    if toAdd.isEmpty then assignAll cfg db rest
    else
      match addMessages cfg db mb toAdd with
      | .error e => .error e
      | .ok (db1, ev) =>
        match assignAll cfg db1 rest with
        | .error e => .error e
        | .ok (db2, evs) => .ok (db2, ev :: evs)

/-- `applyMessagesCreated` -/
def applyMessagesCreated (cfg : Cfg) (db : DB) (ignore : Bool) (msgs : List NewMsg) : Res :=
  match mscLoop cfg db ignore { toCreate := [], forMbox := [] } msgs with
  | .error e => .fail db e
  | .ok acc =>
    if acc.toCreate.isEmpty && acc.forMbox.isEmpty then .ok db []
    else
      let db1 := { db with msgs := db.msgs ++ acc.toCreate, nextMsg := db.nextMsg + acc.toCreate.length }
      match assignAll cfg db1 acc.forMbox with
      | .error e => .fail db e
      | .ok (db2, evs) => .ok db2 evs

/-- the messages of entry `e = (mb, pairs)` of `messageForMBox` that are not yet in mailbox `mb`
    (the `toAdd` of `assignAll`) -/
def assignToAdd (db : DB) (e : Nat × List (Nat × RID)) : List (Nat × RID) :=
  match db.mboxByIid e.1 with
  | some m => e.2.filter (fun p => !m.has p.1)
  | none => e.2

/-- the error mailbox entry `(mb, pairs)` raises by itself against `db` (none: it is accepted or has
    nothing to add) -/
def assignErrOne (cfg : Cfg) (db : DB) (e : Nat × List (Nat × RID)) : Option Err :=
  if (assignToAdd db e).isEmpty then none
  else
    match addMessages cfg db e.1 (assignToAdd db e) with
    | .error err => some err
    | .ok _ => none

/-- the errors the entries of `messageForMBox` raise, each taken by itself against `db` -/
def assignErrs (cfg : Cfg) (db : DB) (l : List (Nat × List (Nat × RID))) : List Err :=
  l.filterMap (assignErrOne cfg db)

/-- `applyMessagesCreated` with `messageForMBox` visited in the order `ord` picked (Go map iteration) -/
def applyMessagesCreatedIn (ord : List (Nat × List (Nat × RID)) → List (Nat × List (Nat × RID)))
    (cfg : Cfg) (db : DB) (ignore : Bool) (msgs : List NewMsg) : Res :=
  match mscLoop cfg db ignore { toCreate := [], forMbox := [] } msgs with
  | .error e => .fail db e
  | .ok acc =>
    if acc.toCreate.isEmpty && acc.forMbox.isEmpty then .ok db []
    else
      let db1 := { db with msgs := db.msgs ++ acc.toCreate, nextMsg := db.nextMsg + acc.toCreate.length }
      match assignAll cfg db1 (ord acc.forMbox) with
      | .error e => .fail db e
      | .ok (db2, evs) => .ok db2 evs

/-- every error `applyMessagesCreated` may acknowledge under some iteration order of
    `messageForMBox`: the error of the first loop if it fails (that loop is over a slice: one order),
    otherwise the errors of the mailboxes that refuse their messages -/
def mscPossibleErrs (cfg : Cfg) (db : DB) (ignore : Bool) (msgs : List NewMsg) : List Err :=
  match mscLoop cfg db ignore { toCreate := [], forMbox := [] } msgs with
  | .error e => [e]
  | .ok acc =>
    if acc.toCreate.isEmpty && acc.forMbox.isEmpty then []
    else
      let db1 := { db with msgs := db.msgs ++ acc.toCreate, nextMsg := db.nextMsg + acc.toCreate.length }
      assignErrs cfg db1 acc.forMbox

/-- `applyMessageMailboxesUpdated`: protected id in the list refused; unknown message →
    `ErrNoSuchMessage`; `MailboxTranslateRemoteIDs` (`… IN (…)`: unknown ids are dropped, duplicates
    collapse); `setMessageMailboxes`, then `setMessageFlags`. -/
def applyMessageMailboxesUpdated (cfg : Cfg) (db : DB) (rid : RID) (mbs : List RID) (flags : List Flag) : Res :=
  if mbs.contains cfg.recoveryRID then .fail db .protectedMbox
  else
    match db.msgByRid rid with
    | none => .fail db .noSuchMessage
    | some g =>
      let target := (db.mboxes.filter (fun m => mbs.contains m.rid)).map (·.iid)
      match setMessageMailboxes cfg db g target with
      | .error e => .fail db e
      | .ok (db1, e1) =>
        match setMessageFlags db1 g.iid flags with
        | .error e => .fail db e
        | .ok (db2, e2) => .ok db2 (e1 ++ e2)

/-- `applyMessageFlagsUpdated` -/
def applyMessageFlagsUpdated (db : DB) (rid : RID) (flags : List Flag) : Res :=
  match db.msgByRid rid with
  | none => .fail db .noSuchMessage
  | some g =>
    match setMessageFlags db g.iid flags with
    | .error e => .fail db e
    | .ok (db1, e1) => .ok db1 e1

/-- `applyMessageIDChanged`: `UpdateRemoteMessageID` builds `UPDATE <MessagesFieldID> SET …` — the
    column name where the table name belongs — so the statement fails ("no such table: id") for
    every input (`cfg.msgIDTableOK = false`, regenerated from the source).  With the table name in
    place: no row → "no values changed", UNIQUE remote id, then every session is told. -/
def applyMessageIDChanged (cfg : Cfg) (db : DB) (iid : Nat) (rid : RID) : Res :=
  if !cfg.msgIDTableOK then .fail db .sql
  else
    match db.msgByIid iid with
    | none => .fail db .noChange
    | some _ =>
      if db.msgs.any (fun m => m.iid != iid && m.rid == rid) then .fail db .constraint
      else .ok (db.updMsg iid (fun m => { m with rid := rid })) [.messageRemoteID iid rid]

/-- `applyMessageDeleted`: mark (no row → nothing), remove from every mailbox it is in -/
def applyMessageDeleted (db : DB) (rid : RID) : Res :=
  match db.msgByRid rid with
  | none => .ok db []
  | some g =>
    let db1 := db.updMsg g.iid (fun m => { m with deleted := true })
    let (db2, evs) := removeFromAll db1 g.iid (db1.mailboxesOf g.iid)
    .ok db2 evs

/-- `MarkMessageAsDeletedAndAssignRandomRemoteID`: "DELETED-<uuid>" (the counter stands for the UUID) -/
def ghostRid (n : Nat) : RID := "DELETED-" ++ toString n

def resolveAll (db : DB) : List RID → Option (List Nat)
  | [] => some []
  | b :: bs =>
    match db.mboxByRid b, resolveAll db bs with
    | some mb, some r => some (mb.iid :: r)
    | _, _ => none

/-- the "create new entry" loop of `applyMessageUpdated`: look the mailbox up, add the one message -/
def addNewTo (cfg : Cfg) (db : DB) (p : Nat × RID) : List RID → Except Err (DB × List Ev)
  | [] => .ok (db, [])
  | b :: bs =>
    match db.mboxByRid b with
    | none => .error .notFound
    | some mb =>
      match addMessages cfg db mb.iid [p] with
      | .error e => .error e
      | .ok (db1, e1) =>
        match addNewTo cfg db1 p bs with
        | .error e => .error e
        | .ok (db2, e2) => .ok (db2, e1 :: e2)

/-- `applyMessageUpdated`: unknown message → created (with `IgnoreUnknownMailboxIDs`) or skipped;
    same literal → flags, then mailboxes (every listed mailbox must exist; *no* protected-mailbox
    check); other literal → the old message leaves all its mailboxes and is marked deleted under a
    random remote id, a new message is created and added to the listed mailboxes one by one. -/
def applyMessageUpdated (cfg : Cfg) (db : DB) (m : NewMsg) (allowCreate : Bool) : Res :=
  match db.msgByRid m.rid with
  | none => if allowCreate then applyMessagesCreated cfg db true [m] else .ok db []
  | some g =>
    if g.lit == m.lit then
      match resolveAll db m.mboxes with
      | none => .fail db .notFound
      | some target =>
        match setMessageFlags db g.iid m.flags with
        | .error e => .fail db e
        | .ok (db1, e1) =>
          match setMessageMailboxes cfg db1 g target with
          | .error e => .fail db e
          | .ok (db2, e2) => .ok db2 (e1 ++ e2)
    else
      let (db1, e1) := removeFromAll db g.iid (db.mailboxesOf g.iid)
      let db2 := db1.updMsg g.iid (fun x => { x with deleted := true, rid := ghostRid db.nextMsg })
      let db3 := { db2 with
                     msgs := db2.msgs ++ [{ iid := db.nextMsg, rid := m.rid, flags := dedup m.flags,
                                            deleted := false, lit := m.lit }],
                     nextMsg := db.nextMsg + 1 }
      match addNewTo cfg db3 (db.nextMsg, m.rid) m.mboxes with
      | .error e => .fail db e
      | .ok (db4, e2) => .ok db4 (e1 ++ e2)

def bumpAll : Nat → List Mbox → List Mbox
  | _, [] => []
  | g, m :: ms => { m with uidv := g + 1 } :: bumpAll (g + 1) ms

/-- `applyUIDValidityBumped`: one `Generate()` per mailbox in table order (no limit check), one
    `UIDValidityBumpedStateUpdate` -/
def applyUIDValidityBumped (db : DB) : Res :=
  .ok { db with mboxes := bumpAll db.gen db.mboxes, gen := db.gen + db.mboxes.length } [.uidValidityBumped]

/-- the type switch of `user.apply` -/
def apply (cfg : Cfg) (db : DB) : Update → Res
  | .mailboxCreated rid name => applyMailboxCreated cfg db rid name
  | .mailboxDeleted rid => applyMailboxDeleted cfg db rid
  | .mailboxUpdated rid name => applyMailboxUpdated cfg db rid name
  | .mailboxIDChanged iid rid => applyMailboxIDChanged cfg db iid rid
  | .messagesCreated ig ms => applyMessagesCreated cfg db ig ms
  | .messageMailboxesUpdated rid mbs fl => applyMessageMailboxesUpdated cfg db rid mbs fl
  | .messageFlagsUpdated rid fl => applyMessageFlagsUpdated db rid fl
  | .messageIDChanged iid rid => applyMessageIDChanged cfg db iid rid
  | .messageDeleted rid => applyMessageDeleted db rid
  | .messageUpdated m ac => applyMessageUpdated cfg db m ac
  | .uidValidityBumped => applyUIDValidityBumped db
  | .noop => .ok db []
  | .unknown => .fail db .badUpdate

/-- environment step, not a connector update: a session ends (`user.removeState`) or the user is
    loaded (`deleteAllMessagesMarkedDeleted`, `held = []`): `DeleteMessages` of every message marked
    deleted that no *other* live session's snapshot still holds (`held`).  The per-mailbox tables
    reference `messages_v2(id)` with `ON DELETE SET NULL` on a `NOT NULL` column: if one of the
    messages to delete is still in a mailbox the statement fails and the whole transaction is rolled
    back (nothing is collected, and `removeState` returns before `state.Close`). -/
def gc (db : DB) (held : List Nat) : DB :=
  let cand := db.msgs.filter (fun g => g.deleted && !held.contains g.iid)
  if cand.any (fun g => db.mboxes.any (fun m => m.has g.iid)) then db
  else { db with msgs := db.msgs.filter (fun g => !(g.deleted && !held.contains g.iid)) }

/-! ### the one-shot waiter (`imap/update_waiter.go`)

`waitCh := make(chan error, 1)`; `Done(err)`: `if err != nil { waitCh <- err }; close(waitCh)`;
`Wait()`: `err, ok := <-waitCh`. -/

structure Waiter where
  buf : Option Err
  closed : Bool
deriving DecidableEq, Repr, Inhabited

def Waiter.new : Waiter := { buf := none, closed := false }

inductive DoneOutcome where
  | ok (w : Waiter)
  | panicClosed      -- send on / close of a closed channel
  | blocked          -- buffer full, nobody receives: the caller hangs
deriving DecidableEq, Repr

def Waiter.done (w : Waiter) (e : Option Err) : DoneOutcome :=
  if w.closed then .panicClosed
  else
    match e with
    | none => .ok { w with closed := true }
    | some x => if w.buf.isSome then .blocked else .ok { buf := some x, closed := true }

/-- result of a receive: `none` = would block; `some (err, ok)` as in Go -/
def Waiter.wait (w : Waiter) : Option (Option Err × Bool) × Waiter :=
  match w.buf with
  | some x => (some (some x, true), { w with buf := none })
  | none => if w.closed then (some (none, false), w) else (none, w)

/-! ### the update loop (`newUser`) and `user.apply`'s acknowledgement

Shape parameters are regenerated from the source (`Generated/Facts/Ack.lean`):
`doneCalls` = number of `update.Done(` statements `user.apply` executes on every path,
`exitsOnError` = the error branch of the loop leaves the loop (`return`/`break`/`panic`). -/

structure LoopShape where
  doneCalls : Nat
  exitsOnError : Bool
deriving DecidableEq, Repr, Inhabited

inductive LoopEv where
  | taken (i : Nat)
  | done (i : Nat) (err : Option Err)
  | reported (i : Nat)
deriving DecidableEq, Repr, Inhabited

/-- the goroutine of `newUser`: take update `i` from the channel, `user.apply` (dispatch, then
    `Done(err)` `doneCalls` times), report an error, go on (or leave, if the shape says so) -/
def runLoop (sh : LoopShape) (cfg : Cfg) : DB → Nat → List Update → List LoopEv × DB
  | db, _, [] => ([], db)
  | db, i, u :: us =>
    let r := apply cfg db u
    let here := LoopEv.taken i :: (List.replicate sh.doneCalls (LoopEv.done i r.err)
                  ++ (if r.err.isSome then [LoopEv.reported i] else []))
    if r.err.isSome && sh.exitsOnError then (here, r.db)
    else
      let (rest, db') := runLoop sh cfg r.db (i + 1) us
      (here ++ rest, db')

/-- feeding the `done` events of update `i` to its waiter -/
def feedWaiter (i : Nat) : List LoopEv → DoneOutcome → DoneOutcome
  | [], o => o
  | .done j e :: rest, .ok w => if j == i then feedWaiter i rest (w.done e) else feedWaiter i rest (.ok w)
  | _ :: rest, o => feedWaiter i rest o

end Gluon.ConnUpd
