/-
M-DB, part 3: the call-site table regenerated from /repo's source (`vh facts` →
`Generated/Facts/Chunk.lean`) in the form the operations of `Model/DB.lean` consume.
`factSites` is what the correspondence driver runs the model with and what
`Theorems/C08.lean` instantiates `chunk_faithful` at.
-/
import GluonModel.Model.DB
import GluonModel.Generated.Facts.Chunk

namespace Gluon.DB

def factSites : Sites := { limit := Facts.chunkLimit, site := Facts.site, sqlOk := Facts.sqlOk }

end Gluon.DB
