/-
M-LITCACHE — where FETCH / SEARCH get a message's bytes from: `State.getLiteral`
(internal/state/state.go), statement by statement.

    storeLiteral, firstErr := store.Get(internalID)
    if firstErr != nil {
        if ids.IsRecoveredRemoteMessageID(remoteID) { return nil, firstErr }
        connectorLiteral, err := remote.GetMessageLiteral(ctx, remoteID)        -- err: return
        literalWithHeader, err := rfc822.SetHeaderValue(connectorLiteral, ids.InternalIDKey, internalID.String())
        if err := store.Set(internalID, literalWithHeader); err != nil { return }
        literal = literalWithHeader
    } else { literal = storeLiteral }
    return literal

The cache (`store`) and the connector (`remote`) are finite maps from the message's internal id to bytes;
a cache file that is missing, unreadable or does not decrypt is "no entry" (`store.Get` fails; what makes
it fail is C09's subject).  `SetHeaderValue` is the model of Model/Rfc822.lean.  The creation paths
(actionCreateMessage, applyMessagesCreated, applyMessageUpdated) store
`SetHeaderValueNoMemCopy(literal, ids.InternalIDKey, internalID.String())` — the same function — and the
connector keeps the literal it was given (`create`).

Core Lean only.
-/
import GluonModel.Model.Rfc822

namespace Gluon.LitCache
open Gluon.Rfc822

abbrev Files := List (Nat × Bytes)

/-- write / replace one entry -/
def put (l : Files) (id : Nat) (b : Bytes) : Files := (id, b) :: l.filter (fun e => e.1 != id)

/-- the entry is gone (file removed, unreadable, not decryptable) -/
def erase (l : Files) (id : Nat) : Files := l.filter (fun e => e.1 != id)

structure St where
  /-- the on-disk cache: internal id ↦ stored literal -/
  store  : Files
  /-- what the connector answers `GetMessageLiteral` with for the message that has this internal id -/
  remote : Files
deriving Repr

/-- everything `getLiteral` reads besides the two maps -/
structure Env where
  /-- `ids.InternalIDKey` -/
  key       : Bytes
  /-- `InternalMessageID.String()` -/
  idText    : Nat → Bytes
  /-- `ids.IsRecoveredRemoteMessageID(remoteID)` of the message -/
  recovered : Nat → Bool
  /-- whether `store.Set` succeeds for that id (disk full, permissions …) -/
  setOk     : Nat → Bool

inductive GErr where
  | storeMiss                 -- firstErr handed on (recovered message)
  | download                  -- connector could not deliver
  | header (e : HErr)         -- SetHeaderValue failed
  | storeSet                  -- writing the cache file failed
deriving Repr, DecidableEq

/-- `State.getLiteral` -/
def getLiteral (env : Env) (st : St) (id : Nat) : Except GErr Bytes × St :=
  match st.store.lookup id with
  | some storeLiteral => (.ok storeLiteral, st)
  | none =>
    if env.recovered id then (.error .storeMiss, st)
    else
      match st.remote.lookup id with
      | none => (.error .download, st)
      | some connectorLiteral =>
        match setHeaderValue connectorLiteral env.key (env.idText id) with
        | .error e => (.error (.header e), st)
        | .ok (literalWithHeader, _) =>
          if env.setOk id then (.ok literalWithHeader, { st with store := put st.store id literalWithHeader })
          else (.error .storeSet, st)

/-- message creation (APPEND, connector MessagesCreated, the new message of MessageUpdated): the cache gets
    the literal with the id line, the connector keeps the literal as given.  `none`: the header does not
    parse and the creation is refused. -/
def create (env : Env) (st : St) (id : Nat) (lit : Bytes) : Option St :=
  match setHeaderValue lit env.key (env.idText id) with
  | .error _ => none
  | .ok (out, _) => some { store := put st.store id out, remote := put st.remote id lit }

/-- the cache file disappears behind the server's back -/
def dropFile (st : St) (id : Nat) : St := { st with store := erase st.store id }

/-- `applyMessageUpdated` (internal/backend/connector_updates.go) as far as literals go, for an update literal
    that carries no id line of its own: the cache file of the current message is compared with the update
    literal spliced with the CURRENT id; equal (and readable) → nothing changes; otherwise the message is
    re-created under a NEW internal id from the update literal.  Returns the state and the id the message
    has afterwards; `none`: the update is refused (header does not parse). -/
def update (env : Env) (st : St) (cur new : Nat) (lit2 : Bytes) : Option (St × Nat) :=
  let onDiskLiteral := st.store.lookup cur
  let updateLiteral :=
    match setHeaderValue lit2 env.key (env.idText cur) with
    | .ok (l, _) => l
    | .error _ => lit2
  if onDiskLiteral == some updateLiteral then some ({ st with remote := put st.remote cur lit2 }, cur)
  else
    match setHeaderValue lit2 env.key (env.idText new) with
    | .error _ => none
    | .ok (out, _) => some ({ store := put st.store new out, remote := put st.remote new lit2 }, new)

end Gluon.LitCache
