/-
M-CRASH, the store step seen from the OPERATING SYSTEM (property C07).

`Model/Crash.lean` reads a recorded `store.Set` that returned nil as the micro-steps `setOpen, setMid, setEnd id lit`:
after it the cache file is COMPLETE and holds the bytes `Set` was given; a `store.Set` that returned an error is a
failing step (`failAt`).  That reading is an assumption about the store below the `store.Store` interface:
`onDiskStore.Set` (store/disk.go) writes header, nonce and the encrypted blocks with `file.Write` and must hand every
error of those writes (disk full, I/O error, quota) on to its caller.  A `Set` that swallows a failing `write(2)` returns
nil with a truncated or empty file — the caller commits the row, the command is acknowledged, the bytes are nowhere.

Here the assumption is a NAMED hypothesis: `SetFaithful`.  `runReal` is `run` with what the real `Set` calls of the
operation LEFT under their ids (`SetResult`), the operation going on after a call exactly when it returned nil.  The wire
oracle `c07os` produces real `SetResult`s with write failures arranged in the kernel (/dev/full, RLIMIT_FSIZE) and the
judge `judge-c07os` evaluates `SetFaithful` on them.  Core Lean only.
-/
import GluonModel.Model.Crash

namespace Gluon.Crash

/-- what one real `Store.Set(id, lit)` call did, seen from outside: what it returned, what it left under the id -/
structure SetResult where
  returnedNil : Bool
  /-- `none`: no file -/
  file : Option File
deriving DecidableEq, Repr

/-- **NAMED HYPOTHESIS `SetFaithful`** — a `Set` that returns nil has left the COMPLETE cache file holding the bytes it
    was given: every failing write of the file surfaces as an error of `Set`. -/
def SetFaithful (lit : Lit) (r : SetResult) : Prop := r.returnedNil = true → r.file = some (.complete lit)

instance (lit : Lit) (r : SetResult) : Decidable (SetFaithful lit r) := by unfold SetFaithful; infer_instance

/-- the store after a real call -/
def Store.afterSet (st : Store) (id : MsgId) (r : SetResult) : Store :=
  match r.file with
  | some f => st.put id f
  | none => st.remove id

/-- what the real `Set` calls of an operation did, by id (`none`: as the model says) -/
abbrev SetResults := MsgId → Option SetResult

/-- one storage step with the real outcome of `Set` -/
def execReal (R : SetResults) (s : St) : Step → St
  | .setEnd id l =>
    match R id with
    | some r => { s with store := s.store.afterSet id r }
    | none => exec s (.setEnd id l)
  | st => exec s st

def runReal (R : SetResults) (steps : List Step) (s : St) : St := steps.foldl (execReal R) s

/-- the process dies after `i` steps, the `Set` calls having done what they really did -/
def crashAfterReal (R : SetResults) (i : Nat) (steps : List Step) (s : St) : St := crash (runReal R (steps.take i) s)

/-- every real `Set` of the step list that the operation went on after (it returned nil) is faithful -/
def SetsFaithful (R : SetResults) (steps : List Step) : Prop :=
  ∀ id l, Step.setEnd id l ∈ steps → ∀ r, R id = some r → r.returnedNil = true ∧ SetFaithful l r

end Gluon.Crash
