/-
M-ACT, abstraction: the map `abs` from the model state of `Model/Actions.lean` (message index + message
store) to the reference state of `Spec/MailboxRef.lean`, used by the C03 theorems (`Theorems/C03.lean`) and by
the driver (`Driver/DContent.lean`, which prints the model's content through it).  Core Lean only.
-/
import GluonModel.Model.Actions
import GluonModel.Spec.MailboxRef

namespace Gluon.C03
open Gluon.DB

/-! ### the part of the index `abs` looks at -/

structure Proj where
  mailboxes : List MboxRow
  /-- `mailbox_message_<id>` with its AUTOINCREMENT counter, if that table exists -/
  table? : MailboxId → Option MTable
  messages : List MsgRow
  msgFlags : List (MessageId × FlagVal)

def proj (db : DB) : Proj := ⟨db.mailboxes, db.table?, db.messages, db.msgFlags⟩

def Proj.setTable (P : Proj) (mb : MailboxId) (t : MTable) : Proj :=
  { P with table? := fun k => if k = mb then some t else P.table? k }


/-! ### abs -/

def absEntry (r : MMRow) : MailboxRef.Entry := { uid := r.uid, msg := r.msgId, deleted := r.deleted }

def absTable (t : MTable) : MailboxRef.Mailbox :=
  { entries := (sortByUid t.rows).map absEntry, uidNext := t.seq + 1 }

def absMailbox (P : Proj) (m : MboxRow) : String × MailboxRef.Mailbox :=
  (m.name, match P.table? m.id with
    | some t => absTable t
    | none => {})

def absMessage (P : Proj) (store : List (MessageId × Act.Bytes)) (r : MsgRow) : MailboxRef.MsgRef × MailboxRef.Message :=
  (r.id, { flags := MailboxRef.canon (flagsOf P.msgFlags r.id), bytes := (store.lookup r.id).getD "" })

def absP (P : Proj) (store : List (MessageId × Act.Bytes)) (nextId : Nat) : MailboxRef.State :=
  { mailboxes := P.mailboxes.map (absMailbox P), messages := P.messages.map (absMessage P store), nextRef := nextId }

/-- **The abstraction map**: what the index and the message store say about the content of the mailboxes —
    per mailbox (by name) the rows of its message table in UID order as `(uid, message, \Deleted)` and
    UIDNEXT = `sqlite_sequence + 1`; per message its flags as a case-insensitive set and its stored bytes.
    `\Recent`, remote ids, dates and the other columns are not content. -/
def abs (s : Act.State) : MailboxRef.State := absP (proj s.db) s.store s.nextId


end Gluon.C03
