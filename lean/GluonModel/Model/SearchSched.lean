/-
M-SEARCH, the parallel evaluation of `Mailbox.Search` (property C15: "serial and parallel evaluation agree").

  internal/state/mailbox_search.go   Mailbox.Search: `result := make([]uint32, msgCount)`,
                                     `parallel.DoContext(ctx, parallelism, msgCount, func(ctx, i) error {…})`
  github.com/bradenaw/juniper/parallel  DoContext: `parallelism == 1` (gluon.WithDisableParallelism, one CPU, one
                                     message): the plain loop `for i := 0; i < n; i++`, first error returned — that is
                                     `Search.searchLoop`.  Otherwise `parallelism` goroutines draw the indices
                                     `0, 1, …, n-1` from one shared atomic counter until it reaches `n`; every index
                                     is handed out exactly once; after an error no further index is handed out and
                                     the error is returned.

What the goroutines do is described by a *schedule*: the list `order` of the indices in the order in which their
calls take effect.  Call `i` reads message `i+1` of the snapshot and writes `result[i]` only (when the message
matches), so a call is a function `callSlot` from result array to result array, and a run is their composition in
schedule order (`runCalls`).  Nothing else is assumed of a schedule here; that it hands out every index of the view
is the hypothesis `Covers` of the theorems (`Theorems/C15.lean`: `parallel_agrees_with_serial`), and it is needed
(`schedule_must_cover_witness`: a schedule that stops short of the last indices loses the newest messages).
-/
import GluonModel.Model.Search

namespace Gluon
namespace Search

/-- the body of the function literal passed to `parallel.DoContext`, for index `i`, on the result array `arr`:
    `getWithSeqID(i+1)` fails → `return nil`; `applySearch` fails → the error; a match → `result[i] = mapFn(msg)` -/
def callSlot (apply : Nat → SMsg → Except SErr Bool) (mapFn : Nat → SMsg → Nat) (s : List SMsg)
    (i : Nat) (arr : List Nat) : Except SErr (List Nat) :=
  match s[i]? with
  | none => .ok arr
  | some m => do
    let ok ← apply (i + 1) m
    .ok (if ok then arr.set i (mapFn (i + 1) m) else arr)

/-- the calls of a schedule, in the order they take effect; the first error ends the run -/
def runCalls (apply : Nat → SMsg → Except SErr Bool) (mapFn : Nat → SMsg → Nat) (s : List SMsg) :
    List Nat → List Nat → Except SErr (List Nat)
  | [], arr => .ok arr
  | i :: rest, arr => do
    let arr' ← callSlot apply mapFn s i arr
    runCalls apply mapFn s rest arr'

/-- `result := make([]uint32, msgCount)` followed by the calls of the schedule -/
def searchSched (apply : Nat → SMsg → Except SErr Bool) (mapFn : Nat → SMsg → Nat) (s : List SMsg)
    (order : List Nat) : Except SErr (List Nat) :=
  runCalls apply mapFn s order (List.replicate s.length 0)

/-- `Mailbox.Search` with the evaluation spread over goroutines according to the schedule `order` -/
def searchPar (order : List Nat) (uidMode : Bool) (s : Snap) (data : MsgId → MsgData) (dec : Bytes → Option Bytes)
    (keys : List Key) : Except SErr (List Nat) := do
  let op ← buildList s dec keys
  let n := COp.needsList op
  let result ← searchSched (fun seq m => applySearch n op seq m (data m.id))
    (fun seq m => if uidMode then m.uid else seq) s order
  .ok (result.filter (· != 0))

/-- a schedule hands out exactly the indices of the view (any order, `parallel.DoContext`'s shared counter) -/
def Covers (order : List Nat) (n : Nat) : Prop := ∀ j, j ∈ order ↔ j < n

end Search
end Gluon
