/-
M-UIDSEQ — per-mailbox UID assignment by SQLite `INTEGER PRIMARY KEY AUTOINCREMENT`
(/repo/internal/db_impl/sqlite3/v1/mailbox.go CreateMailboxMessageTableQuery; UIDNEXT is read
from `sqlite_sequence` in read_ops.go `GetMailboxUID`: `seq + 1`, or 1 when no row was ever
inserted).

SQLite's AUTOINCREMENT rule: a new row gets `max(seq, largest rowid in the table) + 1` and `seq`
is set to it; deleting rows never touches `seq`; `sqlite_sequence` is an ordinary table, so a
transaction that is rolled back restores `seq` together with the rows.  UIDs handed out inside
a rolled-back transaction were never announced (updates are queued only after commit —
`stateDBWrite`), so the history of *announced* UIDs is the history of committed transactions.

Not modelled: the 2^63-1 rowid ceiling (SQLITE_FULL) — `limits.CheckUIDCount` refuses long
before (C17).
-/
namespace Gluon.UidSeq

structure Mbox where
  rows : List Nat     -- UIDs currently in the mailbox message table
  seq : Nat           -- sqlite_sequence.seq of that table (0 = no row yet)
deriving DecidableEq, Repr

def empty : Mbox := { rows := [], seq := 0 }

/-- `GetMailboxUID` -/
def uidNext (m : Mbox) : Nat := m.seq + 1

def maxRow (rows : List Nat) : Nat := rows.foldr max 0

inductive Op where
  | insert                -- one INSERT without explicit UID
  | delete (uid : Nat)    -- DELETE of the row with this UID (no-op when absent)
  | deleteMax             -- expunge of the highest UID present
deriving DecidableEq, Repr

/-- one statement; returns the new table and the UID it assigned (if any) -/
def applyOp (m : Mbox) : Op → Mbox × Option Nat
  | .insert =>
    let u := max m.seq (maxRow m.rows) + 1
    ({ rows := m.rows ++ [u], seq := u }, some u)
  | .delete uid => ({ m with rows := m.rows.filter (· != uid) }, none)
  | .deleteMax => ({ m with rows := m.rows.filter (· != maxRow m.rows) }, none)

/-- the statements of one transaction; assigned UIDs in order -/
def applyOps : (ops : List Op) → (m : Mbox) → Mbox × List Nat
  | [], m => (m, [])
  | op :: rest, m =>
    let (m1, a) := applyOp m op
    let (m2, as) := applyOps rest m1
    (m2, a.toList ++ as)

structure Tx where
  ops : List Op
  commit : Bool        -- false = the transaction fails / is rolled back
deriving DecidableEq, Repr

/-- a transaction: all of its statements, or nothing at all (rollback restores rows and `seq`) -/
def applyTx (m : Mbox) (t : Tx) : Mbox × List Nat :=
  if t.commit then applyOps t.ops m else (m, [])

/-- a history of transactions; the UIDs assigned by committed ones, in order -/
def runTxs : (h : List Tx) → (m : Mbox) → Mbox × List Nat
  | [], m => (m, [])
  | t :: rest, m =>
    let (m1, a) := applyTx m t
    let (m2, as) := runTxs rest m1
    (m2, a ++ as)

/-- representation invariant: no row above `seq` -/
def WF (m : Mbox) : Prop := ∀ u ∈ m.rows, u ≤ m.seq

/-- **Table rebuild by copy** — the idiom a schema migration uses to change a column of an existing
    table (SQLite cannot alter a column): `CREATE TABLE t_tmp (…)`, `INSERT INTO t_tmp (uid, …)
    SELECT uid, … FROM t`, `DROP TABLE t`, `ALTER TABLE t_tmp RENAME TO t`
    (internal/db_impl/sqlite3/v3/migration.go does this to the flag tables).  `DROP TABLE` deletes
    the table's `sqlite_sequence` row; an INSERT *with* explicit rowids into an AUTOINCREMENT table
    sets its `seq` to the largest rowid inserted; the rename carries that row over.  So the
    rebuilt table remembers the largest UID *copied*, not the largest UID ever assigned.

    Not an `Op`: no code of the current tree does this to a per-mailbox message table — the only
    migration that touches them (v1) issues new UIDVALIDITY values (facts `Facts.migrationList`,
    obligations `C04.migrations_reviewed`, `C04.migrations_keep_uid_tables`; on the real code: the
    upgrade fixtures of oracle `c04uids`). -/
def rebuildCopy (m : Mbox) : Mbox := { rows := m.rows, seq := maxRow m.rows }

/-- the same idiom followed by the repair `UPDATE sqlite_sequence SET seq = <old seq>` -/
def rebuildKeepSeq (m : Mbox) : Mbox := { rows := m.rows, seq := max m.seq (maxRow m.rows) }

end Gluon.UidSeq
