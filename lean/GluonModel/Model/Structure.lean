/-
Model of imap/structure.go (`Structure`, `structure`, `singlePartStructure`, `childStructures`,
`addDispInfo`, `countLines`) and imap/envelope.go (`Envelope`, `envelope`) as trees of writer
calls (`Call`, Model/ParamList.lean) over the section ranges of Model/MimeScan.lean.

Everything the Go code obtains from `Header.Get/GetChecked`, `ParseMIMEType`,
`rfc822.ParseMediaType` and `rfc5322.ParseAddressList` is an *abstract* function of the
section's header bytes (`HdrDetail`); nothing is assumed about it.
-/
import GluonModel.Model.ParamList

namespace Gluon.Mime

/-- abstract results for one block of header bytes -/
structure HInfo where
  mimeType : Bytes := []                 -- getMIMEInfo: Type() / SubType() (both "" on error)
  sub : Bytes := []
  params : List (Bytes × Bytes) := []    -- media type parameters in sorted key order
  cid : Bytes := []                      -- header.Get("Content-Id") …
  desc : Bytes := []
  enc : Bytes := []
  md5 : Bytes := []
  lang : Bytes := []
  loc : Bytes := []
  disp : Option (Bytes × List (Bytes × Bytes)) := none  -- ParseMediaType(Content-Disposition); none = error
  date : Bytes := []
  subject : Bytes := []
  inReplyTo : Bytes := []
  messageId : Bytes := []
  from_ : Option (List Addr) := none     -- GetChecked + tryParseAddressList; none = field absent
  sender : Option (List Addr) := none
  replyTo : Option (List Addr) := none
  to : Option (List Addr) := none
  cc : Option (List Addr) := none
  bcc : Option (List Addr) := none

abbrev HdrDetail := Bytes → HInfo

/-- an empty header has no fields: every `Get` is "", `ParseMIMEType("")` is text/plain,
    `ParseMediaType("")` fails -/
def emptyInfo : HInfo := { mimeType := [116, 101, 120, 116], sub := [112, 108, 97, 105, 110] }

def detOf (det : HdrDetail) (hdr : Bytes) : HInfo := if hdr.length = 0 then emptyInfo else det hdr

/-- `countLines` -/
def countLinesAux : Bytes → Bool → Nat
  | [], pending => if pending then 1 else 0
  | c :: cs, _ => if c == LF then countLinesAux cs false + 1 else countLinesAux cs true

def countLines (b : Bytes) : Nat := countLinesAux b false

def addrField (v : Option (List Addr)) : List Call :=
  match v with
  | none => [.str false []]
  | some l => addAddresses false l

def addrFieldOr (v alt : Option (List Addr)) : List Call :=
  match v with
  | some l => addAddresses false l
  | none => addrField alt

/-- `envelope(header, c, writer)`: one child list -/
def envelopeCall (i : HInfo) : Call :=
  .child false (
    [.str false i.date, .str false i.subject]
    ++ addrField i.from_
    ++ addrFieldOr i.sender i.from_
    ++ addrFieldOr i.replyTo i.from_
    ++ addrField i.to ++ addrField i.cc ++ addrField i.bcc
    ++ [.str false i.inReplyTo, .str false i.messageId])

/-- `addDispInfo(c, extWriter, header)` -/
def dispCalls (i : HInfo) : List Call :=
  match i.disp with
  | some (v, ps) => [.sp true, .child true ([.str true v] ++ addMap true ps)]
  | none => [.str true []]

def MESSAGE : Bytes := [109, 101, 115, 115, 97, 103, 101]
def RFC822 : Bytes := [114, 102, 99, 56, 50, 50]
def TEXT : Bytes := [116, 101, 120, 116]

/-- `cl := c.newChildList(writer); structure(child, &cl, writer); cl.finish(writer)` -/
def childCall (rec : Sec → Except String (List Call)) (c : Sec) : Except String Call :=
  match rec c with
  | .error e => .error e
  | .ok cc => .ok (Call.child false cc)

/-- the message/rfc822 block of `singlePartStructure`: `child := rfc822.Parse(section.Body())`,
    a space, the child's envelope, the child's structure as a child list -/
def embCalls (rec : Sec → Except String (List Call)) (env : HdrEnv) (det : HdrDetail) (lit : Bytes)
    (s : Sec) (isMsg : Bool) : Except String (List Call) :=
  if isMsg then
    match parseSec env lit s.body s.end_ with
    | .error e => .error e
    | .ok child =>
      match goSlice lit child.header child.body with        -- child.ParseHeader()
      | .error e => .error e
      | .ok chdr =>
        match childCall rec child with
        | .error e => .error e
        | .ok cc => .ok [.sp false, envelopeCall (detOf det chdr), cc]
  else .ok []

/-- `mimeType == "message" && mimeSubType == "rfc822"` -/
def isMsgOf (i : HInfo) : Bool := i.mimeType == MESSAGE && i.sub == RFC822

/-- the extension data both branches end with: `addDispInfo`, Content-Language, Content-Location -/
def extCalls (i : HInfo) : List Call := dispCalls i ++ [.str true i.lang, .str true i.loc]

/-- the line count field of `singlePartStructure` (text/* and message/rfc822 only) -/
def linesCalls (i : HInfo) (body : Bytes) : List Call :=
  if i.mimeType == TEXT || isMsgOf i then [.num false (countLines body)] else []

/-- the calls of `singlePartStructure` for a part with details `i`, body bytes `body` and the
    message/rfc822 block `emb` -/
def singleCalls (i : HInfo) (body : Bytes) (emb : List Call) : List Call :=
  [.str false i.mimeType, .str false i.sub] ++ addMap false i.params
    ++ [.str false i.cid, .str false i.desc, .str false i.enc, .num false body.length]
    ++ emb ++ linesCalls i body ++ [.str true i.md5] ++ extCalls i

/-- the calls of `structure` after `childStructures` for a multipart -/
def multiTail (i : HInfo) : List Call := [.str false i.sub] ++ addMap true i.params ++ extCalls i

/-- `structure(section, fields, writer)`: the calls made on `fields`.
    The branch is taken on `len(children) == 0` alone: a message/rfc822 section whose embedded
    message is a multipart has (hoisted) children and goes through the multipart branch. -/
def structCalls (env : HdrEnv) (det : HdrDetail) (lit : Bytes) : Nat → Sec → Except String (List Call)
  | 0, _ => .error "fuel"
  | fuel + 1, s =>
    match children env lit (lit.length + 1) s with
    | .error e => .error e
    | .ok cs =>
      match goSlice lit s.header s.body with
      | .error e => .error e
      | .ok hdr =>
        let i := detOf det hdr
        if cs.length = 0 then
          -- singlePartStructure
          match goSlice lit s.body s.end_ with
          | .error e => .error e
          | .ok body =>
            match embCalls (structCalls env det lit fuel) env det lit s (isMsgOf i) with
            | .error e => .error e
            | .ok emb => .ok (singleCalls i body emb)
        else
          -- childStructures, then the multipart tail
          match mapE (childCall (structCalls env det lit fuel)) cs with
          | .error e => .error e
          | .ok kids => .ok (kids ++ multiTail i)

/-- `imap.Structure(rfc822.Parse(lit))`: (BODY, BODYSTRUCTURE) -/
def structureTexts (env : HdrEnv) (det : HdrDetail) (q : Bytes → Bytes) (lit : Bytes) :
    Except String (Bytes × Bytes) :=
  match parseSec env lit 0 lit.length with
  | .error e => .error e
  | .ok root =>
    match structCalls env det lit (lit.length + 1) root with
    | .error e => .error e
    | .ok cs =>
      .ok (Call.writeList q true true [.child false cs], Call.writeList q false true [.child false cs])

/-- `imap.Envelope(header)` for the root section's header -/
def envelopeText (env : HdrEnv) (det : HdrDetail) (q : Bytes → Bytes) (lit : Bytes) : Except String Bytes :=
  match parseSec env lit 0 lit.length with
  | .error e => .error e
  | .ok root =>
    match goSlice lit root.header root.body with
    | .error e => .error e
    | .ok hdr => .ok (Call.writeList q false true [envelopeCall (detOf det hdr)])

end Gluon.Mime
