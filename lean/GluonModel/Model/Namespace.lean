/-
M-NS: names-level model of the namespace commands, from the wire command down to the `mailboxes`
table: `Session.handleCreate/handleDelete/handleRename` (internal/session), `command.ParseMailbox`,
`Session.decodeMailboxName`, `State.Create/Delete/Rename` (internal/state/state.go), with the
table reduced to its `name` column (UNIQUE).  Core Lean only.

What is abstracted away: one session, a connector that accepts every request (the dummy connector
without prefixes), no mailbox-count limit, modified UTF-7 decoding is the identity (ASCII names
without `&`), messages, UIDVALIDITY, subscriptions.  `strings.EqualFold`/`ToLower` against
"INBOX"/"Recovered Messages" are ASCII case folding (the only non-ASCII fold partner of these
letters is U+017F for `s`; names containing it are outside the model).

NOT tied to the code by a correspondence dialect of this check: there is no hook that runs
State.Create/Delete/Rename without a database.  The dialect `namespace` (Driver/DNamespace.lean) is
the model side for the wire-level oracle (whole server over TCP) that the lead builds.
-/
import GluonModel.Model.Match

namespace Gluon.NS
open Gluon.Match

inductive Err where
  | createInbox         -- session: ErrCreateInbox
  | deleteInbox         -- session: ErrDeleteInbox
  | notAllowed          -- ErrOperationNotAllowed (recovery mailbox)
  | beginsWithSep       -- ErrMailboxNameBeginsWithSeparator
  | adjacentSep         -- ErrMailboxNameAdjacentSeparator
  | existing            -- ErrExistingMailbox
  | noSuch              -- ErrNoSuchMailbox
  | dbUnique            -- UNIQUE constraint on mailboxes.name while renaming an inferior (tx rolled back)
deriving DecidableEq, Repr

def recoveryName : Name := "Recovered Messages".toList
def recoveryLower : Name := "recovered messages".toList

/-- `strings.EqualFold(name, ids.GluonRecoveryMailboxName)` -/
def isRecovery (n : Name) : Bool := n.map Char.toLower == recoveryLower

/-- `strings.HasPrefix(strings.ToLower(name), ids.GluonRecoveryMailboxNameLowerCase)` -/
def hasRecoveryPrefix (n : Name) : Bool := recoveryLower.isPrefixOf (n.map Char.toLower)

/-- `command.ParseMailbox` (whole name INBOX in any case → `INBOX`) followed by
    `Session.decodeMailboxName` (first segment `inbox<del>` in any case → `INBOX<del>`): the first
    hierarchy segment is upper-cased iff it spells INBOX. -/
def decodeName (d : Char) (raw : Name) : Name :=
  let seg := raw.takeWhile (· != d)
  (if isInbox seg then inboxName else seg) ++ raw.dropWhile (· != d)

/-- `strings.TrimRight(name, delimiter)` -/
def trimRight (d : Char) (n : Name) : Name := (n.reverse.dropWhile (· == d)).reverse

/-- `strings.Contains(name, delimiter+delimiter)` -/
def hasAdjacent (d : Char) : Name → Bool
  | a :: b :: rest => (a == d && b == d) || hasAdjacent d (b :: rest)
  | _ => false

/-- `if strings.HasSuffix(name, delimiter) { name = strings.TrimRight(name, delimiter) }` -/
def normName (d : Char) (name : Name) : Name := if name.getLast? == some d then trimRight d name else name

/-- the `mailboxes.name` column (UNIQUE), oldest first -/
abbrev Names := List Name

/-- handleCreate + State.Create -/
def create (d : Char) (S : Names) (raw : Name) : Except Err Names :=
  let name := decodeName d raw
  if isInbox name then .error .createInbox
  else if hasRecoveryPrefix name then .error .notAllowed
  else if name.head? == some d then .error .beginsWithSep
  else if hasAdjacent d name then .error .adjacentSep
  else
    let name := normName d name
    if S.contains name then .error .existing
    else
      let toCreate := (listSuperiors d name).filter (fun s => !S.contains s) ++ [name]
      .ok (S ++ toCreate)

/-- handleDelete + State.Delete -/
def delete (d : Char) (S : Names) (raw : Name) : Except Err Names :=
  let name := decodeName d raw
  if isInbox name then .error .deleteInbox
  else if isRecovery name then .error .notAllowed
  else if !S.contains name then .error .noSuch
  else .ok (S.erase name)

/-- `UPDATE mailboxes SET name = new WHERE remote_id = <the row named old>` under the UNIQUE index -/
def renameRow (S : Names) (old new : Name) : Except Err Names :=
  if S.contains new then .error .dbUnique else .ok (S.map fun z => if z = old then new else z)

/-- the loop over `listInferiors(oldName, …)` in State.Rename -/
def renameInferiors (S : Names) (oldName newName : Name) : List Name → Except Err Names
  | [] => .ok S
  | inf :: rest =>
    match renameRow S inf (newName ++ inf.drop oldName.length) with   -- newName + TrimPrefix(inferior, oldName)
    | .error e => .error e
    | .ok S' => renameInferiors S' oldName newName rest

/-- handleRename + State.Rename -/
def rename (d : Char) (S : Names) (rawOld rawNew : Name) : Except Err Names :=
  let oldName := decodeName d rawOld
  let newName := decodeName d rawNew
  if isRecovery oldName || isRecovery newName then .error .notAllowed
  else if !S.contains oldName then .error .noSuch
  else if S.contains newName then .error .existing
  else if (listSuperiors d newName).any (fun s => S.contains s && s == oldName) then .error .existing
  else
    let toCreate := (listSuperiors d newName).filter (fun s => !S.contains s)
    let S1 := S ++ toCreate
    if oldName == inboxName then .ok (S1 ++ [newName])      -- renameInbox: new mailbox, INBOX stays
    else
      match renameRow S1 oldName newName with
      | .error e => .error e
      | .ok S2 => renameInferiors S2 oldName newName (listInferiors d oldName S2)

inductive Cmd where
  | create (raw : Name)
  | delete (raw : Name)
  | rename (rawOld rawNew : Name)
deriving DecidableEq, Repr

def step (d : Char) (S : Names) : Cmd → Except Err Names
  | .create n => create d S n
  | .delete n => delete d S n
  | .rename o n => rename d S o n

/-- a failed command leaves the table unchanged (the transaction is rolled back) -/
def apply (d : Char) (S : Names) (c : Cmd) : Names :=
  match step d S c with
  | .ok S' => S'
  | .error _ => S

def run (d : Char) (S : Names) (cs : List Cmd) : Names := cs.foldl (apply d) S

/-- a fresh account: INBOX and the (hidden while empty) recovery mailbox -/
def initial : Names := [inboxName, recoveryName]

/-- what LIST looks at: the recovery mailbox is filtered out while it is empty -/
def visible (S : Names) : Names := S.filter (· != recoveryName)

end Gluon.NS
