/-
Model of gluon's byte-level message handling (property C13, reusable for C12):

  rfc822/parser.go         Split, parse, Section.{Header,Body,Literal,Children,Part,load}
  rfc822/header_parser.go  headerParser.next (entry ranges, folding, empty-valued field; as of fix 1ac3d52)
  rfc822/header.go         NewHeader, Header.Fields / FieldsNot, SetHeaderValue(NoMemCopy), joinLine
  rfc822/scanner.go        NewByteScanner, readToBoundary, ScanAll
  internal/response/item_body_literal.go   ItemBodyLiteral, WithPartial, String
  internal/response/item_rfc822_*.go       String (literal framing)
  internal/state/mailbox_fetch.go          fetchBodyLiteral / fetchBodySection / renderSection /
                                           fetchAttributeBodySection / fetchRFC822{,Header,Text}

Bytes are `List UInt8`.  Go's index loops over `hp.header[hp.offset]` are rendered as recursion over the
suffix `header[offset:]` together with the numeric offset (the pair is kept in step), so that the
functions are structurally recursive and linear; every branch of the Go code has its own branch here.
A Go panic (slice bounds, index) is an explicit `panic` outcome.

Standard-library pieces that are NOT modelled and appear as parameters or side conditions:
  * `mime.ParseMediaType` (+ `mergeMultiline`, the non-ASCII strip of `ParseMIMEType`): the oracle
    `ct : Bytes → CT` from the raw bytes of the first `Content-Type` value to the classification
    `load` / `handleEmbeddedParts` branch on.  All theorems hold for every oracle.
  * `unicode.ToUpper` beyond the runes listed at `caseRune`: `strings.ToUpper` on the rendered section name
    (`renderSection`; it contains the *requested* field names, arbitrary client strings) is modelled rune by
    rune (UTF-8 decoding as `utf8.DecodeRune`, ill-formed bytes become U+FFFD as in `strings.Map`) with the case
    pairs of ASCII plus the non-ASCII runes whose image is ASCII (U+0131 -> I, U+017F -> S); every other
    non-ASCII rune is treated as caseless (the tie only generates caseless ones).
    Field NAMES are compared in the normal form `foldKey` (fix 047f712): ASCII letters lower-cased, every other
    byte unchanged — no standard-library case mapping is involved any more.
Standard-library pieces that ARE modelled: `textproto.CanonicalMIMEHeaderKey` (`canonKey`),
`bytes.TrimSpace(x) == ""` (`isSpaceOnly`, Unicode White_Space on UTF-8), `bytes.Trim(line, "\r\n") == ""`,
`bytes.Index` (`indexOf`), `fmt` `%v` of an int (`dec`).
-/
namespace Gluon.Rfc822

abbrev Bytes := List UInt8

/-- Go `l[a:b]` for `a ≤ b ≤ len l` (total version; the callers that can be out of range check first). -/
def slice (l : Bytes) (a b : Nat) : Bytes := (l.drop a).take (b - a)


def isWSP (b : UInt8) : Bool := b == 32 || b == 9

def lowerByte (c : UInt8) : UInt8 := if 65 ≤ c && c ≤ 90 then c + 32 else c
def upperByte (c : UInt8) : UInt8 := if 97 ≤ c && c ≤ 122 then c - 32 else c
def lowerBytes (b : Bytes) : Bytes := b.map lowerByte
def upperBytes (b : Bytes) : Bytes := b.map upperByte

/-- `rfc822.foldKey` (header.go, fix 047f712): the normal form header field names are compared in — `A`..`Z`
    become `a`..`z`, every other byte (punctuation, digits, bytes ≥ 128, ill-formed UTF-8) is left alone -/
def foldKey (b : Bytes) : Bytes := lowerBytes b

/-! ## strings.ToUpper on client strings (the rendered section name) -/

def isCont (c : UInt8) : Bool := 0x80 ≤ c && c ≤ 0xBF

/-- `utf8.DecodeRune` at the front of a non-empty byte string: `some (rune, width)` for a well-formed
    sequence (the `first` / `acceptRanges` tables of unicode/utf8: no overlong forms, no surrogates, at most
    U+10FFFF), `none` for `(RuneError, 1)` -/
def decodeRune : Bytes → Option (Nat × Nat)
  | [] => none
  | a :: tl =>
    if a < 0x80 then some (a.toNat, 1)
    else if 0xC2 ≤ a && a ≤ 0xDF then
      match tl with
      | b :: _ => if isCont b then some ((a.toNat - 0xC0) * 64 + (b.toNat - 0x80), 2) else none
      | _ => none
    else if 0xE0 ≤ a && a ≤ 0xEF then
      match tl with
      | b :: c :: _ =>
        let lo : UInt8 := if a == 0xE0 then 0xA0 else 0x80
        let hi : UInt8 := if a == 0xED then 0x9F else 0xBF
        if lo ≤ b && b ≤ hi && isCont c then
          some ((a.toNat - 0xE0) * 4096 + (b.toNat - 0x80) * 64 + (c.toNat - 0x80), 3)
        else none
      | _ => none
    else if 0xF0 ≤ a && a ≤ 0xF4 then
      match tl with
      | b :: c :: d :: _ =>
        let lo : UInt8 := if a == 0xF0 then 0x90 else 0x80
        let hi : UInt8 := if a == 0xF4 then 0x8F else 0xBF
        if lo ≤ b && b ≤ hi && isCont c && isCont d then
          some ((a.toNat - 0xF0) * 262144 + (b.toNat - 0x80) * 4096 + (c.toNat - 0x80) * 64 + (d.toNat - 0x80), 4)
        else none
      | _ => none
    else none

/-- `utf8.AppendRune` for a rune that `decodeRune` can yield (or U+FFFD) -/
def encodeRune (r : Nat) : Bytes :=
  if r < 0x80 then [UInt8.ofNat r]
  else if r < 0x800 then [UInt8.ofNat (0xC0 + r / 64), UInt8.ofNat (0x80 + r % 64)]
  else if r < 0x10000 then [UInt8.ofNat (0xE0 + r / 4096), UInt8.ofNat (0x80 + r / 64 % 64), UInt8.ofNat (0x80 + r % 64)]
  else [UInt8.ofNat (0xF0 + r / 262144), UInt8.ofNat (0x80 + r / 4096 % 64), UInt8.ofNat (0x80 + r / 64 % 64),
        UInt8.ofNat (0x80 + r % 64)]

/-- `unicode.ToLower` (`up = false`) / `unicode.ToUpper` (`up = true`), exact on ASCII, on the four non-ASCII
    runes whose image is ASCII and on caseless runes; every other rune is mapped to itself -/
def caseRune (up : Bool) (r : Nat) : Nat :=
  if up then
    if 97 ≤ r && r ≤ 122 then r - 32 else if r == 0x131 then 73 else if r == 0x17F then 83 else r
  else
    if 65 ≤ r && r ≤ 90 then r + 32 else if r == 0x130 then 105 else if r == 0x212A then 107 else r

/-- `strings.Map(unicode.ToLower / ToUpper, s)`: rune by rune; an ill-formed byte becomes U+FFFD (EF BF BD).
    (The ASCII fast path of `strings.ToLower` gives the same bytes.) -/
def goCaseLoop (up : Bool) : Nat → Bytes → Bytes
  | 0, _ => []
  | _, [] => []
  | fuel + 1, a :: tl =>
    match decodeRune (a :: tl) with
    | none => [0xEF, 0xBF, 0xBD] ++ goCaseLoop up fuel tl
    | some (r, w) => encodeRune (caseRune up r) ++ goCaseLoop up fuel (tl.drop (w - 1))

/-- `strings.ToUpper(s)` -/
def goUpper (b : Bytes) : Bytes := goCaseLoop true b.length b

/-! ## Split (parser.go) -/

/-- `splitIndex` of `Split`: the scan goes line by line (`bytes.Index(remaining, "\n")`); a line whose
    content before the `\n` is empty after `bytes.Trim(.., "\r\n")` — i.e. consists of `\r` only — ends the
    header (inclusive); a last line without `\n` belongs to the header.  `allCR` = "every byte of the
    current line so far is `\r`". -/
def splitLen : Bytes → Bool → Nat
  | [], _ => 0
  | c :: tl, allCR =>
    if c == 10 then (if allCR then 1 else 1 + splitLen tl true)
    else 1 + splitLen tl (allCR && c == 13)

def splitIndex (b : Bytes) : Nat := splitLen b true

/-- `Split(b) = (b[0:splitIndex], b[splitIndex:])` -/
def split (b : Bytes) : Bytes × Bytes := (b.take (splitIndex b), b.drop (splitIndex b))

/-! ## headerParser.next (header_parser.go) -/

inductive HErr where
  | nonAscii        -- ErrNonASCIIHeaderKey
  | keyNotFound     -- ErrKeyNotFound
  | parse           -- wraps ErrParseHeader (`expected \n after \r`, `unexpected char ':'`)
  | unexpectedEOF   -- io.ErrUnexpectedEOF
  | other           -- the bare fmt.Errorf("expected \\n after \\n")
  | fuel            -- model artefact: loop fuel exhausted (never happens, fuel = len + 2)
  deriving DecidableEq, Repr, Inhabited

deriving instance DecidableEq for Except

/-- `parsedHeaderEntry` (the Go `-1` initial values never escape) -/
structure Entry where
  keyStart : Nat
  keyEnd : Nat
  valueStart : Nat
  valueEnd : Nat
  deriving DecidableEq, Repr, Inhabited

def Entry.hasKey (e : Entry) : Bool := e.keyStart != e.keyEnd
def Entry.key (h : Bytes) (e : Entry) : Bytes := slice h e.keyStart e.keyEnd
def Entry.value (h : Bytes) (e : Entry) : Bytes := slice h e.valueStart e.valueEnd
/-- `getAll`: `header[keyStart:valueEnd]` -/
def Entry.all (h : Bytes) (e : Entry) : Bytes := slice h e.keyStart e.valueEnd

/-- the entry produced by the "empty header field" branch (`Key:` CRLF followed by a line that is not a
    continuation): since fix 1ac3d52 it covers key, colon and line break and its value is empty
    (`valueStart = valueEnd = hp.offset`, the start of the next line). -/
def Entry.emptyValue (e : Entry) : Bool := e.hasKey && e.valueStart == e.valueEnd

/-- outcome of the key-detection block of `next` -/
inductive KeyScan where
  | err (e : HErr)
  | done (e : Entry) (rest : Bytes) (off : Nat)        -- `return result, nil` inside the block
  | value (keyEnd : Nat) (rest : Bytes) (off : Nat)    -- `break`: go on to collect the value
  deriving Repr

def validKeyByte (c : UInt8) : Bool := 33 ≤ c && c ≤ 126

/-- The `for hp.offset < headerLen` loop of the key-detection block.  `rest = header[off:]`,
    `ks = result.keyStart`, `valid` = `validateHeaderField` restricted to the bytes scanned so far
    (the key is exactly the bytes scanned before the colon). -/
def scanKey (ks : Nat) : Bytes → Nat → Bool → KeyScan
  | [], _, _ => .err .keyNotFound                          -- loop ends with keyEnd == -1
  | c :: tl, off, valid =>
    if c == 58 then                                        -- ':'  (prevOffset = off; hp.offset = off+1)
      match tl with
      | [] => .err .keyNotFound                            -- hp.offset == headerLen: loop ends, keyEnd == -1
      | d :: tl2 =>                                        -- result.keyEnd = off; d = header[off+1]
        if isWSP d then
          if valid then .value off tl (off + 1) else .err .nonAscii
        else if d == 13 then                               -- '\r': hp.offset = off+2
          match tl2 with
          | [] =>                                          -- off+2 == headerLen: no check; fallthrough, hp.offset = off+3
            if valid then .value off [] (off + 3) else .err .nonAscii
          | e :: tl3 =>
            if e != 10 then .err .parse                    -- expected \n after \r
            else if !valid then .err .nonAscii             -- fallthrough: hp.offset = off+3; validate
            else match tl3 with
              | [] => .value off [] (off + 3)
              | f :: _ =>
                if !isWSP f then .done ⟨ks, off, off + 3, off + 3⟩ tl3 (off + 3)   -- empty header field
                else .value off tl3 (off + 3)
        else if d == 10 then                               -- '\n': hp.offset = off+2
          if !valid then .err .nonAscii
          else match tl2 with
            | [] => .value off [] (off + 2)
            | f :: _ =>
              if !isWSP f then .done ⟨ks, off, off + 2, off + 2⟩ tl2 (off + 2)     -- empty header field
              else .value off tl2 (off + 2)
        else if d == 58 then .err .parse                   -- unexpected char ':'
        else
          if valid then .value off tl (off + 1) else .err .nonAscii
    else if c == 10 then                                   -- line without key
      .done ⟨ks, ks, ks, off + 1⟩ tl (off + 1)
    else scanKey ks tl (off + 1) (valid && validKeyByte c)

/-- `for searchOffset < headerLen && isWSP(header[searchOffset])` -/
def skipWSP : Bytes → Nat → Bytes × Nat
  | [], off => ([], off)
  | c :: tl, off => if isWSP c then skipWSP tl (off + 1) else (c :: tl, off)

/-- state of the value loop: plain, just read `\r`, just completed a line break -/
inductive VState where
  | normal | afterCR | afterNL
  deriving DecidableEq, Repr

inductive FindEnd where
  | err (e : HErr)
  | found (rest : Bytes) (off : Nat)   -- `result.valueEnd = searchOffset; break`
  | eof (off : Nat)                    -- loop condition failed, valueEnd still -1
  deriving Repr

/-- The value loop `for searchOffset < headerLen { b := header[searchOffset] … }` as an automaton that
    consumes one byte per step: after a line break (`\n` or `\r\n`) the next byte decides between fold
    (`continue`; the WSP byte is then consumed by the final `else` of the loop) and end of value. -/
def findEnd : VState → Bytes → Nat → FindEnd
  | .normal, [], off => .eof off
  | .afterCR, [], _ => .err .unexpectedEOF
  | .afterNL, [], off => .found [] off
  | .normal, b :: tl, off =>
    if b == 13 then findEnd .afterCR tl (off + 1)
    else if b == 10 then findEnd .afterNL tl (off + 1)
    else findEnd .normal tl (off + 1)
  | .afterCR, b :: tl, off =>
    if b != 10 then .err .other else findEnd .afterNL tl (off + 1)
  | .afterNL, b :: tl, off =>
    if isWSP b then findEnd .normal tl (off + 1) else .found (b :: tl) off

inductive Next where
  | eof
  | err (e : HErr)
  | entry (e : Entry) (rest : Bytes) (off : Nat)
  deriving Repr

/-- `headerParser.next`; `n = len(hp.header)`, `rest = hp.header[hp.offset:]` (empty when
    `hp.offset ≥ n`; the offset can be `n+1` after `Key:\r` at the very end). -/
def next (n : Nat) (rest : Bytes) (off : Nat) : Next :=
  match rest with
  | [] => .eof                                             -- hp.offset >= headerLen
  | _ :: _ =>
    match scanKey off rest off true with
    | .err e => .err e
    | .done e rest' off' => .entry e rest' off'
    | .value keyEnd rest1 off1 =>
      let (rest2, off2) := skipWSP rest1 off1
      let vs := if off2 < n then off2 else n
      match findEnd .normal rest2 off2 with
      | .err e => .err e
      | .found r o => .entry ⟨off, keyEnd, vs, o⟩ r o
      | .eof o => .entry ⟨off, keyEnd, vs, n⟩ [] o          -- valueEnd == -1 && searchOffset >= headerLen

/-- the `for { entry, err := parser.next() … }` loop of `NewHeader` (entries in order) -/
def entriesLoop (n : Nat) : Nat → Bytes → Nat → Except HErr (List Entry)
  | 0, _, _ => .error .fuel
  | fuel + 1, rest, off =>
    match next n rest off with
    | .eof => .ok []
    | .err e => .error e
    | .entry e rest' off' =>
      match entriesLoop n fuel rest' off' with
      | .ok es => .ok (e :: es)
      | .error e => .error e

/-- `NewHeader(data)`: the linked list of entries (the `keys` map is derived from it) -/
def parseEntries (h : Bytes) : Except HErr (List Entry) := entriesLoop h.length (h.length + 2) h 0

/-! ## Header.Fields / FieldsNot (header.go) -/

/-- does the byte string consist of Unicode white space only, i.e. `len(bytes.TrimSpace(b)) == 0`
    (ASCII \t \n \v \f \r space; U+0085, U+00A0, U+1680, U+2000–U+200A, U+2028, U+2029, U+202F, U+205F,
    U+3000 in UTF-8; any other byte, including invalid UTF-8, is not space) -/
def isSpaceOnly : Bytes → Bool
  | [] => true
  | c :: tl =>
    if c == 9 || c == 10 || c == 11 || c == 12 || c == 13 || c == 32 then isSpaceOnly tl
    else if c == 0xC2 then
      match tl with
      | d :: tl2 => if d == 0x85 || d == 0xA0 then isSpaceOnly tl2 else false
      | [] => false
    else if c == 0xE1 then
      match tl with
      | d :: e :: tl3 => if d == 0x9A && e == 0x80 then isSpaceOnly tl3 else false
      | _ => false
    else if c == 0xE2 then
      match tl with
      | d :: e :: tl3 =>
        if d == 0x80 && ((0x80 ≤ e && e ≤ 0x8A) || e == 0xA8 || e == 0xA9 || e == 0xAF) then isSpaceOnly tl3
        else if d == 0x81 && e == 0x9F then isSpaceOnly tl3
        else false
      | _ => false
    else if c == 0xE3 then
      match tl with
      | d :: e :: tl3 => if d == 0x80 && e == 0x80 then isSpaceOnly tl3 else false
      | _ => false
    else false

/-- `mapKey`: `foldKey(string(key))` -/
def Entry.mapKey (h : Bytes) (e : Entry) : Bytes := foldKey (e.key h)

/-- the per-entry decision of `Fields` (`negate = false`) and `FieldsNot` (`negate = true`);
    `want` is the requested list after `foldKey` -/
def selects (negate : Bool) (want : List Bytes) (h : Bytes) (e : Entry) : Bool :=
  if isSpaceOnly (e.all h) then true
  else if !e.hasKey then false
  else if negate then !(want.contains (e.mapKey h)) else want.contains (e.mapKey h)

def fieldsOf (negate : Bool) (want : List Bytes) (h : Bytes) (es : List Entry) : Bytes :=
  (es.filter (selects negate want h)).flatMap (Entry.all h)

/-- `Header.Fields(fields)` -/
def fields (h : Bytes) (es : List Entry) (want : List Bytes) : Bytes := fieldsOf false want h es
/-- `Header.FieldsNot(fields)` -/
def fieldsNot (h : Bytes) (es : List Entry) (want : List Bytes) : Bytes := fieldsOf true want h es

/-- keys in entry order (what `Header.Entries` enumerates) -/
def keysOf (h : Bytes) (es : List Entry) : List Bytes := (es.filter Entry.hasKey).map (Entry.key h)

/-- `GetRaw(key)`: value bytes of the first entry whose lower-cased key is `key` -/
def getRaw (h : Bytes) (es : List Entry) (key : Bytes) : Option Bytes :=
  ((es.filter Entry.hasKey).find? (fun e => e.mapKey h == key)).map (Entry.value h)

/-! ## SetHeaderValue (header.go) -/

def validFieldByte (c : UInt8) : Bool :=
  (48 ≤ c && c ≤ 57) || (97 ≤ c && c ≤ 122) || (65 ≤ c && c ≤ 90) ||
  c == 33 || c == 35 || c == 36 || c == 37 || c == 38 || c == 39 || c == 42 || c == 43 || c == 45 ||
  c == 46 || c == 94 || c == 95 || c == 96 || c == 124 || c == 126

def canonGo : Bool → Bytes → Bytes
  | _, [] => []
  | upper, c :: tl =>
    let c' := if upper && (97 ≤ c && c ≤ 122) then c - 32
              else if !upper && (65 ≤ c && c ≤ 90) then c + 32 else c
    c' :: canonGo (c' == 45) tl

/-- `textproto.CanonicalMIMEHeaderKey`: unchanged if any byte is not a token byte -/
def canonKey (k : Bytes) : Bytes := if k.all validFieldByte then canonGo true k else k

/-- `joinLine(key, val)` = key ++ ": " ++ val ++ "\r\n" -/
def joinLine (k v : Bytes) : Bytes := k ++ [58, 32] ++ v ++ [13, 10]

/-- the "find first header entry" loop of `SetHeaderValueNoMemCopy` -/
def firstKeyedLoop (n : Nat) : Nat → Bytes → Nat → Except HErr (Option Entry)
  | 0, _, _ => .error .fuel
  | fuel + 1, rest, off =>
    match next n rest off with
    | .eof => .ok none
    | .err e => .error e
    | .entry e rest' off' => if e.hasKey then .ok (some e) else firstKeyedLoop n fuel rest' off'

def firstKeyed (h : Bytes) : Except HErr (Option Entry) := firstKeyedLoop h.length (h.length + 2) h 0

/-- where the new line goes: start of the first entry with a key, else the end of the raw header -/
def insertPoint (lit : Bytes) : Except HErr Nat :=
  match firstKeyed (split lit).1 with
  | .error e => .error e
  | .ok none => .ok (split lit).1.length
  | .ok (some e) => .ok e.keyStart

/-- `SetHeaderValueNoMemCopy`: the concatenation the MultiReader yields, and the announced size -/
def setHeaderValue (lit k v : Bytes) : Except HErr (Bytes × Nat) :=
  let rawHeader := (split lit).1
  let body := (split lit).2
  let data := joinLine (canonKey k) v
  match firstKeyed rawHeader with
  | .error e => .error e
  | .ok none => .ok (rawHeader ++ data ++ body, rawHeader.length + data.length + body.length)
  | .ok (some e) =>
    let part1 := lit.take e.keyStart
    let part2 := lit.drop e.keyStart
    .ok (part1 ++ data ++ part2, part1.length + part2.length + data.length)

/-! ## ByteScanner (scanner.go) -/

def isPrefix : Bytes → Bytes → Bool
  | [], _ => true
  | _ :: _, [] => false
  | p :: ps, x :: xs => p == x && isPrefix ps xs

/-- `bytes.Index(l, pat)` searched from position `i` of the original (`none` = -1) -/
def indexOfFrom (pat : Bytes) : Bytes → Nat → Option Nat
  | [], i => if pat.isEmpty then some i else none
  | x :: xs, i => if isPrefix pat (x :: xs) then some i else indexOfFrom pat xs (i + 1)

def indexOf (pat l : Bytes) : Option Nat := indexOfFrom pat l 0

/-- `indexOfNewLineAfterBoundary` (`none` = -1) -/
def skipCRs : Bytes → Nat → Option Nat
  | [], _ => none
  | c :: tl, i => if c == 13 then skipCRs tl (i + 1) else if c == 10 then some i else none

def indexOfNewLineAfterBoundary (data : Bytes) : Option Nat := skipCRs data 0

def byteAt (l : Bytes) (i : Nat) : UInt8 := l.getD i 0

/-- `getPreviousLineBreakIndex(offset)` with the scanner's current `progress` (`none` = -1) -/
def prevLineBreak (data : Bytes) (progress offset : Nat) : Option Nat :=
  if progress == offset then some 0
  else if byteAt data (offset - 1) == 10 then
    if offset - progress ≥ 2 && byteAt data (offset - 2) == 13 then some 2 else some 1
  else none

inductive ScanErr where
  | panic | fuel
  deriving DecidableEq, Repr

/-- result of one `readToBoundary`: `part` = `(searchStart, len(data))` or nil, `more`, new progress.
    `ScanAll` records `Part{Data: data, Offset: offset}` with `offset` = the progress *before* the call
    (= `searchStart`) and `load` uses `Offset .. Offset+len(Data)` as the child's range.  In the
    `index < 0` branch the returned `data` is `s.data[s.progress:]` with the *current* progress (which is
    larger than `searchStart` after a rejected boundary candidate), so range and data differ there:
    only the length of `data` reaches the child range. -/
structure ReadRes where
  part : Option (Nat × Nat)
  more : Bool
  progress : Nat
  deriving Repr

/-- Go `s.data[a:b]` as a range; out-of-range = panic -/
def checkedRange (len a b : Nat) : Except ScanErr (Nat × Nat) :=
  if a ≤ b && b ≤ len then .ok (a, b - a) else .error .panic

/-- `readToBoundary`; `sb = startBoundary = "--" ++ boundary` -/
def readToBoundary (data sb : Bytes) (searchStart : Nat) : Nat → Nat → Except ScanErr ReadRes
  | 0, _ => .error .fuel
  | fuel + 1, progress =>
    let dataLen := data.length
    let bl := sb.length
    if !(progress < dataLen) then .ok ⟨none, false, progress⟩           -- `return nil, false`
    else
      let remaining := data.drop progress
      match indexOf sb remaining with
      | none =>                                                          -- s.progress = len(s.data); return remaining, false
        .ok ⟨some (searchStart, dataLen - progress), false, dataLen⟩
      | some index =>
        match prevLineBreak data progress (progress + index) with
        | none => readToBoundary data sb searchStart fuel (progress + index + bl)
        | some prev =>
          if progress + index + bl + 2 ≤ dataLen &&
              slice remaining (index + bl) (index + bl + 2) == [45, 45] then
            let afterBoundary := remaining.drop (index + bl + 2)
            let nl : Option Nat := if afterBoundary.length != 0 then indexOfNewLineAfterBoundary afterBoundary else some 0
            match nl with
            | none => readToBoundary data sb searchStart fuel (progress + index + bl + 2)
            | some newLineStart =>
              match checkedRange dataLen searchStart (progress + index - prev) with
              | .error e => .error e
              | .ok r => .ok ⟨some r, false, progress + index + bl + 2 + newLineStart + 1⟩
          else
            let afterBoundary := remaining.drop (index + bl)
            match indexOfNewLineAfterBoundary afterBoundary with
            | none => readToBoundary data sb searchStart fuel (progress + index + bl)
            | some newLineStart =>
              match checkedRange dataLen searchStart (progress + index - prev) with
              | .error e => .error e
              | .ok r => .ok ⟨some r, true, progress + index + bl + newLineStart + 1⟩

/-- the `for` loop of `ScanAll` -/
def scanLoop (data sb : Bytes) : Nat → Nat → Except ScanErr (List (Nat × Nat))
  | 0, _ => .error .fuel
  | fuel + 1, progress =>
    match readToBoundary data sb progress (data.length + 1) progress with
    | .error e => .error e
    | .ok r =>
      let here := match r.part with | some p => [p] | none => []
      if !r.more then .ok here
      else match scanLoop data sb fuel r.progress with
        | .ok ps => .ok (here ++ ps)
        | .error e => .error e

/-- `NewByteScanner(data, boundary)` (which reads up to the first boundary) followed by `ScanAll()`:
    the parts as (offset, length) into `data` -/
def scanAll (data boundary : Bytes) : Except ScanErr (List (Nat × Nat)) :=
  let sb := [45, 45] ++ boundary
  match readToBoundary data sb 0 (data.length + 1) 0 with
  | .error e => .error e
  | .ok r0 => scanLoop data sb (data.length + 2) r0.progress

/-! ## Section (parser.go) -/

/-- classification of a `Content-Type` value as used by `load` and `handleEmbeddedParts` -/
inductive CT where
  | rfc822                       -- mimeType == "message/rfc822"
  | multipart (boundary : Bytes) -- strings.HasPrefix(mimeType, "multipart/"), params["boundary"]
  | other                        -- anything else, including a parse error
  deriving DecidableEq, Repr

/-- A section as index ranges into the root literal (absolute offsets: for a child created from
    `section.literal[body:end]` the Go offsets are relative to that sub-slice; here they are shifted). -/
structure Section where
  header : Nat
  body : Nat
  «end» : Nat
  deriving DecidableEq, Repr, Inhabited

def Section.headerBytes (lit : Bytes) (s : Section) : Bytes := slice lit s.header s.body
def Section.bodyBytes (lit : Bytes) (s : Section) : Bytes := slice lit s.body s.end
def Section.literalBytes (lit : Bytes) (s : Section) : Bytes := slice lit s.header s.end

/-- `parse(literal, identifier, begin, end)`: the header is dropped entirely when `NewHeader` fails -/
def parse (lit : Bytes) (b e : Nat) : Section :=
  let h := (split (slice lit b e)).1
  let hlen := match parseEntries h with
    | .ok _ => h.length
    | .error _ => 0
  ⟨b, b + hlen, e⟩

/-- `Parse(literal)` -/
def parseRoot (lit : Bytes) : Section := parse lit 0 lit.length

inductive PErr where
  | noSuchPart      -- ErrNoSuchPart
  | invalidIndex    -- fmt.Errorf("invalid part index")
  | header (e : HErr)
  | panic
  | fuel
  deriving DecidableEq, Repr

/-- `Section.ContentType()` up to the oracle: `ParseHeader`, `Get("Content-Type")`, `ParseMIMEType` -/
def contentType (ct : Bytes → CT) (lit : Bytes) (s : Section) : Except PErr CT :=
  let h := s.headerBytes lit
  match parseEntries h with
  | .error e => .error (.header e)
  | .ok es =>
    match getRaw h es ([99, 111, 110, 116, 101, 110, 116, 45, 116, 121, 112, 101]) with
    | none => .ok .other                      -- Get returns "": text/plain
    | some raw => .ok (ct raw)

/-- `Section.load()` (the children it appends) -/
def loadChildren (ct : Bytes → CT) (lit : Bytes) : Nat → Section → Except PErr (List Section)
  | 0, _ => .error .fuel
  | fuel + 1, s =>
    match contentType ct lit s with
    | .error e => .error e
    | .ok .rfc822 =>
      -- child := parse(literal[body:end], identifier, 0, end-body); child.load(); children = child.children
      loadChildren ct lit fuel (parse lit s.body s.end)
    | .ok (.multipart boundary) =>
      match scanAll (s.bodyBytes lit) boundary with
      | .error .panic => .error .panic
      | .error .fuel => .error .fuel
      | .ok parts => .ok (parts.map fun (o, l) => parse lit (s.body + o) (s.body + o + l))
    | .ok .other => .ok []

def children (ct : Bytes → CT) (lit : Bytes) (s : Section) : Except PErr (List Section) :=
  loadChildren ct lit (lit.length + 2) s

/-- `Section.Part(identifier...)` -/
def part (ct : Bytes → CT) (lit : Bytes) : Section → List Int → Except PErr Section
  | s, [] => .ok s
  | s, i :: rest =>
    match children ct lit s with
    | .error e => .error e
    | .ok ch =>
      if i ≤ 0 || i - 1 > (ch.length : Int) then .error .noSuchPart
      else if ch.length != 0 then
        let childIndex := (i - 1).toNat
        if childIndex ≥ ch.length then .error .invalidIndex
        else match ch[childIndex]? with
          | some c => part ct lit c rest
          | none => .error .panic                -- children[identifier[0]-1] out of range
      else .ok s                                 -- no children: the rest of the path is ignored

/-! ## itemBodyLiteral.WithPartial, String (item_body_literal.go) and the RFC822 items -/

def minInt64 : Int := -9223372036854775808
def maxInt64 : Int := 9223372036854775807

/-- two's-complement wrap of a Go `int` (64 bit) result -/
def wrap64 (x : Int) : Int := (x + 9223372036854775808) % 18446744073709551616 - 9223372036854775808

/-- Go `l[lo:hi]` on a slice with `cap == len`; `none` = panic -/
def goSlice (l : Bytes) (lo hi : Int) : Option Bytes :=
  if 0 ≤ lo && lo ≤ hi && hi ≤ (l.length : Int) then some (slice l lo.toNat hi.toNat) else none

/-- `WithPartial(begin, count)`: the new `r.literal`; `none` = panic.  (`r.partial = begin` is separate.) -/
def withPartial (lit : Bytes) (begin count : Int) : Option Bytes :=
  let n : Int := lit.length
  if begin ≥ n then some []
  else if wrap64 (begin + count) > n then goSlice lit begin n        -- r.literal[begin:]
  else goSlice lit begin (wrap64 (begin + count))                    -- r.literal[begin : begin+count]

def digitsRev : Nat → Nat → List Nat
  | 0, _ => []
  | fuel + 1, n => if n < 10 then [n] else (n % 10) :: digitsRev fuel (n / 10)

/-- `%v` of a non-negative int -/
def dec (n : Nat) : Bytes := ((digitsRev (n + 1) n).reverse).map fun d => (48 + d).toUInt8

/-- `{N}\r\n` followed by the N bytes: the literal framing shared by all literal items -/
def frame (d : Bytes) : Bytes := [123] ++ dec d.length ++ [125, 13, 10] ++ d

/-- `itemBodyLiteral.String()`: `BODY[section]<partial> {len}\r\n` + bytes; `partial = -1` when unset -/
def renderBodyLiteral (secName : Bytes) (partialTag : Int) (d : Bytes) : Bytes :=
  [66, 79, 68, 89, 91] ++ secName ++ [93] ++
    (if partialTag ≥ 0 then [60] ++ dec partialTag.toNat ++ [62] else []) ++ [32] ++ frame d

/-- `ItemBodyLiteral(section, lit)` + optional `WithPartial` + `String()`; `none` = panic -/
def bodyLiteralItem (secName lit : Bytes) (partialArg : Option (Int × Int)) : Option Bytes :=
  match partialArg with
  | none => some (renderBodyLiteral secName (-1) lit)
  | some (b, c) =>
    match withPartial lit b c with
    | none => none
    | some d => some (renderBodyLiteral secName b d)

/-- `itemRFC822Literal/Header/Text.String()` with `name` = `RFC822`, `RFC822.HEADER`, `RFC822.TEXT` -/
def renderRFC822 (name : Bytes) (d : Bytes) : Bytes := name ++ [32] ++ frame d

/-! ## mailbox_fetch.go -/

/-- the section-text part of a body section -/
inductive SecText where
  | none                                   -- BODY[] / BODY[1.2]
  | mime
  | header
  | text
  | fields (negate : Bool) (names : List Bytes)
  deriving Repr

/-- `command.BodySection`: `path = []` means no `BodySectionPart` wrapper -/
structure BodySection where
  path : List Int
  text : SecText
  deriving Repr

inductive FErr where
  | part (e : PErr)
  | panic
  deriving Repr

/-- `handleEmbeddedParts` -/
def handleEmbedded (ct : Bytes → CT) (lit : Bytes) (root : Section) : Except PErr Section :=
  match contentType ct lit root with
  | .error e => .error e
  | .ok .rfc822 => .ok (parse lit root.body root.end)       -- rfc822.Parse(root.Body())
  | .ok _ => .ok root

/-- `fetchBodySection(section, literal)` for a non-nil section -/
def fetchBodySection (ct : Bytes → CT) (lit : Bytes) (sec : BodySection) : Except PErr Bytes :=
  match part ct lit (parseRoot lit) sec.path with
  | .error e => .error e
  | .ok root =>
    match sec.text with
    | .none => .ok (root.bodyBytes lit)
    | .mime => .ok (root.headerBytes lit)
    | .header => (handleEmbedded ct lit root).map (·.headerBytes lit)
    | .text => (handleEmbedded ct lit root).map (·.bodyBytes lit)
    | .fields negate names =>
      match handleEmbedded ct lit root with
      | .error e => .error e
      | .ok r =>
        let h := r.headerBytes lit
        match parseEntries h with
        | .error e => .error (.header e)
        | .ok es => .ok (fieldsOf negate (names.map foldKey) h es)      -- wantFields[foldKey(field)]

def intercalate (sep : Bytes) : List Bytes → Bytes
  | [] => []
  | [x] => x
  | x :: y :: tl => x ++ sep ++ intercalate sep (y :: tl)

def decInt (i : Int) : Bytes := if i < 0 then [45] ++ dec i.natAbs else dec i.toNat

/-- `renderSection` -/
def renderSection (sec : BodySection) : Bytes :=
  let parts : List Bytes := if sec.path.isEmpty then [] else [intercalate [46] (sec.path.map decInt)]
  let txt : List Bytes := match sec.text with
    | .none => []
    | .mime => [[77, 73, 77, 69]]
    | .header => [[72, 69, 65, 68, 69, 82]]
    | .text => [[84, 69, 88, 84]]
    | .fields negate names =>
      [(if negate then [72, 69, 65, 68, 69, 82, 46, 70, 73, 69, 76, 68, 83, 46, 78, 79, 84, 32, 40] else [72, 69, 65, 68, 69, 82, 46, 70, 73, 69, 76, 68, 83, 32, 40]) ++ intercalate [32] names ++ [41]]
  goUpper (intercalate [46] (parts ++ txt))      -- strings.ToUpper(strings.Join(res, "."))

def BodySection.isNil (sec : BodySection) : Bool :=
  sec.path.isEmpty && (match sec.text with | .none => true | _ => false)

/-- `fetchBodyLiteral`: the bytes and the rendered section name -/
def fetchBodyLiteral (ct : Bytes → CT) (lit : Bytes) (sec : BodySection) : Except PErr (Bytes × Bytes) :=
  if sec.isNil then .ok (lit, [])
  else match fetchBodySection ct lit sec with
    | .error e => .error e
    | .ok b => .ok (b, renderSection sec)

/-- `fetchAttributeBodySection`: the rendered item -/
def fetchAttributeBodySection (ct : Bytes → CT) (lit : Bytes) (sec : BodySection)
    (partialArg : Option (Int × Int)) : Except FErr Bytes :=
  match fetchBodyLiteral ct lit sec with
  | .error e => .error (.part e)
  | .ok (b, name) =>
    match bodyLiteralItem name b partialArg with
    | none => .error .panic
    | some r => .ok r

/-- `fetchRFC822`, `fetchRFC822Header`, `fetchRFC822Text` -/
def fetchRFC822 (lit : Bytes) : Bytes := renderRFC822 ([82, 70, 67, 56, 50, 50]) lit
def fetchRFC822Header (lit : Bytes) : Bytes :=
  renderRFC822 ([82, 70, 67, 56, 50, 50, 46, 72, 69, 65, 68, 69, 82]) ((parseRoot lit).headerBytes lit)
def fetchRFC822Text (lit : Bytes) : Bytes :=
  renderRFC822 ([82, 70, 67, 56, 50, 50, 46, 84, 69, 88, 84]) ((parseRoot lit).bodyBytes lit)

end Gluon.Rfc822
