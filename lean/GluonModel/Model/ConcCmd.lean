/-
C19 — the goroutines a session starts per command and per IDLE, and what makes them stop.
Core Lean only. Two small transition systems; every step sequence = every interleaving, a step that is
not enabled leaves the state unchanged.

(1) The response pipeline of one command (internal/session/handle.go `handleOther`, session.go `serve`):
the command goroutine (tracked by `handleWG`) and its workers publish `n` responses by plain blocking
sends `ch <- response` (they do not look at the context) into a channel of capacity `cap`, then
`defer close(resCh)`. The serve loop receives (`for res := range respCh`) and writes to the connection.
When a write fails, serve returns; `drains` says whether something keeps receiving afterwards (the
code: a goroutine `for range respCh {}`; regenerated fact `sendFailDrains`). `Session.Serve` then waits
in `handleWG.Wait()` for the command goroutine, i.e. for `closed`.

(2) The forwarder of one IDLE (internal/session/handle_idle.go, internal/state/state.go `Idle`): the
callback starts a goroutine that forwards `state.idleCh` until that channel is CLOSED - nothing else
stops it. `State.endIdle` closes it; `deferred` says whether `endIdle` runs on every exit of `Idle`
(`defer state.endIdle()`, regenerated fact `idleEndDeferred`) or only when the callback returned nil.
-/

namespace Gluon.Conc

/-! ## (1) command pipeline -/

/-- who receives from the command's response channel -/
inductive CmdConsumer where
  | ranging    -- the serve loop: `for res := range respCh { res.Send(s) }`
  | draining   -- the goroutine started on a failed Send: `for range respCh {}`
  | gone       -- serve returned and nothing receives
  | finished   -- saw the channel closed and empty
deriving DecidableEq, Repr

structure CmdState where
  cap : Nat
  drains : Bool
  toProduce : Nat        -- responses not yet sent by the command goroutine / its workers
  buf : Nat              -- responses in the channel
  closed : Bool          -- command goroutine finished (`defer close(resCh)`, then `handleWG.Done`)
  consumer : CmdConsumer
deriving DecidableEq, Repr

inductive CmdStep where
  | push                      -- a producer's `ch <- response` completes
  | close                     -- the command goroutine returns
  | recv (sendFails : Bool)   -- the consumer receives (and, in the serve loop, writes: may fail)
deriving DecidableEq, Repr

def CmdState.init (cap n : Nat) (drains : Bool) : CmdState :=
  { cap := cap, drains := drains, toProduce := n, buf := 0, closed := false, consumer := .ranging }

def CmdState.step (s : CmdState) : CmdStep → CmdState
  | .push =>
    if 0 < s.toProduce ∧ s.buf < s.cap then { s with toProduce := s.toProduce - 1, buf := s.buf + 1 } else s
  | .close =>
    if s.toProduce = 0 ∧ s.closed = false then { s with closed := true } else s
  | .recv f =>
    match s.consumer with
    | .ranging =>
      if 0 < s.buf then
        { s with buf := s.buf - 1,
                 consumer := if f then (if s.drains then .draining else .gone) else .ranging }
      else if s.closed then { s with consumer := .finished } else s
    | .draining =>
      if 0 < s.buf then { s with buf := s.buf - 1 }
      else if s.closed then { s with consumer := .finished } else s
    | .gone => s
    | .finished => s

def CmdState.run (s : CmdState) (steps : List CmdStep) : CmdState := steps.foldl CmdState.step s

/-- command goroutine finished (so `handleWG.Wait()` returns) and the receiver is gone too -/
def CmdState.done (s : CmdState) : Prop := s.closed = true ∧ s.consumer = .finished

/-- number of steps that can still change the state -/
def CmdState.measure (s : CmdState) : Nat :=
  2 * s.toProduce + s.buf + (if s.closed then 0 else 1) +
    (match s.consumer with | .ranging => 1 | .draining => 1 | _ => 0)

/-- what holds in every state reachable with `drains = true` and `cap > 0` -/
structure CmdInv (s : CmdState) : Prop where
  capPos : 0 < s.cap
  drains : s.drains = true
  notGone : s.consumer ≠ .gone
  fin : s.consumer = .finished → s.closed = true ∧ s.buf = 0
  clos : s.closed = true → s.toProduce = 0

/-! ## (2) IDLE forwarder -/

inductive FwdPhase where
  | notStarted | running | exited
deriving DecidableEq, Repr

structure IdleState where
  deferred : Bool     -- `defer state.endIdle()` (true) / endIdle only after a nil result (false)
  fwd : FwdPhase
  chClosed : Bool     -- state.idleCh closed
  returned : Bool     -- State.Idle returned
deriving DecidableEq, Repr

inductive IdleStep where
  | start                  -- the callback's first statement: async.GoAnnotated(forwarder)
  | fnReturn (err : Bool)  -- the callback returns (DONE / BAD: nil or a write error; malformed line, ctx: error)
  | fwdPoll                -- the forwarder looks at its channel
deriving DecidableEq, Repr

def IdleState.init (deferred : Bool) : IdleState :=
  { deferred := deferred, fwd := .notStarted, chClosed := false, returned := false }

def IdleState.step (s : IdleState) : IdleStep → IdleState
  | .start => if s.fwd = .notStarted ∧ s.returned = false then { s with fwd := .running } else s
  | .fnReturn err =>
    if s.fwd ≠ .notStarted ∧ s.returned = false then
      { s with returned := true, chClosed := s.deferred || !err }
    else s
  | .fwdPoll => if s.fwd = .running ∧ s.chClosed = true then { s with fwd := .exited } else s

def IdleState.run (s : IdleState) (steps : List IdleStep) : IdleState := steps.foldl IdleState.step s

/-! ## (3) the update injector's forwarder and the user's update goroutine (internal/backend)

`user.close`: close(updateQuitCh); updateWG.Wait()  -- the only receiver of `updatesCh` is gone --
and only then `updateInjector.Close`: close(forwardQuitCh); forwardWG.Wait(). The connector's channel is
unbuffered: once a send on it returned, the forwarder HOLDS that update and stands in its hand-over select. -/

inductive InjPhase where
  | waiting   -- the outer select of `forward`
  | holding   -- took an update off the connector's channel; in the hand-over select (`send`)
  | exited
deriving DecidableEq, Repr

structure InjState where
  watchOuter : Bool     -- the outer select has a case on forwardQuitCh
  watchInner : Bool     -- the hand-over select has a case on forwardQuitCh
  fwd : InjPhase
  readerAlive : Bool    -- the user's update goroutine
  readerQuit : Bool     -- updateQuitCh closed
  quit : Bool           -- forwardQuitCh closed
  closeReturned : Bool  -- forwardWG.Wait() returned: updateInjector.Close, hence user.close, returns
  delivered : Nat
deriving DecidableEq, Repr

inductive InjStep where
  | publish          -- the connector's send returns: the forwarder holds an update
  | deliver          -- the update goroutine takes the held update (and applies it)
  | closeReaderQuit  -- user.close: close(updateQuitCh)
  | readerPoll       -- the update goroutine's select picks the closed updateQuitCh: it returns
  | closeQuit        -- updateInjector.Close: close(forwardQuitCh) - after updateWG.Wait(), i.e. reader gone
  | fwdPoll          -- the forwarder's current select is evaluated
  | waitReturn       -- forwardWG.Wait() returns once the forwarder has run its deferred Done()
deriving DecidableEq, Repr

def InjState.init (watchOuter watchInner : Bool) : InjState :=
  { watchOuter := watchOuter, watchInner := watchInner, fwd := .waiting, readerAlive := true,
    readerQuit := false, quit := false, closeReturned := false, delivered := 0 }

def InjState.step (s : InjState) : InjStep → InjState
  | .publish => if s.fwd = .waiting then { s with fwd := .holding } else s
  | .deliver =>
    if s.fwd = .holding ∧ s.readerAlive = true then { s with fwd := .waiting, delivered := s.delivered + 1 } else s
  | .closeReaderQuit => { s with readerQuit := true }
  | .readerPoll => if s.readerQuit = true then { s with readerAlive := false } else s
  | .closeQuit => if s.readerQuit = true ∧ s.readerAlive = false then { s with quit := true } else s
  | .fwdPoll =>
    if s.quit = true ∧ ((s.fwd = .waiting ∧ s.watchOuter = true) ∨ (s.fwd = .holding ∧ s.watchInner = true)) then
      { s with fwd := .exited }
    else s
  | .waitReturn => if s.quit = true ∧ s.fwd = .exited then { s with closeReturned := true } else s

def InjState.run (s : InjState) (steps : List InjStep) : InjState := steps.foldl InjState.step s

/-- are all blocking channel operations of goroutine `loop` watched by quit channel `quit`? (rows of
Generated/Facts/GoLoops.lean: goroutine, quit channel of the enclosing select, operation, watched) -/
def loopWatched (ops : List (String × String × String × Bool)) (loop quit : String) : Bool :=
  ops.any (fun o => o.1 == loop) && ops.all (fun o => o.1 != loop || (o.2.2.2 && o.2.1 == quit))

end Gluon.Conc
