/-
M-SYS: the multi-session system — how a committed change travels from the session (or connector)
that made it to every session of the user.

  internal/state/state.go                      stateDBWrite (commit, then a second transaction that hands the
                                               updates on), QueueUpdates, ApplyUpdate, hasMessageOrPendingExists,
                                               PushResponder/queueResponder, flushResponses, Select, close
  internal/backend/state_user_interface_impl.go QueueOrApplyStateUpdate: the issuing state applies its updates AT ONCE
                                               (`update.Filter(state)` then `update.Apply`), every other state gets
                                               them appended to its update queue
  internal/backend/connector_updates.go        userDBWrite / queueStateUpdate: connector-originated changes are queued
                                               to every state; applyMessagesCreated, applyMessageMailboxesUpdated,
                                               applyMessageFlagsUpdated (setMessageFlags), applyMessageDeleted
  internal/session/session.go                  Session.serve: between two commands the session goroutine takes ONE queued
                                               update at a time (`case update := <-GetStateUpdatesCh()`), or the next
                                               command — whichever the `select` picks.  That choice is the schedule; here it
                                               is the explicit op `drain i k`
  internal/state/filters.go                    AllStateFilter, MBoxIDStateFilter, MessageIDStateFilter,
                                               MessageAndMBoxIDStateFilter — evaluated when the update is APPLIED
  internal/state/updates.go, responders.go     messageFlags{Added,Removed,Set}StateUpdate (+Combo), ExistsStateUpdate,
                                               responderStateUpdate, Remote{Add,Remove}MessageFlagsStateUpdate
  internal/state/actions.go, mailbox.go,       what APPEND / STORE / EXPUNGE / COPY / MOVE write and which updates they
  updates_mailbox.go                           return
  internal/session/handle*.go                  which flush a command ends with (Generated/Facts/Flush.lean)

The session side (snapshot, responder queue, `popResponders`, `flushResponses`, `Merge`) is
Model/Responder.lean, reused unchanged.

What is abstract
* The index is the relational content the code reads and writes, normalised as the code has it: per mailbox the
  rows `(message, UID, \Deleted)` in UID order with the AUTOINCREMENT counter, and per message ONE flag list shared by
  all mailboxes that hold it.  `\Recent` is not modelled (C01/C02 ignore it; the correspondence strips it and the
  RECENT responses): an ExistsStateUpdate's "target state" only decides who sees `\Recent`.
* Message sets arrive as lists of single sequence numbers (set syntax and ranges are C16's topic); a number outside
  `1..count` refuses the whole command (`ErrNoSuchMessage` -> BAD), as `getMessagesInSeqRange` does.
* The connector always succeeds and returns no updates of its own (the harness uses a connector without echo).
* Row order of `GetMessagesFlags` (GROUP BY on random UUIDs) is the order of the command's message list; it only
  shows in the order of FETCH responses inside one flush, which the correspondence compares as a set per run.
* Storage errors, limits, read-only (EXAMINE) sessions and IDLE are not part of this model.

Core Lean only.
-/
import GluonModel.Spec.MailboxView

namespace Gluon.Sys
open Gluon

/-! ### the authoritative index -/

/-- one row of `mailbox_message_<id>` -/
structure Row where
  id : MsgId
  uid : UID
  deleted : Bool
deriving DecidableEq, Repr

/-- a mailbox: its rows in insertion (= UID) order and the AUTOINCREMENT counter -/
structure Box where
  rows : List Row := []
  uidNext : UID := 1
deriving DecidableEq, Repr

/-- the index: mailbox `k` is `boxes[k]`; `flags` is `message_flags` as an association list, first match
    wins (a write puts the new entry in front) -/
structure Index where
  boxes : List Box
  flags : List (MsgId × Flags) := []
  nextId : MsgId := 1
deriving DecidableEq, Repr

namespace Box
def has (b : Box) (id : MsgId) : Bool := b.rows.any (·.id == id)
/-- `DELETE FROM mailbox_message_<id> WHERE message_id IN (…)` -/
def remove (b : Box) (ids : List MsgId) : Box := { b with rows := b.rows.filter fun r => !ids.contains r.id }
/-- the rows `INSERT INTO mailbox_message_<id>` creates for `ids`, in order: consecutive UIDs from `u`; `d` = the
    `\\Deleted` mark they end up with (only APPEND with `\\Deleted` sets it, right after the insert) -/
def rowsFrom (d : Bool) (u : UID) : List MsgId → List Row
  | [] => []
  | id :: t => { id := id, uid := u, deleted := d } :: rowsFrom d (u + 1) t
def newRows (b : Box) (ids : List MsgId) (d : Bool := false) : List Row := rowsFrom d b.uidNext ids
def add (b : Box) (ids : List MsgId) (d : Bool := false) : Box :=
  { rows := b.rows ++ b.newRows ids d, uidNext := b.uidNext + ids.length }
/-- `UPDATE … SET deleted = d WHERE message_id IN (…)` -/
def setDeleted (b : Box) (ids : List MsgId) (d : Bool) : Box :=
  { b with rows := b.rows.map fun r => if ids.contains r.id then { r with deleted := d } else r }
end Box

namespace Index
def box (idx : Index) (mb : Nat) : Box := (idx.boxes[mb]?).getD {}
def setBox (idx : Index) (mb : Nat) (b : Box) : Index := { idx with boxes := idx.boxes.set mb b }
/-- `GetMessagesFlags` for one message (no `\Deleted`, no `\Recent`) -/
def msgFlags (idx : Index) (id : MsgId) : Flags :=
  match idx.flags.find? (·.1 == id) with
  | some p => p.2
  | none => []
def setMsgFlags (idx : Index) (id : MsgId) (fl : Flags) : Index := { idx with flags := (id, fl) :: idx.flags }
/-- a message is created with flags `fl`: `imap.NewInternalMessageID()` is the counter -/
def newMsg (idx : Index) (fl : Flags) : Index :=
  { idx with nextId := idx.nextId + 1, flags := (idx.nextId, fl) :: idx.flags }
/-- give each of `ids` the flag list `f (its current list)` (all lists are read before anything is written) -/
def mapMsgFlags (idx : Index) (ids : List MsgId) (f : Flags → Flags) : Index :=
  { idx with flags := ids.map (fun id => (id, f (idx.msgFlags id))) ++ idx.flags }
/-- `UIDWithFlags.GetFlagSet()` / `SnapshotMessageResult.GetFlagSet()`: the message's flags plus the row's `\Deleted` -/
def rowFlags (idx : Index) (r : Row) : Flags :=
  if r.deleted then Flags.add1 (idx.msgFlags r.id) Flags.deleted else idx.msgFlags r.id
/-- **what a newly opened session sees** (`GetMailboxMessageForNewSnapshot`) -/
def view (idx : Index) (mb : Nat) : View :=
  (idx.box mb).rows.map fun r => { id := r.id, uid := r.uid, flags := idx.rowFlags r }
/-- `GetMessageMailboxIDs` -/
def boxesOf (idx : Index) (id : MsgId) : List Nat :=
  (List.range idx.boxes.length).filter fun mb => (idx.box mb).has id
end Index

/-- `newSnapshot` -/
def snapOf (v : View) : Snap := v.map fun m => Snap.mkMsg m.id m.uid m.flags

/-! ### state updates -/

/-- one `messageFlags{Added,Removed,Set}StateUpdate` inside a combo -/
structure FlagPart where
  op : FlagOp
  ids : List MsgId
  fl : Flags
deriving DecidableEq, Repr

inductive Update where
  /-- `ExistsStateUpdate` (MBoxIDStateFilter); `st` = the state given to `newExistsStateUpdateWithExists`
      (target and origin), `none` for connector-originated additions and additions to a mailbox the issuer
      has not selected -/
  | exists (mb : Nat) (items : List (MsgId × UID × Flags)) (st : Option StateId)
  /-- `NewMessageIDAndMailboxIDResponderStateUpdate(id, mb, NewExpunge(id))` (MessageAndMBoxIDStateFilter) -/
  | expunge (mb : Nat) (id : MsgId)
  /-- `messageFlagsComboStateUpdate` / `messageFlagsSetStateUpdate` (AllStateFilter) of a STORE run by state
      `origin` on mailbox `mb` -/
  | flags (mb : Nat) (origin : StateId) (parts : List FlagPart)
  /-- `Remote{Add,Remove}MessageFlagsStateUpdate` (MessageIDStateFilter) -/
  | remoteFlag (id : MsgId) (add : Bool) (flag : Flag)
deriving DecidableEq, Repr

/-- a session (`state.State`): selected mailbox (`snap != nil`), snapshot, responders applied but not yet
    flushed (`state.res`), and the update queue (`updatesQueue`): delivered, not yet applied -/
structure Sess where
  sel : Option Nat := none
  snap : Snap := []
  res : List Responder := []
  inbox : List Update := []
deriving DecidableEq, Repr

/-- `State.hasMessageOrPendingExists` -/
def hasOrPending (snap : Snap) (res : List Responder) (id : MsgId) : Bool :=
  snap.has id || res.any fun r => r.isExists && r.msgId == id

namespace Update

/-- the mailbox part of `Filter(state)` (`s.snap != nil` is the caller's `sel = some …`) -/
def mboxPasses (sel : Nat) : Update → Bool
  | .exists mb _ _ => sel == mb
  | .expunge mb _ => sel == mb
  | .flags .. => true
  | .remoteFlag .. => true

/-- the message part of `Filter(state)` -/
def msgPasses (snap : Snap) (res : List Responder) : Update → Bool
  | .expunge _ id => hasOrPending snap res id
  | .remoteFlag id _ _ => hasOrPending snap res id
  | _ => true

/-- `Apply`: the responders pushed to a state with mailbox `sel` selected; `ctxUID` / `ctxSilent` are
    `contexts.IsUID(ctx)` / `contexts.IsSilent(ctx)` of the context the update is applied in (the issuing
    command's for the issuer, the plain session context when taken from the queue) -/
def responders (sid : StateId) (sel : Nat) (ctxUID ctxSilent : Bool) : Update → List Responder
  | .exists _ items st => items.map fun it => .exists it.1 it.2.1 it.2.2 (st.getD 0) st
  | .expunge _ id => [.expunge id]
  | .flags mb origin parts =>
    parts.flatMap fun p => p.ids.map fun id => .fetch id p.fl p.op ctxUID (sid == origin && ctxSilent) (sel != mb)
  | .remoteFlag id add flag => [.fetch id [flag] (if add then .add else .rem) ctxUID ctxSilent false]

end Update

namespace Sess

/-- `if !update.Filter(state) { skip }; update.Apply(ctx, tx, state)` with `PushResponder` = `queueResponder`
    (no IDLE) -/
def apply (sid : StateId) (ctxUID ctxSilent : Bool) (s : Sess) (u : Update) : Sess :=
  match s.sel with
  | none => s
  | some mb =>
    if u.mboxPasses mb && u.msgPasses s.snap s.res then
      { s with res := s.res ++ u.responders sid mb ctxUID ctxSilent }
    else s

def applyAll (sid : StateId) (ctxUID ctxSilent : Bool) (s : Sess) (us : List Update) : Sess :=
  us.foldl (apply sid ctxUID ctxSilent) s

/-- `QueueUpdates` -/
def enqueue (s : Sess) (us : List Update) : Sess := { s with inbox := s.inbox ++ us }

/-- the session goroutine takes the first `k` queued updates, one after the other (`ApplyUpdate`) -/
def drain (sid : StateId) (k : Nat) (s : Sess) : Sess :=
  applyAll sid false false { s with inbox := s.inbox.drop k } (s.inbox.take k)

/-- `flushResponses(ctx, permit)` outside CLOSE -/
def flush (sid : StateId) (permit : Bool) (s : Sess) : Sess × FlushResult :=
  let f := Gluon.flush permit false sid s.snap s.res
  ({ s with snap := f.snap, res := f.rem }, f.result)

end Sess

/-! ### commands -/

inductive Cmd where
  | append (mb : Nat) (flags : Flags)
  | store (seqs : List Nat) (op : FlagOp) (flags : Flags) (silent : Bool)
  | expunge
  | copy (seqs : List Nat) (dest : Nat)
  | move (seqs : List Nat) (dest : Nat)
deriving DecidableEq, Repr

/-- connector-originated changes (`imap.Update`s) -/
inductive ConnOp where
  /-- `MessagesCreated` with one new message in one mailbox -/
  | create (mb : Nat) (flags : Flags)
  /-- `MessageMailboxesUpdated(id, mbs, flags)` with `flags` = the flags the index has -/
  | boxes (id : MsgId) (mbs : List Nat)
  /-- `MessageFlagsUpdated(id, flags)` with `flags` = the index's, except that `flag` is on / off -/
  | setFlag (id : MsgId) (flag : Flag) (on : Bool)
  /-- `MessageDeleted(id)` (`imap.NewMessagesDeleted`): the message leaves every mailbox that holds it -/
  | delete (id : MsgId)
deriving DecidableEq, Repr

inductive SysOp where
  /-- a mutating command of session `i`, including the flushes it ends with -/
  | cmd (i : Nat) (c : Cmd)
  | conn (c : ConnOp)
  /-- session `i` applies the first `k` updates of its queue (the schedule; `X RELEASE` of the hold hook) -/
  | drain (i : Nat) (k : Nat)
  /-- `flush i true` = NOOP; `flush i false` = any FETCH-class command (the trailing flush of
      `handleSelectedCommand`) -/
  | flush (i : Nat) (permit : Bool)
  | select (i : Nat) (mb : Nat)
  | unselect (i : Nat)
  /-- IMAP `CLOSE` of session `i` (`handleClose`): `Mailbox.Expunge` of the `\\Deleted` messages, a permitting flush in
      the CLOSE context (nothing is announced), then `Mailbox.Close` -/
  | close (i : Nat)
deriving DecidableEq, Repr

inductive Status where
  | ok
  /-- refused: BAD (no such message) / NO (no mailbox selected, no such session) -/
  | refused
  /-- a flush failed (`handle` error): the command answers NO -/
  | err (e : Err)
  /-- `response.Merge` panicked -/
  | panic
deriving DecidableEq, Repr

/-- what the issuing client observes: completion status and the untagged EXISTS / EXPUNGE / FETCH it was sent -/
structure Out where
  status : Status := .ok
  resps : List Resp := []
deriving DecidableEq, Repr

def Out.andThen (o : Out) : FlushResult → Out
  | .ok out => { o with resps := o.resps ++ out }
  | .err e => if o.status = .ok then { o with status := .err e } else o
  | .mergePanic => if o.status = .ok then { o with status := .panic } else o

/-- `getMessagesInSeqRange` for single numbers + the de-duplication of `getMessagesInRange` -/
def resolve (snap : Snap) (seqs : List Nat) : Option (List SMsg) :=
  (seqs.mapM fun n => if n = 0 then none else snap[n - 1]?).map fun ms =>
    ms.foldl (fun acc m => if acc.any (·.id == m.id) then acc else acc ++ [m]) []

def insertByUid (m : SMsg) : List SMsg → List SMsg
  | [] => [m]
  | x :: xs => if m.uid ≤ x.uid then m :: x :: xs else x :: insertByUid m xs

/-- `sort.SliceStable(messages, by UID)` of `Mailbox.Copy` / `Mailbox.Move` -/
def sortByUid (ms : List SMsg) : List SMsg := ms.foldr insertByUid []

/-- the `StateId` of session `i` -/
def sidOf (i : Nat) : StateId := i + 1

/-- what a command writes and hands on -/
structure Effect where
  idx : Index
  ups : List Update := []
  silent : Bool := false
  /-- the handler's own `flush(ctx, mailbox, permit, ch)` -/
  flush1 : Option Bool := none
  /-- the trailing `flush(false)` of `handleSelectedCommand` -/
  trailing : Bool := true

/-- `AddMessagesToMailbox` + the `exists` items of its update: (message, new UID, `GetFlagSet()`) -/
def addItems (idx : Index) (mb : Nat) (ids : List MsgId) (d : Bool := false) : List (MsgId × UID × Flags) :=
  ((idx.box mb).newRows ids d).map fun r => (r.id, r.uid, idx.rowFlags r)

/-- `actionRemoveMessagesFromMailboxUnchecked` / `RemoveMessagesFromMailbox` -/
def removeFrom (idx : Index) (mb : Nat) (ids : List MsgId) : Index × List Update :=
  (idx.setBox mb ((idx.box mb).remove ids), ids.map (.expunge mb))

/-- `actionAddMessagesToMailbox`: copies the mailbox already holds are removed first, then all are added -/
def actionAdd (idx : Index) (mb : Nat) (ids : List MsgId) (st : Option StateId) : Index × List Update :=
  let have_ := ids.filter (idx.box mb).has
  let (idx1, ups1) := if have_.isEmpty then (idx, []) else removeFrom idx mb have_
  (idx1.setBox mb ((idx1.box mb).add ids), ups1 ++ [.exists mb (addItems idx1 mb ids) st])

/-- `applyMessageFlagsAdded` / `…Removed` / `…Set` on mailbox `sel` by state `sid`.

    Index: `\\Deleted` goes to the rows of `sel` (`SetMailboxMessagesDeletedFlag`); the other flags `remaining`
    go to the messages.  The code reads `curFlags` once and then, flag by flag, adds the flag to the named messages
    that lack it (removes it from those that have it): every named message ends with `cur ∪ remaining`
    (`cur ∖ remaining`), which is what is written here; `…Set` replaces (`SetFlagsOnMessages`, or removes every
    current flag when nothing remains).

    Updates: ONE combo update whose parts follow the code: the `\\Deleted` part names all messages; then one part
    per remaining flag `f`, naming the messages that lacked (had) `f` and carrying ALL remaining flags. -/
def storeEffect (idx : Index) (sel : Nat) (sid : StateId) (ids : List MsgId) (op : FlagOp) (fl : Flags) :
    Index × List Update :=
  let remaining := Flags.remove1 fl Flags.deleted
  let del := fl.contains Flags.deleted
  let idx1 := match op with
    | .add => if del then idx.setBox sel ((idx.box sel).setDeleted ids true) else idx
    | .rem => if del then idx.setBox sel ((idx.box sel).setDeleted ids false) else idx
    | .set => idx.setBox sel ((idx.box sel).setDeleted ids del)
  let idx2 := idx1.mapMsgFlags ids fun cur => newFlags cur op remaining false
  let parts : List FlagPart := match op with
    | .add => (if del then [⟨.add, ids, [Flags.deleted]⟩] else []) ++
        remaining.map fun f => ⟨.add, ids.filter (fun id => !(idx.msgFlags id).contains f), remaining⟩
    | .rem => (if del then [⟨.rem, ids, [Flags.deleted]⟩] else []) ++
        remaining.map fun f => ⟨.rem, ids.filter (fun id => (idx.msgFlags id).contains f), remaining⟩
    | .set => [⟨.set, ids, fl⟩]
  (idx2, [.flags sel sid parts])

/-- the index write and the updates of command `c` run by session `me` (state id `sid`); `none` = refused
    before anything is written -/
def effect (idx : Index) (me : Sess) (sid : StateId) : Cmd → Option Effect
  | .append mb fl =>
    if idx.boxes.length ≤ mb then none else
    -- `actionCreateMessage`: a new message id; `\Deleted` goes to the row, the rest to the message
    let id := idx.nextId
    let d := fl.contains Flags.deleted
    let idx1 := idx.newMsg (Flags.norm (Flags.remove1 fl Flags.deleted))
    let same := me.sel == some mb
    some { idx := idx1.setBox mb ((idx1.box mb).add [id] d),
           ups := [.exists mb (addItems idx1 mb [id] d) (if same then some sid else none)],
           flush1 := if same then some true else none, trailing := false }
  | .store seqs op fl silent =>
    match me.sel with
    | none => none
    | some sel =>
      match resolve me.snap seqs with
      | none => none
      | some ms =>
        let (idx', ups) := storeEffect idx sel sid (ms.map (·.id)) op fl
        some { idx := idx', ups, silent, flush1 := some false }
  | .expunge =>
    match me.sel with
    | none => none
    | some sel =>
      -- `getAllMessagesIDsMarkedDelete`; a message with an applied, not yet flushed `expunge` responder
      -- (`State.pendingExpunges`, fix 9c5a27f) is left alone: the snapshot entry is the OLD instance of a message that was
      -- copied / moved onto its own mailbox, the index would remove the new one; then `actionRemoveMessagesFromMailbox`
      -- keeps those the mailbox still holds
      let ids := ((me.snap.filter (·.toExpunge)).map (·.id)).filter fun id => !me.res.contains (.expunge id)
      let have_ := ids.filter (idx.box sel).has
      if have_.isEmpty then some { idx, flush1 := some true }
      else
        let (idx', ups) := removeFrom idx sel have_
        some { idx := idx', ups, flush1 := some true }
  | .copy seqs dest =>
    match me.sel with
    | none => none
    | some _ =>
      if idx.boxes.length ≤ dest then none else
      match resolve me.snap seqs with
      | none => none
      | some ms =>
        -- `Mailbox.Copy` passes `m.snap == m.state.snap` (true) as "is selected": target = origin = this state
        let (idx', ups) := actionAdd idx dest ((sortByUid ms).map (·.id)) (some sid)
        some { idx := idx', ups }
  | .move seqs dest =>
    match me.sel with
    | none => none
    | some sel =>
      if idx.boxes.length ≤ dest then none else
      match resolve me.snap seqs with
      | none => none
      | some ms =>
        -- only messages the source still holds are moved
        let toMove := ((sortByUid ms).map (·.id)).filter (idx.box sel).has
        if sel == dest then
          if toMove.isEmpty then some { idx, flush1 := some true }
          else
            let (idx1, ups1) := removeFrom idx dest toMove
            let (idx2, ups2) := actionAdd idx1 dest toMove none
            some { idx := idx2, ups := ups1 ++ ups2, flush1 := some true }
        else
          let inDest := toMove.filter (idx.box dest).has
          let (idx1, ups1) := if inDest.isEmpty then (idx, []) else removeFrom idx dest inDest
          -- `MoveMessagesFromMailbox`: remove from the source, add to the destination; EXISTS first, then the EXPUNGEs
          let idx2 := idx1.setBox sel ((idx1.box sel).remove toMove)
          let items := addItems idx2 dest toMove
          let idx3 := idx2.setBox dest ((idx2.box dest).add toMove)
          some { idx := idx3, ups := ups1 ++ [.exists dest items (some sid)] ++ toMove.map (.expunge sel),
                 flush1 := some true }

/-- a connector-originated change: index write and the updates queued to EVERY state -/
def connEffect (idx : Index) : ConnOp → Index × List Update
  | .create mb fl =>
    if idx.boxes.length ≤ mb then (idx, []) else
    let id := idx.nextId
    let idx1 := idx.newMsg (Flags.norm fl)
    (idx1.setBox mb ((idx1.box mb).add [id]), [.exists mb (addItems idx1 mb [id]) none])
  | .boxes id mbs =>
    -- `MessageExistsWithRemoteID`: an unknown message is refused (`ErrNoSuchMessage`)
    if idx.nextId ≤ id then (idx, []) else
    -- `setMessageMailboxes`: first the additions, then the removals; `setMessageFlags` finds nothing to do
    let cur := idx.boxesOf id
    let toAdd := (mbs.filter fun mb => mb < idx.boxes.length).filter fun mb => !cur.contains mb
    let toRem := cur.filter fun mb => !mbs.contains mb
    let (idx1, ups1) := toAdd.foldl (fun (acc : Index × List Update) mb =>
      (acc.1.setBox mb ((acc.1.box mb).add [id]), acc.2 ++ [.exists mb (addItems acc.1 mb [id]) none])) (idx, [])
    toRem.foldl (fun (acc : Index × List Update) mb =>
      ((removeFrom acc.1 mb [id]).1, acc.2 ++ (removeFrom acc.1 mb [id]).2)) (idx1, ups1)
  | .setFlag id flag on =>
    if idx.nextId ≤ id then (idx, []) else
    let cur := idx.msgFlags id
    if on && !cur.contains flag then (idx.setMsgFlags id (Flags.add1 cur flag), [.remoteFlag id true flag])
    else if !on && cur.contains flag then (idx.setMsgFlags id (Flags.remove1 cur flag), [.remoteFlag id false flag])
    else (idx, [])
  | .delete id =>
    -- `applyMessageDeleted`: `MarkMessageAsDeletedWithRemoteID` (an UPDATE: no error when no row matches; the mark on
    -- the `messages` row is read by nothing the model covers — only by APPEND with an internal-id header and by the
    -- purge at logout / start — and the row stays, so a later `boxes` / `setFlag` still finds the message);
    -- `GetMessageIDFromRemoteID`: an unknown message ends the update without error and without updates
    if idx.nextId ≤ id then (idx, []) else
    -- `GetMessageMailboxIDs`, then `state.RemoveMessagesFromMailbox(mailbox, [id])` mailbox by mailbox: the row is
    -- deleted and ONE `expunge` update (MessageAndMBoxIDStateFilter) per mailbox is collected; all are queued to
    -- every state after the transaction
    (idx.boxesOf id).foldl (fun (acc : Index × List Update) mb =>
      ((removeFrom acc.1 mb [id]).1, acc.2 ++ (removeFrom acc.1 mb [id]).2)) (idx, [])

/-! ### the system -/

structure Sys where
  idx : Index
  sess : List Sess
deriving Repr

/-- `n` logged-in sessions, none selected, `nbox` empty mailboxes -/
def Sys.init (nsess nbox : Nat) : Sys :=
  { idx := { boxes := List.replicate nbox {} }, sess := List.replicate nsess {} }

def Sys.setSess (s : Sys) (i : Nat) (x : Sess) : Sys := { s with sess := s.sess.set i x }

/-- the flushes a command ends with -/
def endFlushes (sid : StateId) (e : Effect) (me : Sess) : Sess × Out :=
  let (me1, o1) := match e.flush1 with
    | some p => let (m, r) := me.flush sid p; (m, ({} : Out).andThen r)
    | none => (me, {})
  if e.trailing then
    let (m, r) := me1.flush sid false
    (m, o1.andThen r)
  else (me1, o1)

/-- how `handleClose` ends after `Mailbox.Expunge`: `flush(ctx, mailbox, true, ch)` with `contexts.AsClose(ctx)` —
    EXPUNGEs are handled but nothing is sent — then `Mailbox.Close` -> `State.close()`: snapshot and responders are
    dropped, NOT the update queue (the trailing flush of `handleSelectedCommand` finds nothing).  If the flush fails,
    `handleClose` returns the error before `Mailbox.Close`: the mailbox stays selected, the trailing `flush(false)` runs
    in the plain context, the command answers NO -/
def Sess.closeEnd (sid : StateId) (me1 : Sess) : Sess × Out :=
  let f := Gluon.flush true true sid me1.snap me1.res
  match f.result with
  | .err er =>
    let (me2, r) := ({ me1 with snap := f.snap, res := f.rem } : Sess).flush sid false
    (me2, ({ status := .err er } : Out).andThen r)
  | _ => ({ me1 with sel := none, snap := [], res := [] }, {})

def step (s : Sys) : SysOp → Sys × Out
  | .cmd i c =>
    match s.sess[i]? with
    | none => (s, { status := .refused })
    | some me =>
      match effect s.idx me (sidOf i) c with
      | none =>
        -- refused; a selected-state command still ends with the trailing flush
        match c, me.sel with
        | .append .., _ => (s, { status := .refused })
        | _, none => (s, { status := .refused })
        | _, some _ =>
          let (me', r) := me.flush (sidOf i) false
          (s.setSess i me', ({ status := .refused } : Out).andThen r)
      | some e =>
        -- `QueueOrApplyStateUpdate`: the issuer applies at once, everybody else queues
        let sess1 := s.sess.mapIdx fun j sj =>
          if j = i then sj.applyAll (sidOf i) false e.silent e.ups else sj.enqueue e.ups
        let me1 := (sess1[i]?).getD me
        let (me2, out) := endFlushes (sidOf i) e me1
        ({ idx := e.idx, sess := sess1.set i me2 }, out)
  | .conn c =>
    let (idx', ups) := connEffect s.idx c
    ({ idx := idx', sess := s.sess.map (·.enqueue ups) }, {})
  | .drain i k =>
    match s.sess[i]? with
    | none => (s, {})
    | some me => (s.setSess i (me.drain (sidOf i) k), {})
  | .flush i permit =>
    match s.sess[i]? with
    | none => (s, { status := .refused })
    | some me =>
      match me.sel with
      | none => (s, {})
      | some _ =>
        let (me', r) := me.flush (sidOf i) permit
        (s.setSess i me', ({} : Out).andThen r)
  | .select i mb =>
    match s.sess[i]? with
    | none => (s, { status := .refused })
    | some me =>
      if s.idx.boxes.length ≤ mb then (s, { status := .refused }) else
      -- `State.Select`: `close()` drops snapshot and responders, NOT the update queue; then a new snapshot
      let snap := snapOf (s.idx.view mb)
      (s.setSess i { me with sel := some mb, snap, res := [] }, { resps := [.exists snap.length] })
  | .unselect i =>
    match s.sess[i]? with
    | none => (s, { status := .refused })
    | some me =>
      match me.sel with
      | none => (s, { status := .refused })
      | some _ => (s.setSess i { me with sel := none, snap := [], res := [] }, {})
  | .close i =>
    match s.sess[i]? with
    | none => (s, { status := .refused })
    | some me =>
      -- `Mailbox.Expunge(ctx, nil)`: what EXPUNGE writes and hands on (`none`: no mailbox selected, NO)
      match effect s.idx me (sidOf i) .expunge with
      | none => (s, { status := .refused })
      | some e =>
        let sess1 := s.sess.mapIdx fun j sj =>
          if j = i then sj.applyAll (sidOf i) false e.silent e.ups else sj.enqueue e.ups
        let me1 := (sess1[i]?).getD me
        let (me2, out) := me1.closeEnd (sidOf i)
        ({ idx := e.idx, sess := sess1.set i me2 }, out)

/-! ### what a queue will contribute; the schedule hypothesis `NoOvertake` in executable form -/

/-- the responders update `u` contributes to a session with `mb` selected that takes it from its queue -/
def Update.pend (sid : StateId) (mb : Nat) (cu cs : Bool) (u : Update) : List Responder :=
  if u.mboxPasses mb then u.responders sid mb cu cs else []

/-- … a whole queue (`cu`, `cs`: the context flags, `false` for the queue goroutine) -/
def pendC (sid : StateId) (mb : Nat) (cu cs : Bool) (us : List Update) : List Responder :=
  us.flatMap (Update.pend sid mb cu cs)

def pendOf (sid : StateId) (mb : Nat) (inbox : List Update) : List Responder := pendC sid mb false false inbox

/-- **NoOvertake, one step, executable** (`Lemmas/SysInv.lean`: `OpNoOvertake`; equivalence: `opNoOvertakeB_iff`): when
    session `i` runs a command, no update addressed to its mailbox is still queued — or the command hands nothing
    to its own mailbox; when it SELECTs, no queued update is addressed to the mailbox it opens -/
def opNoOvertakeB (s : Sys) : SysOp → Bool
  | .cmd i c =>
    match s.sess[i]? with
    | none => true
    | some me =>
      match me.sel with
      | none => true
      | some mb =>
        match effect s.idx me (sidOf i) c with
        | none => true
        | some e => (pendOf (sidOf i) mb me.inbox).isEmpty || (pendOf (sidOf i) mb e.ups).isEmpty
  | .select i mb =>
    match s.sess[i]? with
    | none => true
    | some me => (pendOf (sidOf i) mb me.inbox).isEmpty
  | .close i =>
    match s.sess[i]? with
    | none => true
    | some me =>
      match me.sel with
      | none => true
      | some mb =>
        match effect s.idx me (sidOf i) .expunge with
        | none => true
        | some e => (pendOf (sidOf i) mb me.inbox).isEmpty || (pendOf (sidOf i) mb e.ups).isEmpty
  | _ => true

def run (s : Sys) : List SysOp → Sys × List Out
  | [] => (s, [])
  | op :: ops =>
    let (s1, o) := step s op
    let (s2, os) := run s1 ops
    (s2, o :: os)

/-- the state after a trace -/
def exec (s : Sys) (ops : List SysOp) : Sys := ops.foldl (fun s op => (step s op).1) s

end Gluon.Sys
