/-
M-USERFILES — how a user id chosen by the embedding application (`Server.LoadUser(ctx, conn, userID, …)`) becomes the
file the user's SQLite database lives in (/repo/internal/db_impl/sqlite3/client.go):

  getDatabasePath(dir, userID)       = filepath.Join(dir, fmt.Sprintf("%v.db", userID))
  getDatabaseConn(dir, userID, path) = fmt.Sprintf("file:%v?cache=shared&_fk=1&_journal=WAL", <escape>(path))
  NewClient                          → sql.Open("sqlite3", getDatabaseConn(dir, userID, getDatabasePath(dir, userID)))

The DSN is an SQLite *URI filename* (https://www.sqlite.org/uri.html, `sqlite3ParseUri`): after the scheme `file:` the
file name ends at the first `?` (start of the query) or `#` (fragment), and every `%HH` in it is decoded to one byte
(a `%` that is not followed by two hex digits stands for itself).  go-sqlite3 cuts its own parameters (`_fk`,
`_journal`, `cache`) at the first `?` of the whole DSN as well.  So whatever `<escape>` is, the file that is opened is
`uriFile (dsn (escape path))` — with an escape function that lets a `?` of the path through, two paths that agree up to
that `?` are the *same* file (`Theorems/C18Files.lean`, `weak_escaper_merges_users`).

Paths are byte strings (`List Nat`, every element below 256).  Which function `<escape>` is comes from the regenerated
fact `Facts.dsnEscaper`; the model has `pathEscape` = Go's `url.PathEscape` (net/url `escape(s, encodePathSegment)`:
letters, digits and `- _ . ~ $ & + = : @` stay, every other byte becomes `%` and two upper-case hex digits).

Abstractions: `filepath.Join(dir, name)` is `dir ++ "/" ++ name` — true for a clean `dir` and a `name` that is one path
element (no `/`, not empty, `.` or `..`); gluon does not validate user ids, ids that are not one path element are outside
this model (hypothesis `OneElement` of the theorems; found as a defect class by the wire oracle `c18auth -hostile-ids`).
A NUL byte in the id is refused by the operating system before SQLite is reached (`os.Stat` in `pathExists`): hypothesis.
-/
namespace Gluon.UserFiles

abbrev Bytes := List Nat


/-- the bytes `url.PathEscape` leaves alone (net/url `shouldEscape(c, encodePathSegment)` is false) -/
def keep (b : Nat) : Bool :=
  (97 ≤ b && b ≤ 122) || (65 ≤ b && b ≤ 90) || (48 ≤ b && b ≤ 57) ||
  b == 45 || b == 95 || b == 46 || b == 126 ||                       -- - _ . ~
  b == 36 || b == 38 || b == 43 || b == 61 || b == 58 || b == 64     -- $ & + = : @

/-- upper-case hex digit of a value below 16 ("0123456789ABCDEF"[n]) -/
def hexDigit (n : Nat) : Nat := if n < 10 then 48 + n else 55 + n

/-- value of a hex digit (both cases), as SQLite's `sqlite3HexToInt` / Go's `unhex` read it -/
def unhex (c : Nat) : Option Nat :=
  if 48 ≤ c && c ≤ 57 then some (c - 48)
  else if 65 ≤ c && c ≤ 70 then some (c - 55)
  else if 97 ≤ c && c ≤ 102 then some (c - 87)
  else none

/-- `url.PathEscape` -/
def pathEscape : Bytes → Bytes
  | [] => []
  | b :: rest => if keep b then b :: pathEscape rest else 37 :: hexDigit (b / 16) :: hexDigit (b % 16) :: pathEscape rest

/-- percent-decoding of an SQLite URI filename (`sqlite3ParseUri`): `%` followed by two hex digits is one byte, any other
    `%` stands for itself.  Explicit fuel: one unit per byte is enough (`pctDecode`). -/
def pctDecodeF : Nat → Bytes → Bytes
  | 0, _ => []
  | _ + 1, [] => []
  | n + 1, b :: tl =>
    if b = 37 then
      match tl with
      | h :: l :: rest =>
        match unhex h, unhex l with
        | some x, some y => (16 * x + y) :: pctDecodeF n rest
        | _, _ => 37 :: pctDecodeF n tl
      | _ => 37 :: pctDecodeF n tl
    else b :: pctDecodeF n tl

def pctDecode (p : Bytes) : Bytes := pctDecodeF p.length p

/-- a byte that ends the file name of a URI: `?` or `#` -/
def endsName (b : Nat) : Bool := b == 63 || b == 35

/-- `fmt.Sprintf("file:%v?cache=shared&_fk=1&_journal=WAL", escaped)` -/
def query : Bytes := [99, 97, 99, 104, 101, 61, 115, 104, 97, 114, 101, 100, 38, 95, 102, 107, 61, 49, 38, 95, 106, 111, 117, 114, 110, 97, 108, 61, 87, 65, 76]   -- "cache=shared&_fk=1&_journal=WAL"
def scheme : Bytes := [102, 105, 108, 101, 58]   -- "file:"
def dsn (escaped : Bytes) : Bytes := scheme ++ escaped ++ 63 :: query

/-- the file SQLite opens for a DSN with the scheme `file:`: the part up to the first `?` / `#`, percent-decoded -/
def uriFile (d : Bytes) : Bytes := pctDecode ((d.drop scheme.length).takeWhile (fun b => !endsName b))

/-- the parameters go-sqlite3 (and SQLite) read: everything after the first `?` -/
def uriQuery (d : Bytes) : Bytes := ((d.drop scheme.length).dropWhile (fun b => b != 63)).drop 1

/-- `getDatabasePath` for a clean directory and an id that is one path element -/
def dbPath (dir id : Bytes) : Bytes := dir ++ 47 :: (id ++ [46, 100, 98])   -- dir/id.db

/-- an id that `filepath.Join` keeps as it is: one path element -/
def OneElement (id : Bytes) : Prop := id ≠ [] ∧ id ≠ [46] ∧ id ≠ [46, 46] ∧ 47 ∉ id

/-- a byte string without NUL, every element a byte -/
def Plain (p : Bytes) : Prop := ∀ b ∈ p, 0 < b ∧ b < 256

/-- what the theorems need of the function applied to the path before it is formatted into the DSN -/
structure GoodEscaper (esc : Bytes → Bytes) : Prop where
  noEnd : ∀ p, Plain p → ∀ b ∈ esc p, endsName b = false
  decodes : ∀ p, Plain p → pctDecode (esc p) = p

/-- the hand-written escaper of the kind the property check was once blind to: only `%` and `#` are encoded -/
def weakEscape : Bytes → Bytes
  | [] => []
  | b :: rest => if b = 37 then 37 :: 50 :: 53 :: weakEscape rest
                 else if b = 35 then 37 :: 50 :: 51 :: weakEscape rest
                 else b :: weakEscape rest

end Gluon.UserFiles
