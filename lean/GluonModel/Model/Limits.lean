/-
M-LIMITS — model of /repo/limits/imap.go (package `limits`), 64-bit arithmetic as written, and
an abstract machine for "check, then insert" as the callers in internal/state and
internal/backend do it.

```go
type IMAP struct { maxMailboxCount, maxMessageCountPerMailbox, maxUIDValidity, maxUID int64 }

func (i IMAP) CheckMailBoxCount(mailboxCount int) error {
	if int64(mailboxCount) >= i.maxMailboxCount { return ErrMaxMailboxCountReached } ; return nil }
func (i IMAP) CheckMailBoxMessageCount(existingCount int, newCount int) error {
	nextMessageCount := int64(existingCount) + int64(newCount)
	if nextMessageCount > i.maxMessageCountPerMailbox || nextMessageCount < int64(existingCount) { return Err… } ; return nil }
func (i IMAP) CheckUIDCount(existingUID imap.UID, newCount int) error {
	nextUIDCount := int64(existingUID) + int64(newCount)
	if nextUIDCount > i.maxUID || nextUIDCount < int64(existingUID) { return ErrMaxUIDReached } ; return nil }
func (i IMAP) CheckUIDValidity(uid imap.UID) error {
	if int64(uid) >= i.maxUIDValidity { return ErrMaxUIDValidityReached } ; return nil }
```

`int` is 64 bits on the platforms gluon runs on (the harness checks `strconv.IntSize == 64`), so
`int64(x)` of an `int` is the identity; `imap.UID` is `uint32`.  Go's `+` on `int64` wraps
(two's complement): `wrap64`.  Arguments are `Int`s in the int64 range / `Nat`s in the uint32
range — the theorems carry those ranges as hypotheses.
-/
namespace Gluon.Limits

/-- two's-complement wrap of a mathematical integer into int64 -/
def wrap64 (x : Int) : Int := (x + 2 ^ 63) % 2 ^ 64 - 2 ^ 63

def isInt64 (x : Int) : Prop := -(2 : Int) ^ 63 ≤ x ∧ x < 2 ^ 63

structure IMAP where
  maxMailboxCount : Int
  maxMessageCountPerMailbox : Int
  maxUIDValidity : Int
  maxUID : Int
deriving DecidableEq, Repr

/-- `NewIMAPLimits(maxMailboxCount uint32, maxMessageCount uint32, maxUID imap.UID, maxUIDValidity imap.UID)` -/
def newIMAPLimits (maxMailboxCount maxMessageCount maxUID maxUIDValidity : Nat) : IMAP :=
  { maxMailboxCount := maxMailboxCount, maxMessageCountPerMailbox := maxMessageCount,
    maxUIDValidity := maxUIDValidity, maxUID := maxUID }

/-- `DefaultLimits()` on a 64-bit platform: everything `math.MaxUint32` -/
def defaultLimits : IMAP :=
  { maxMailboxCount := 4294967295, maxMessageCountPerMailbox := 4294967295,
    maxUIDValidity := 4294967295, maxUID := 4294967295 }

inductive Err where
  | maxMailboxCount | maxMailboxMessageCount | maxUID | maxUIDValidity
deriving DecidableEq, Repr

def checkMailBoxCount (l : IMAP) (mailboxCount : Int) : Option Err :=
  if mailboxCount ≥ l.maxMailboxCount then some .maxMailboxCount else none

def checkMailBoxMessageCount (l : IMAP) (existingCount newCount : Int) : Option Err :=
  let next := wrap64 (existingCount + newCount)
  if next > l.maxMessageCountPerMailbox ∨ next < existingCount then some .maxMailboxMessageCount else none

def checkUIDCount (l : IMAP) (existingUID : Nat) (newCount : Int) : Option Err :=
  let next := wrap64 ((existingUID : Int) + newCount)
  if next > l.maxUID ∨ next < (existingUID : Int) then some .maxUID else none

def checkUIDValidity (l : IMAP) (uid : Nat) : Option Err :=
  if (uid : Int) ≥ l.maxUIDValidity then some .maxUIDValidity else none

/-! ### "check, then insert": the callers

One user; `mailboxes` = number of mailboxes, and one mailbox under observation with `count`
messages and `uidNext` (= `GetMailboxMessageCountAndUID`: COUNT(*) and `seq + 1`).

* `create parents` — `State.Create` / connector `CreateMailbox`: inside the write transaction,
  `CheckMailBoxCount(mailboxCount)` with `mailboxCount = GetMailboxCount()` (room for one more), then —
  once the list `mboxesToCreate` of the `parents` missing superiors and the named mailbox is complete and
  before the first `actionCreateMailbox` (which is what tells the connector) —
  `CheckMailBoxCount(mailboxCount + len(mboxesToCreate) - 1)` (room for all of them: the check refuses
  when its argument is `≥` the maximum, so the argument is the count *before* the last one is added);
  then the named mailbox and all `parents` missing superiors are created.  A refusal of either check is an
  error return of the transaction body before anything was created.
* `renameParents parents` — `State.Rename`: once the list of the missing superiors of the NEW name is complete
  (`newMailboxes := len(mboxesToCreate)`, plus one when INBOX is renamed: `renameInbox` creates the mailbox that
  takes over its messages — count it in `parents`), and before the loop that creates them (connector
  `CreateMailbox` + `CreateMailboxIfNotExists`): `if newMailboxes > 0 { CheckMailBoxCount(GetMailboxCount() +
  newMailboxes - 1) }` — room for all of them; with nothing to create no check is made (the renamed mailbox
  exists already) and the count does not change.  A refusal is an error return of the transaction body before
  anything was created or renamed.
* `addTx n` — `AddMessagesToMailbox` / `MoveMessagesFromMailbox` (COPY, MOVE, connector batches):
  count and UID are read and checked inside the transaction that inserts the `n` messages.
* `replaceTx k n` — COPY / MOVE of `n` messages of which `k` already have a copy in the destination
  (`State.actionAddMessagesToMailbox`, `State.actionMoveMessages`): inside ONE write transaction the
  `k` stale copies are removed first (`actionRemoveMessagesFromMailboxUnchecked`), then count and
  UIDNEXT are read and both checks are made with the FULL `n = len(messageIDs)` (a replaced copy gets
  a fresh UID, so it consumes a UID although it takes no additional room), then the `n` messages are
  inserted.  A refusal is an error return of the transaction body: the removal is rolled back with it.
* `check sid n` / `insert sid` — `Mailbox.AppendRegular`: the checks run in a read transaction
  (`stateDBRead`), the insert (`actionCreateMessage` → `CreateMessageAndAddToMailbox`) in a later
  write transaction without a check; other sessions' steps may come in between.
* `remove k`, `deleteMailbox` — expunge / DELETE, so that histories can approach the limit repeatedly.
-/

inductive Ev where
  | create (parents : Nat)
  | renameParents (parents : Nat)
  | addTx (n : Nat)
  | replaceTx (k : Nat) (n : Nat)
  | check (sid : Nat) (n : Nat)
  | insert (sid : Nat)
  | remove (k : Nat)
  | deleteMailbox
deriving DecidableEq, Repr

structure World where
  mailboxes : Nat
  count : Nat
  uidNext : Nat
  passed : List (Nat × Nat)    -- (session, n): sessions whose AppendRegular check passed and that have not inserted yet
deriving DecidableEq, Repr

def msgChecks (l : IMAP) (w : World) (n : Nat) : Bool :=
  (checkMailBoxMessageCount l w.count n).isNone && (checkUIDCount l w.uidNext n).isNone

def step (l : IMAP) (w : World) : Ev → World
  | .create parents =>
    if (checkMailBoxCount l w.mailboxes).isNone
        && (checkMailBoxCount l ((w.mailboxes : Int) + ((parents : Int) + 1) - 1)).isNone then
      { w with mailboxes := w.mailboxes + parents + 1 }
    else w
  | .renameParents parents =>
    if parents > 0 && !(checkMailBoxCount l ((w.mailboxes : Int) + (parents : Int) - 1)).isNone then w
    else { w with mailboxes := w.mailboxes + parents }
  | .addTx n =>
    if msgChecks l w n then { w with count := w.count + n, uidNext := w.uidNext + n } else w
  | .replaceTx k n =>
    if msgChecks l { w with count := w.count - k } n then
      { w with count := w.count - k + n, uidNext := w.uidNext + n }
    else w
  | .check sid n =>
    if msgChecks l w n then { w with passed := (sid, n) :: w.passed.filter (·.1 != sid) }
    else { w with passed := w.passed.filter (·.1 != sid) }
  | .insert sid =>
    match w.passed.lookup sid with
    | some n => { w with count := w.count + n, uidNext := w.uidNext + n, passed := w.passed.filter (·.1 != sid) }
    | none => w
  | .remove k => { w with count := w.count - k }
  | .deleteMailbox => { w with mailboxes := w.mailboxes - 1 }

def runEvs (l : IMAP) : List Ev → World → World
  | [], w => w
  | e :: rest, w => runEvs l rest (step l w e)

/-- the property: counts and UIDs within the configured maxima.  (`uidNext ≤ maxUID`: the
    highest UID in use is `uidNext - 1`.) -/
def Within (l : IMAP) (w : World) : Prop :=
  (w.mailboxes : Int) ≤ l.maxMailboxCount ∧ (w.count : Int) ≤ l.maxMessageCountPerMailbox ∧
    (w.uidNext : Int) ≤ l.maxUID

instance (l : IMAP) (w : World) : Decidable (Within l w) := by unfold Within; infer_instance

/-- schedule discipline behind `ChecksInsideTx`; `pending` = the session whose check has just run -/
def CheckThenInsert : (pending : Option Nat) → List Ev → Prop
  | _, [] => True
  | none, .check s _ :: rest => CheckThenInsert (some s) rest
  | none, .insert _ :: _ => False
  | none, _ :: rest => CheckThenInsert none rest
  | some s, .insert s' :: rest => s = s' ∧ CheckThenInsert none rest
  | some _, _ :: _ => False

/-- **Named hypothesis `ChecksInsideTx`**: every out-of-transaction check is immediately followed by
    its own session's insert (nothing is scheduled in between), and no insert happens otherwise —
    i.e. check and insert behave as one transaction. -/
def ChecksInsideTx (evs : List Ev) : Prop := CheckThenInsert none evs

/-- every state the history passes through -/
def trace (l : IMAP) : List Ev → World → List World
  | [], _ => []
  | e :: rest, w => step l w e :: trace l rest (step l w e)

/-- the maxima of every `IMAP` value that can be built through the public API are uint32 values -/
def U32Limits (l : IMAP) : Prop :=
  0 ≤ l.maxMailboxCount ∧ l.maxMailboxCount < 2 ^ 32 ∧
  0 ≤ l.maxMessageCountPerMailbox ∧ l.maxMessageCountPerMailbox < 2 ^ 32 ∧
  0 ≤ l.maxUID ∧ l.maxUID < 2 ^ 32 ∧ 0 ≤ l.maxUIDValidity ∧ l.maxUIDValidity < 2 ^ 32

instance (l : IMAP) : Decidable (U32Limits l) := by unfold U32Limits; infer_instance

/-- list lengths and counts are Go `int`s -/
def EvsInt64 : List Ev → Prop
  | [] => True
  | .addTx n :: rest => (n : Int) < 2 ^ 63 ∧ EvsInt64 rest
  | .replaceTx _ n :: rest => (n : Int) < 2 ^ 63 ∧ EvsInt64 rest
  | .check _ n :: rest => (n : Int) < 2 ^ 63 ∧ EvsInt64 rest
  | _ :: rest => EvsInt64 rest


/-! ### a batch cut into slices (what the source does NOT do — `Generated/Facts/UpdateTx.lean`)

`applyMessagesCreated` carries a whole `MessagesCreated` update, however long, in ONE write
transaction: the limit checks (`addTx n`, with the full `n`) are made inside it and a refusal rolls
everything back.  `addSlices` is the alternative a reader of the SQL layer might expect — the update
cut into pieces (`xslices.Chunk(update.Messages, db.ChunkLimit)`), one transaction per piece, stop at
the first refusal: the pieces committed before the limit is hit stay.  It is here so that the
theorems can say what the difference is and when it shows (`C17.sliced_batch_partial_effect_witness`,
`C17.sliced_same_when_whole_fits`). -/

/-- one `addTx` per slice, stopping at the first refused one -/
def addSlices (l : IMAP) : World → List Nat → World
  | w, [] => w
  | w, k :: ks => if msgChecks l w k then addSlices l (step l w (.addTx k)) ks else w

/-- lengths of the slices `xslices.Chunk` cuts a list of `n` elements into (`fuel ≥ n` suffices) -/
def sliceSizesAux (L : Nat) : Nat → Nat → List Nat
  | 0, _ => []
  | fuel + 1, n => if n == 0 then [] else if L == 0 || n ≤ L then [n] else L :: sliceSizesAux L fuel (n - L)

def sliceSizes (L n : Nat) : List Nat := sliceSizesAux L n n

end Gluon.Limits
