/-
Model of imap/params.go (the parenthesised-list writer behind ENVELOPE / BODY / BODYSTRUCTURE)
and a small s-expression reader for the *lenient* IMAP list grammar (DESIGN.md finding #20):
balanced lists, `"`-delimited strings with backslash escapes, atoms, numbers, NIL, `{n}` literals.

The quoting function (`strconv.Quote`) is a parameter `q`.  A tree of writer calls is a
`List Call`; `Call.ext = true` marks a call made on `toSingleWriterFrom2nd()` (goes to
BODYSTRUCTURE only), the `firstItem` state is shared between both outputs as in the Go code.
-/
import GluonModel.Model.MimeScan

namespace Gluon.Mime

def SP : UInt8 := 32
def DQ : UInt8 := 34
def LP : UInt8 := 40
def RP : UInt8 := 41
def BSL : UInt8 := 92
def LBR : UInt8 := 123
def RBR : UInt8 := 125
def NIL : Bytes := [78, 73, 76]

/-! ### writer calls -/

inductive Call where
  /-- `c.addString(w, v)` -/
  | str (ext : Bool) (v : Bytes)
  /-- `c.addNumber(w, n)` -/
  | num (ext : Bool) (n : Nat)
  /-- `w.writeByte(' ')` -/
  | sp (ext : Bool)
  /-- `c.onWrite(w)` -/
  | onWrite (ext : Bool)
  /-- `cl := c.newChildList(w); …body on cl…; cl.finish(w)` -/
  | child (ext : Bool) (body : List Call)
  deriving Repr

/-- `strconv.Itoa` for a non-negative number -/
def natDigitsAux : Nat → Nat → Bytes → Bytes
  | 0, _, acc => acc
  | fuel + 1, n, acc =>
    let acc' := UInt8.ofNat (48 + n % 10) :: acc
    if n / 10 = 0 then acc' else natDigitsAux fuel (n / 10) acc'

def natDigits (n : Nat) : Bytes := natDigitsAux (n + 1) n []

/-- is a call on writer `ext` visible in this output?  `hide` = this is the first builder
    (BODY), which does not see `toSingleWriterFrom2nd()` writes. -/
def vis (hide ext : Bool) : Bool := !(hide && ext)

/-- `c.firstItem` after the call (`writeByte` does not touch the list state) -/
def Call.nextFirst (first : Bool) : Call → Bool
  | .sp _ => first
  | _ => false

/-- what `onWrite` writes -/
def sep (first : Bool) : Bytes := if first then [] else [SP]

mutual
  /-- bytes one call appends to the output (`first` = `c.firstItem` before the call) -/
  def Call.write (q : Bytes → Bytes) (hide : Bool) : Bool → Call → Bytes
    | first, .str ext v =>
      if vis hide ext then sep first ++ (if v.length = 0 then NIL else q v) else []
    | first, .num ext n => if vis hide ext then sep first ++ natDigits n else []
    | _, .sp ext => if vis hide ext then [SP] else []
    | first, .onWrite ext => if vis hide ext then sep first else []
    | _, .child ext body =>
      if vis hide ext then [LP] ++ Call.writeList q hide true body ++ [RP] else []
  def Call.writeList (q : Bytes → Bytes) (hide : Bool) : Bool → List Call → Bytes
    | _, [] => []
    | first, c :: cs => Call.write q hide first c ++ Call.writeList q hide (c.nextFirst first) cs
end

/-! ### the reader -/

inductive Tok where
  | lp | rp
  | str (raw : Bytes)      -- bytes between the quotes, escapes not interpreted
  | atom (raw : Bytes)
  | lit (data : Bytes)
  deriving Repr, DecidableEq

inductive Sexp where
  | nil
  | num (digits : Bytes)
  | atom (raw : Bytes)
  | str (raw : Bytes)
  | lit (data : Bytes)
  | list (items : List Sexp)
  deriving Repr

inductive LexSt where
  | idle
  | atom (acc : Bytes)
  | str (acc : Bytes) (esc : Bool)
  | litN (n : Nat)
  | litCR (n : Nat)
  | litLF (n : Nat)
  | lit (n : Nat) (acc : Bytes)

def isDigit (c : UInt8) : Bool := 48 ≤ c.toNat && c.toNat ≤ 57

/-- one pass over the text; `none` = malformed (unterminated string / literal) -/
def lex : LexSt → Bytes → Option (List Tok)
  | .idle, [] => some []
  | .atom a, [] => some [.atom a.reverse]
  | .str _ _, [] => none
  | .litN _, [] => none
  | .litCR _, [] => none
  | .litLF _, [] => none
  | .lit _ _, [] => none
  | .idle, c :: cs =>
    if c == SP then lex .idle cs
    else if c == LP then (lex .idle cs).map (Tok.lp :: ·)
    else if c == RP then (lex .idle cs).map (Tok.rp :: ·)
    else if c == DQ then lex (.str [] false) cs
    else if c == LBR then lex (.litN 0) cs
    else lex (.atom [c]) cs
  | .atom a, c :: cs =>
    if c == SP then (lex .idle cs).map (Tok.atom a.reverse :: ·)
    else if c == LP then (lex .idle cs).map (fun t => Tok.atom a.reverse :: Tok.lp :: t)
    else if c == RP then (lex .idle cs).map (fun t => Tok.atom a.reverse :: Tok.rp :: t)
    else if c == DQ then (lex (.str [] false) cs).map (Tok.atom a.reverse :: ·)
    else lex (.atom (c :: a)) cs
  | .str a esc, c :: cs =>
    if esc then lex (.str (c :: a) false) cs
    else if c == BSL then lex (.str (c :: a) true) cs
    else if c == DQ then (lex .idle cs).map (Tok.str a.reverse :: ·)
    else lex (.str (c :: a) false) cs
  | .litN n, c :: cs =>
    if isDigit c then lex (.litN (n * 10 + (c.toNat - 48))) cs
    else if c == RBR then lex (.litCR n) cs
    else none
  | .litCR n, c :: cs => if c == CR then lex (.litLF n) cs else none
  | .litLF n, c :: cs =>
    if c == LF then (if n = 0 then (lex .idle cs).map (Tok.lit [] :: ·) else lex (.lit n []) cs) else none
  | .lit n a, c :: cs =>
    if n ≤ 1 then (lex .idle cs).map (Tok.lit (c :: a).reverse :: ·) else lex (.lit (n - 1) (c :: a)) cs

def classify (raw : Bytes) : Sexp :=
  if raw == NIL then .nil
  else if raw.all isDigit then .num raw
  else .atom raw

/-- token list → items; `stack` holds the enclosing lists' items read so far (reversed) -/
def parseToks : List (List Sexp) → List Sexp → List Tok → Option (List Sexp)
  | [], cur, [] => some cur.reverse
  | _ :: _, _, [] => none
  | st, cur, .lp :: ts => parseToks (cur :: st) [] ts
  | [], _, .rp :: _ => none
  | p :: st, cur, .rp :: ts => parseToks st (.list cur.reverse :: p) ts
  | st, cur, .atom a :: ts => parseToks st (classify a :: cur) ts
  | st, cur, .str s :: ts => parseToks st (.str s :: cur) ts
  | st, cur, .lit d :: ts => parseToks st (.lit d :: cur) ts

/-- the sequence of items a text denotes, `none` if it is not well-formed -/
def parseSexp (b : Bytes) : Option (List Sexp) := (lex .idle b).bind (parseToks [] [])

/-- a well-formed parenthesised list: exactly one item, and it is a list -/
def isParenList (b : Bytes) : Bool :=
  match parseSexp b with
  | some [.list _] => true
  | _ => false

/-! ### what the writer's output should denote -/

/-- the bytes between the outer quotes of a quoted string -/
def unq (b : Bytes) : Bytes := (b.drop 1).dropLast

mutual
  def Call.shape (q : Bytes → Bytes) (hide : Bool) : Call → List Sexp
    | .str ext v =>
      if vis hide ext then [if v.length = 0 then Sexp.nil else Sexp.str (unq (q v))] else []
    | .num ext n => if vis hide ext then [Sexp.num (natDigits n)] else []
    | .sp _ => []
    | .onWrite _ => []
    | .child ext body => if vis hide ext then [Sexp.list (Call.shapeList q hide body)] else []
  def Call.shapeList (q : Bytes → Bytes) (hide : Bool) : List Call → List Sexp
    | [] => []
    | c :: cs => Call.shape q hide c ++ Call.shapeList q hide cs
end

/-- inside of a quoted string: no unescaped `"`, does not end in a dangling backslash -/
def strBodyOK : Bool → Bytes → Bool
  | esc, [] => !esc
  | true, _ :: cs => strBodyOK false cs
  | false, c :: cs => if c == BSL then strBodyOK true cs else if c == DQ then false else strBodyOK false cs

/-- executable form of the hypothesis on one output of the quoting function -/
def quotedOK (b : Bytes) : Bool :=
  2 ≤ b.length && b.head? == some DQ && b.getLast? == some DQ && strBodyOK false (unq b)

/-- **QuoteOK**: the quoting function returns `"`…`"` with no unescaped `"` inside -/
def QuoteOK (q : Bytes → Bytes) : Prop := ∀ v, quotedOK (q v) = true

/-! ### derived writer calls (imap/params.go) -/

/-- `c.addMap(w, m)`; `m` = the map's entries in sorted key order -/
def addMap (ext : Bool) (m : List (Bytes × Bytes)) : List Call :=
  [.onWrite ext, .child ext (m.flatMap fun kv => [.str ext kv.1, .str ext kv.2])]

structure Addr where
  name : Bytes
  address : Bytes
  deriving Repr

/-- `strings.Split(s, "@")` -/
def splitAt : Bytes → List Bytes
  | [] => [[]]
  | c :: cs =>
    match splitAt cs with
    | [] => [[c]]
    | p :: ps => if c == 64 then [] :: p :: ps else (c :: p) :: ps

/-- `c.addAddresses(w, v)` -/
def addAddresses (ext : Bool) (v : List Addr) : List Call :=
  [.onWrite ext, .child ext (v.map fun a =>
    let ud : Bytes × Bytes := match splitAt a.address with
      | [u, d] => (u, d)
      | _ => ([], [])
    .child ext [.str ext a.name, .str ext [], .str ext ud.1, .str ext ud.2])]

end Gluon.Mime
