/-
M-STORE: model of the on-disk message store (store/disk.go, store/fallback.go, store/store.go).

File format, as `onDiskStore.Set` writes it:

    file = storeHeaderBytes ++ nonce ++ seal(b₀) ++ seal(b₁) ++ …      b₀ b₁ … = cut blockSize (lz4 frame of the content)

Every block is sealed with `gcm.Seal(_, nonce, block, nil)`: the *same* nonce for all blocks of a
file, no additional data (no block index, no block count, no total length).

`onDiskStore.Get`, statement by statement:

  * `io.ReadFull(file, header)` — empty file: `io.EOF`; shorter than the header:
    `io.ErrUnexpectedEOF` (then, and on a header mismatch, the optional `Fallback` reader is tried);
  * `io.ReadFull(file, nonce)` — "failed to read nonce";
  * a goroutine `file.Read`s pieces of `blockSize + Overhead` bytes (regular file: full pieces,
    the last one shorter; 0 bytes + `io.EOF` ends the loop and *closes* the pipe writer, which
    the LZ4 reader sees as end of stream), `gcm.Open`s each piece and writes the plain text into an
    `io.Pipe`; the first piece that does not open closes the pipe with an error instead;
  * `lz4.NewReader(pipe).WriteTo(&b)` consumes that stream; **`io.EOF` from `WriteTo` is
    swallowed** (`if !errors.Is(err, io.EOF) { return nil, err }`) and `b.Bytes()` is returned.

So what `Get` returns is a function of (plain-text prefix up to the first piece that fails to open,
how the stream ended: clean end `Term.eof` or pipe error `Term.fail`).  AES-GCM and the LZ4 frame
codec are *parameters* (`Prims`): `aeadSeal/aeadOpen` = `gcm.Seal/gcm.Open`, `compress` = the frame the
`lz4.Writer` produces with the options of `Set`, `decode p t` = what `lz4.Reader.WriteTo` does on a
source that yields `p` and then ends as `t`.  Their laws are hypotheses (structures of `Prop`s
below), never axioms.

Bytes are modelled as `Nat`s (`Byte := Nat`): nothing in the model depends on a byte being below
256, so every theorem about `List Nat` covers all byte strings.

Not modelled: OS errors (`MkdirAll`, `OpenFile`, short writes, a read error with 0 bytes read — which
the reader goroutine treats like end of file), `Set` being non-atomic on disk (`O_TRUNC`, then one
`write` per block: what a crash leaves is covered by the truncation theorems), the optional
`Semaphore` (limits concurrency only), files in the directory that are not message ids.  A `Set` whose reader
fails is `Store.setInterrupted`; the directory while a `Set` is in progress is `Store.setInFlight`.
Core Lean only.
-/
namespace Gluon.Store

abbrev Byte := Nat
abbrev Bytes := List Byte
/-- `imap.InternalMessageID` (a UUID); file name in the store directory. -/
abbrev Id := Nat

/-- How the plain-text stream handed to the LZ4 reader ends. -/
inductive Term where
  | eof    -- pipe writer closed normally: the LZ4 reader's next read returns `io.EOF`
  | fail   -- `writer.CloseWithError(decrypt error)`: the next read returns that error
deriving DecidableEq, Repr

/-- Result of `lz4.Reader.WriteTo(&b)`. -/
inductive Dec where
  | done (out : Bytes)    -- returned `nil`; `out` was written to the buffer
  | ioEOF (out : Bytes)   -- returned `io.EOF` after writing `out` (in fact only before any output)
  | bad                   -- returned any other error
deriving DecidableEq, Repr

/-- The cryptographic and compression primitives, abstract.  `Key` = what `NewCipher(pass)` derives. -/
structure Prims (Key : Type) where
  nonceSize : Nat                                -- `gcm.NonceSize()`
  overhead : Nat                                 -- `gcm.Overhead()`
  aeadSeal : Key → Bytes → Bytes → Bytes             -- `gcm.Seal(nil, nonce, plain, nil)`  (key, nonce, plain)
  aeadOpen : Key → Bytes → Bytes → Option Bytes    -- `gcm.Open(nil, nonce, piece, nil)`
  compress : Bytes → Bytes                       -- LZ4 frame (Block64Kb, no content checksum)
  decode : Bytes → Term → Dec                    -- `lz4.NewReader(src).WriteTo`

/-- Constants and switches of store/disk.go (values regenerated into `Generated/Facts/Store.lean`). -/
structure Config where
  header : Bytes                                 -- `storeHeaderBytes`
  blockSize : Nat                                -- `blockSize`
  swallowEOF : Bool                              -- `Get` ignores `io.EOF` from `WriteTo`
  fallback : Option (Bytes → Option Bytes)       -- `WithFallback`; `none` for `NewOnDiskStore(path, pass)`

inductive Err where
  | notFound   -- os.Open / os.Remove: no such file
  | short      -- io.EOF / io.ErrUnexpectedEOF reading the header
  | notValid   -- "file is not a valid store file"
  | nonce      -- "failed to read nonce"
  | corrupt    -- "failed to decrypt block" or an LZ4 error
  | fallback   -- "failed to read from fallback"
deriving DecidableEq, Repr

inductive Res where
  | ok (b : Bytes)
  | err (e : Err)
deriving DecidableEq, Repr

/-! ### `Set`: cutting the compressed stream into blocks -/

/-- The write loop of `Set`: `io.ReadAtLeast(reader, compressedBlock, blockSize)` until `io.EOF`.
    Pieces of exactly `n` bytes, the last one shorter; nothing for an empty stream.
    (`fuel` = length of the stream; for `n = 0` the Go loop would not terminate, the model stops.) -/
def cutAux : Nat → Nat → Bytes → List Bytes
  | 0, _, _ => []
  | fuel + 1, n, l => if l.isEmpty then [] else l.take n :: cutAux fuel n (l.drop n)

def cut (n : Nat) (l : Bytes) : List Bytes := cutAux l.length n l

/-- The bytes `Set` writes for content `b` with the nonce it drew. -/
def encode {K : Type} (cfg : Config) (P : Prims K) (k : K) (nonce b : Bytes) : Bytes :=
  cfg.header ++ nonce ++ ((cut cfg.blockSize (P.compress b)).map (P.aeadSeal k nonce)).flatten

/-- `header.length + nonce + stream + one overhead per block`, as a function of the compressed length. -/
def fileSize (headerLen nonceLen blockSize overhead clen : Nat) : Nat :=
  headerLen + nonceLen + clen + overhead * ((clen + blockSize - 1) / blockSize)

/-! ### `Get` -/

/-- The reader goroutine: open piece after piece, stop at the first one that does not open.
    That piece ends the stream with an error (`.fail` = `writer.CloseWithError(decrypt error)`),
    not with a plain end of file: regenerated from the source as `Facts.Store.openFailureFailsPipe`
    (theorem `C09.open_failure_is_pipe_error`). -/
def openPrefix (f : Bytes → Option Bytes) : List Bytes → List Bytes × Term
  | [] => ([], .eof)
  | c :: cs =>
    match f c with
    | none => ([], .fail)
    | some p => (p :: (openPrefix f cs).1, (openPrefix f cs).2)

/-- What `Get` makes of the LZ4 reader's result. -/
def finish (cfg : Config) : Dec → Res
  | .done out => .ok out
  | .ioEOF out => if cfg.swallowEOF then .ok out else .err .corrupt
  | .bad => .err .corrupt

def viaFallback (cfg : Config) (file : Bytes) (otherwise : Err) : Res :=
  match cfg.fallback with
  | none => .err otherwise
  | some fb => match fb file with
    | some b => .ok b
    | none => .err .fallback

/-- `Get` on the bytes of an existing file. -/
def decodeFile {K : Type} (cfg : Config) (P : Prims K) (k : K) (file : Bytes) : Res :=
  let hl := cfg.header.length
  if file.length < hl then
    -- io.ReadFull: io.EOF on an empty file (returned as is), io.ErrUnexpectedEOF otherwise (fallback tried)
    if file.isEmpty then .err .short else viaFallback cfg file .short
  else if file.take hl ≠ cfg.header then viaFallback cfg file .notValid
  else
    let rest := file.drop hl
    if rest.length < P.nonceSize then .err .nonce
    else
      let nonce := rest.take P.nonceSize
      let body := rest.drop P.nonceSize
      let r := openPrefix (P.aeadOpen k nonce) (cut (cfg.blockSize + P.overhead) body)
      finish cfg (P.decode r.1.flatten r.2)

/-! ### The directory: a map id → bytes -/

structure FS where
  files : List (Id × Bytes)
deriving Repr

namespace FS
def empty : FS := ⟨[]⟩
def read (fs : FS) (id : Id) : Option Bytes := fs.files.lookup id
def remove (fs : FS) (id : Id) : FS := ⟨fs.files.filter (fun e => e.1 != id)⟩
/-- `os.OpenFile(O_CREATE|O_TRUNC)` + writes: the old content is gone. -/
def write (fs : FS) (id : Id) (data : Bytes) : FS := ⟨(id, data) :: (fs.remove id).files⟩
def ids (fs : FS) : List Id := fs.files.map (·.1)
/-- at most one file per name -/
def WF (fs : FS) : Prop := fs.ids.Nodup
end FS

/-- An `onDiskStore`: configuration, primitives, the key derived from the passphrase. -/
structure Store (K : Type) where
  cfg : Config
  P : Prims K
  key : K

namespace Store
variable {K : Type}

/-- `Set(id, reader)`; `nonce` is what `rand.Read` produced. -/
def set (s : Store K) (nonce : Bytes) (fs : FS) (id : Id) (b : Bytes) : FS :=
  fs.write id (encode s.cfg s.P s.key nonce b)

def get (s : Store K) (fs : FS) (id : Id) : Res :=
  match fs.read id with
  | none => .err .notFound
  | some file => decodeFile s.cfg s.P s.key file

/-- `Delete(ids...)`: `os.Remove` one after the other, stops at the first error. -/
def delete (fs : FS) : List Id → FS × Option Err
  | [] => (fs, none)
  | id :: rest =>
    match fs.read id with
    | none => (fs, some .notFound)
    | some _ => delete (fs.remove id) rest

/-- `List()`: the names in the directory (order: see the dialect, compared as sorted lists). -/
def list (fs : FS) : List Id := fs.ids

/-- `Set(id, reader)` while it is in progress: `os.OpenFile(fullPath, O_RDWR|O_CREATE|O_TRUNC)` has created
    (or emptied) the file *under the id's own name* and `written` is what has been written to it so far (nothing,
    the header, header ++ nonce, … ++ some sealed blocks).  No other name appears in the directory at any point
    of a `Set`. -/
def setInFlight (fs : FS) (id : Id) (written : Bytes) : FS := fs.write id written

/-- `Set(id, reader)` whose reader failed (or whose process died) after the write loop had sealed and written the
    full blocks `done` of the compressed stream: the loop `return`s the error without writing the incomplete
    block, nothing removes the file.  What is left is header ++ nonce ++ the sealed blocks written so far. -/
def setInterrupted (s : Store K) (nonce : Bytes) (fs : FS) (id : Id) (done : List Bytes) : FS :=
  fs.write id (s.cfg.header ++ nonce ++ (done.map (s.P.aeadSeal s.key nonce)).flatten)

/-! ### Histories: what a sequence of calls returns -/

/-- One call of the store API (`nonce` = what `rand.Read` produced in that `Set`). -/
inductive Op where
  | set (id : Id) (nonce b : Bytes)
  | get (id : Id)
  | delete (ids : List Id)
  | list
deriving DecidableEq, Repr

/-- What the call returned.  `got (.ok b)` carries the returned bytes *as a value*: `Get` returns a slice of a
    buffer it allocated for this call (`var b bytes.Buffer … return b.Bytes(), nil`), nobody else holds it. -/
inductive Out where
  | done                         -- `Set` returned nil
  | got (r : Res)                -- `Get`
  | deleted (e : Option Err)     -- `Delete`
  | ids (l : List Id)            -- `List`
deriving DecidableEq, Repr

def step (s : Store K) (fs : FS) : Op → FS × Out
  | .set id nonce b => (s.set nonce fs id b, .done)
  | .get id => (fs, .got (s.get fs id))
  | .delete ids => ((delete fs ids).1, .deleted (delete fs ids).2)
  | .list => (fs, .ids (list fs))

/-- the directory after a history -/
def final (s : Store K) : FS → List Op → FS
  | fs, [] => fs
  | fs, op :: rest => final s (s.step fs op).1 rest

/-- what the calls of a history returned, in order -/
def run (s : Store K) : FS → List Op → List Out
  | _, [] => []
  | fs, op :: rest => (s.step fs op).2 :: run s (s.step fs op).1 rest

end Store

/-! ### Hypotheses about the primitives (structures of propositions, used as explicit premises) -/

variable {K : Type}

/-- What the round trip needs. -/
structure Laws (P : Prims K) : Prop where
  /-- `gcm.Open` inverts `gcm.Seal` under the same key and nonce -/
  open_seal : ∀ k n x, P.aeadOpen k n (P.aeadSeal k n x) = some x
  /-- `Seal` appends exactly `Overhead()` bytes -/
  seal_length : ∀ k n x, (P.aeadSeal k n x).length = x.length + P.overhead
  /-- the LZ4 reader inverts the LZ4 writer on a complete frame followed by end of stream -/
  decode_compress : ∀ b, P.decode (P.compress b) .eof = .done b

/-- Idealised AEAD integrity (a computational assumption about AES-GCM, stated as if it were exact). -/
structure AEAD (P : Prims K) : Prop where
  /-- `Open` succeeds only on outputs of `Seal` under the same key and nonce -/
  open_only_sealed : ∀ k n c x, P.aeadOpen k n c = some x → c = P.aeadSeal k n x
  /-- what was sealed under one (key, nonce) does not open under another -/
  open_other : ∀ k n k' n' x, n.length = P.nonceSize → n'.length = P.nonceSize →
    (k ≠ k' ∨ n ≠ n') → P.aeadOpen k' n' (P.aeadSeal k n x) = none

/-- The LZ4 reader is a sequential reader that finishes exactly at the end mark
    (true of pierrec/lz4 v4 as `Get` uses it; checked by the oracle, not proved). -/
structure LZ4Seq (P : Prims K) : Prop where
  /-- it does not read past the end mark: a later pipe error is never seen -/
  stops_at_end : ∀ b, P.decode (P.compress b) .fail = .done b
  /-- before the end mark it cannot finish: a pipe error after a strict prefix of a frame is an error -/
  no_early_end : ∀ b p, p <+: P.compress b → p ≠ P.compress b → P.decode p .fail = .bad
  /-- a frame is never empty (magic, descriptor, end mark) -/
  frame_nonempty : ∀ b, P.compress b ≠ []

/-- `lz4.Reader.WriteTo` on a source that is at end of file immediately returns `io.EOF`
    (observed on the real reader; the reason a file cut after the nonce reads back as empty). -/
def EmptyIsEOF (P : Prims K) : Prop := P.decode [] .eof = .ioEOF []

/-- `c` is not something `Seal` produces under `(k, n)`: the assumption that whoever altered the
    file cannot forge a ciphertext. -/
def Unforged (P : Prims K) (k : K) (n c : Bytes) : Prop := ∀ x, c ≠ P.aeadSeal k n x

/-- Shape of the block list `Set` produces: all blocks full, the last one non-empty and at most full. -/
def Shaped (n : Nat) : List Bytes → Prop
  | [] => True
  | [p] => 0 < p.length ∧ p.length ≤ n
  | p :: q :: rest => p.length = n ∧ Shaped n (q :: rest)

end Gluon.Store
