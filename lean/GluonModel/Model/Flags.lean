/-
M-FLAGS: model of `imap.FlagSet` (imap/flags.go).

A Go `FlagSet` is a map lower-case key -> first-seen spelling.  Everything the
server decides from a flag set depends on the key set only (`Contains*`,
`Equals`, `Len`), the spelling only shows in the response text.  The model keeps
the *key list* (lower-case, duplicate-free, in insertion order); the
correspondence harness lower-cases and sorts before comparing.
-/
namespace Gluon

abbrev Flag := String
abbrev Flags := List Flag

namespace Flags

def recent : Flag := "\\recent"
def deleted : Flag := "\\deleted"
def seen : Flag := "\\seen"

/-- `fs.ContainsUnchecked(key)` -/
def has (fs : Flags) (f : Flag) : Bool := fs.contains f

/-- `fs.add(flag)` for one (already lower-cased) key: no-op when present. -/
def add1 (fs : Flags) (f : Flag) : Flags := if fs.contains f then fs else fs ++ [f]

/-- `fs.Add(flags...)` / `AddFlagSet` -/
def add (fs : Flags) (gs : Flags) : Flags := gs.foldl add1 fs

/-- `fs.remove(flag)` for one key. -/
def remove1 (fs : Flags) (f : Flag) : Flags := fs.filter (· != f)

/-- `fs.Remove(flags...)` / `RemoveFlagSet` -/
def remove (fs : Flags) (gs : Flags) : Flags := gs.foldl remove1 fs

/-- `fs.Set(flag, on)` -/
def set (fs : Flags) (f : Flag) (on : Bool) : Flags := if on then add1 fs f else remove1 fs f

/-- `fs.Equals(other)`: same length and every key of `fs` in `other`. -/
def equals (fs gs : Flags) : Bool := fs.length == gs.length && fs.all (gs.contains ·)

/-- `NewFlagSet(flags...)`: duplicate-free key list. -/
def norm (fs : Flags) : Flags := add [] fs

end Flags
end Gluon
