/-
M-DB, part 1: the *shape* of a chunked SQL call site.

`internal/db_impl/sqlite3/{read,write}_ops.go` split every bulk statement with
`for _, chunk := range xslices.Chunk(X, N)`.  What such a loop does depends on three
things that are visible in the source text and that have been wrong before
(DESIGN.md section 9, #2 and #3):

* `N`           — `db.ChunkLimit`, `db.ChunkLimit/2`, …
* per statement — how many `?` the statement text has, as a polynomial in
                  `len(chunk)`, `len(X)` and other slice lengths, and
* per statement — which slice the bind arguments are taken from (`chunk` or the
                  un-chunked `X`) and how many there are.

`harness/facts_chunk.go` extracts these from /repo on every run and writes them to
`Generated/Facts/Chunk.lean` as values of the types below.  The model in
`Model/DB.lean` takes a `ChunkSite` as a *parameter* of every chunked operation and
evaluates it (so the model follows the code when a call site is repaired), and
`Theorems/C08*.lean` prove `model = un-chunked meaning` for every site that is
`wellBound`.  Core Lean only.
-/
namespace Gluon.DB

/-- Which Go slice an expression is built from. -/
inductive Src where
  | chunk     -- the loop variable
  | whole     -- the un-chunked slice `X` the loop ranges over
  | unknown   -- the translator could not tell (never defaults to the good case)
deriving DecidableEq, Repr, Inhabited

/-- `coef * Π len(atom)`.  Atoms: `"chunk"` (the loop variable), `"whole"` (the chunked
    slice), `"chunk/k"` (Go integer division of `len(chunk)`), any other Go identifier
    (a slice declared outside the loop, e.g. `flagSlice`), `"?"` = not understood. -/
structure Mono where
  coef : Nat
  atoms : List String
deriving DecidableEq, Repr, Inhabited

/-- A sum of monomials, in the normal form the translator emits (monomials sorted,
    atoms sorted, equal monomials merged). -/
abbrev Poly := List Mono

/-- One `ExecQuery` / `MapQueryRows…` call inside a chunk loop. -/
structure ChunkStmt where
  /-- number of `?` placeholders in the statement text -/
  ph : Poly
  /-- the slice the bind arguments are built from -/
  args : Src
  /-- number of bind arguments handed to the driver -/
  argc : Poly
deriving DecidableEq, Repr, Inhabited

/-- One `for _, chunk := range xslices.Chunk(X, N)` loop. -/
structure ChunkSite where
  fn : String
  file : String
  line : Nat
  /-- source text of `X` -/
  over : String
  /-- `N = db.ChunkLimit / limitDiv`; `0` = the translator did not understand `N` -/
  limitDiv : Nat
  /-- `1` normally; `k > 1` when `X` is a flat `[]any` that is only ever extended by
      `append(X, v₁, …, v_k)` (so `len(X)` is a multiple of `k`) — the inner loop of
      `CreateMessages` chunks such a list of `(message_id, flag)` pairs. -/
  stride : Nat
  stmts : List ChunkStmt
deriving DecidableEq, Repr, Inhabited

namespace Mono
def eval (env : String → Option Nat) (m : Mono) : Option Nat :=
  m.atoms.foldl (fun acc a => match acc, env a with
    | some x, some y => some (x * y)
    | _, _ => none) (some m.coef)
end Mono

namespace Poly
/-- Value of a count polynomial under an assignment of slice lengths; `none` if it
    mentions something the model does not know. -/
def eval (env : String → Option Nat) (p : Poly) : Option Nat :=
  p.foldl (fun acc m => match acc, m.eval env with
    | some x, some y => some (x + y)
    | _, _ => none) (some 0)
end Poly

/-- The statement a model operation asks for when the site has fewer statements than
    the model expects: nothing is known about it. -/
def ChunkStmt.unknown : ChunkStmt := { ph := [⟨1, ["?"]⟩], args := .unknown, argc := [⟨1, ["?"]⟩] }

/-- The site a model operation gets when the translator found no loop for it. -/
def ChunkSite.unknown (fn : String) : ChunkSite :=
  { fn := fn, file := "", line := 0, over := "", limitDiv := 0, stride := 1, stmts := [] }

namespace ChunkStmt
/-- Placeholders and bind arguments of one statement agree: the arguments come from the
    chunk and there are exactly as many as the statement has `?`.  For a flat list with
    stride `k` the idiom `Repeat("(?,…,?)", len(chunk)/k)` (k placeholders per tuple)
    against `chunk...` is accepted: `k * (len(chunk)/k) = len(chunk)` because every chunk
    length is a multiple of `k` (checked by `ChunkSite.wellBound`). -/
def wellBound (stride : Nat) (s : ChunkStmt) : Bool :=
  s.args == .chunk && s.ph.all (fun m => !m.atoms.contains "?") &&
  (s.ph == s.argc ||
   (stride > 1 && s.ph == [⟨stride, [s!"chunk/{stride}"]⟩] && s.argc == [⟨1, ["chunk"]⟩]))
end ChunkStmt

namespace ChunkSite
def stmt (s : ChunkSite) (i : Nat) : ChunkStmt := s.stmts.getD i ChunkStmt.unknown

/-- The per-call-site precondition of `chunk_faithful`: the chunk size is understood and
    every statement of the loop is `wellBound`. -/
def wellBound (limit : Nat) (s : ChunkSite) : Bool :=
  s.limitDiv != 0 && s.stride != 0 && (limit / s.limitDiv) % s.stride == 0 && limit / s.limitDiv != 0 &&
  !s.stmts.isEmpty && s.stmts.all (·.wellBound s.stride)

/-- `N` of `xslices.Chunk(X, N)` for a given `db.ChunkLimit`. -/
def size (s : ChunkSite) (limit : Nat) : Nat := if s.limitDiv == 0 then 0 else limit / s.limitDiv
end ChunkSite

end Gluon.DB
