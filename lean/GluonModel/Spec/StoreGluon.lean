/-
The store configuration of the current source: constants and switches regenerated from
store/disk.go by `vh facts` (`Generated/Facts/Store.lean`).  `NewOnDiskStore(path, pass)` has no
fallback reader.  What the translator could not classify counts as the bad case
(`swallowEOF := true` unless the source is recognised as returning the error).
-/
import GluonModel.Model.StoreLock
import GluonModel.Generated.Facts.Store

namespace Gluon.Store

def gluonCfg : Config where
  header := Facts.Store.headerBytes
  blockSize := Facts.Store.blockSize
  swallowEOF := Facts.Store.getSwallowsEOF != some false
  fallback := none

/-- The schedules of the lock-table transition system that are behaviours of the current source:
    all of them while `releaseSyncRef` decrements the counter before taking `w.lock`; only those
    with uninterrupted releases once it takes the lock first. -/
def Lock.SourceSchedule (sched : List Lock.Step) : Prop :=
  Facts.Store.releaseShape = "lock first" → Lock.AtomicRelease sched

end Gluon.Store
