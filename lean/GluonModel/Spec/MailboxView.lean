/-
S-VIEW: the authoritative content of a mailbox as a newly opened session sees it, the changes a
mailbox undergoes, the responder each change broadcasts to a session that has the mailbox
selected, and what "the session's view equals the mailbox" means (C02).

The authoritative side is the database's `mailbox_message_<id>` table: (message id, UID, flags)
ordered by UID, UIDs handed out from a strictly increasing `UIDNext`.  A fresh SELECT/EXAMINE
builds its snapshot from exactly that table, so "what a newly opened session sees" is the `View`.
-/
import GluonModel.Model.Responder

namespace Gluon

/-- one row of the authoritative mailbox table; `flags` are kept WITHOUT `\Recent`
    (`\Recent` is per-session bookkeeping, C02 ignores it) -/
structure VMsg where
  id : MsgId
  uid : UID
  flags : Flags
deriving DecidableEq, Repr

/-- authoritative mailbox content, in UID order -/
abbrev View := List VMsg

/-- two flag sets are equal as sets once `\Recent` is ignored (mutual inclusion) -/
def FlagsEq (a b : Flags) : Prop := ∀ f, f ≠ Flags.recent → (f ∈ a ↔ f ∈ b)

/-- executable form of `FlagsEq` -/
def flagsEqB (a b : Flags) : Bool :=
  (a.all fun f => f == Flags.recent || b.contains f) && (b.all fun f => f == Flags.recent || a.contains f)

theorem flagsEqB_iff (a b : Flags) : flagsEqB a b = true ↔ FlagsEq a b := by
  simp only [flagsEqB, FlagsEq, Bool.and_eq_true, List.all_eq_true, Bool.or_eq_true, beq_iff_eq,
    List.contains_iff_mem]
  constructor
  · intro ⟨h1, h2⟩ f hf
    exact ⟨fun h => (h1 f h).resolve_left hf, fun h => (h2 f h).resolve_left hf⟩
  · intro h
    refine ⟨fun f hf => ?_, fun f hf => ?_⟩
    · by_cases hr : f = Flags.recent
      · exact Or.inl hr
      · exact Or.inr ((h f hr).mp hf)
    · by_cases hr : f = Flags.recent
      · exact Or.inl hr
      · exact Or.inr ((h f hr).mpr hf)

instance (a b : Flags) : Decidable (FlagsEq a b) := decidable_of_iff _ (flagsEqB_iff a b)

/-- a snapshot entry shows a mailbox row: same message, same UID, same flags ignoring `\Recent` -/
def MsgMatch (s : SMsg) (m : VMsg) : Prop := s.id = m.id ∧ s.uid = m.uid ∧ FlagsEq s.flags m.flags

instance (s : SMsg) (m : VMsg) : Decidable (MsgMatch s m) := by unfold MsgMatch; infer_instance

/-- **The session's view is identical to the mailbox**: same length and, position by position,
    the same message with the same UID and the same flags (ignoring `\Recent`). -/
def SameView : Snap → View → Prop
  | [], [] => True
  | s :: ss, m :: ms => MsgMatch s m ∧ SameView ss ms
  | _, _ => False

instance SameView.dec : (s : Snap) → (v : View) → Decidable (SameView s v)
  | [], [] => isTrue trivial
  | s :: ss, m :: ms =>
    match (inferInstance : Decidable (MsgMatch s m)), SameView.dec ss ms with
    | isTrue h1, isTrue h2 => isTrue ⟨h1, h2⟩
    | isFalse h1, _ => isFalse fun h => h1 h.1
    | _, isFalse h2 => isFalse fun h => h2 h.2
  | [], _ :: _ => isFalse (by simp [SameView])
  | _ :: _, [] => isFalse (by simp [SameView])

namespace View

def ids (v : View) : List MsgId := v.map (·.id)
def uids (v : View) : List UID := v.map (·.uid)

/-- table invariant: UIDs strictly ascending, message ids distinct -/
structure Wf (v : View) : Prop where
  asc : v.uids.Pairwise (· < ·)
  nodup : v.ids.Nodup

end View

/-- what `fetch.handle` computes from the current flags of the message -/
def newFlags (cur : Flags) (op : FlagOp) (fl : Flags) (otherMbox : Bool) : Flags :=
  let n0 := match op with
    | .add => Flags.add cur fl
    | .rem => Flags.remove cur fl
    | .set => Flags.norm fl
  if otherMbox then Flags.set n0 Flags.deleted (cur.contains Flags.deleted) else n0

/-- a committed change of the mailbox -/
inductive Change where
  /-- a message enters the mailbox (APPEND / COPY / MOVE in / connector MessageCreated) -/
  | add (id : MsgId) (uid : UID) (flags : Flags)
  /-- a message leaves the mailbox (EXPUNGE / MOVE out / connector MessageDeleted) -/
  | remove (id : MsgId)
  /-- a flag change (STORE / connector MessageSeen …); with `otherMbox` the `\Deleted` membership
      is left as it is (`\Deleted` is per mailbox), exactly like `fetch.handle` -/
  | setFlags (id : MsgId) (op : FlagOp) (flags : Flags) (otherMbox : Bool)
deriving DecidableEq, Repr

namespace View

/-- the effect of a change on the mailbox table -/
def apply (v : View) : Change → View
  | .add id uid fl => v ++ [{ id, uid, flags := Flags.remove1 fl Flags.recent }]
  | .remove id => v.eraseP (·.id == id)
  | .setFlags id op fl other =>
    v.map fun m =>
      if m.id == id then { m with flags := Flags.remove1 (newFlags m.flags op fl other) Flags.recent } else m

def applyAll (v : View) (cs : List Change) : View := cs.foldl apply v

end View

namespace Change

/-- admissible on a table: the database hands out a UID above every UID in the table and a message is
    in a mailbox at most once; removals and flag changes of absent messages are no-ops -/
def AdmissibleV (v : View) : Change → Prop
  | .add id uid _ => (∀ m ∈ v, m.uid < uid) ∧ id ∉ v.ids
  | _ => True

instance (v : View) (c : Change) : Decidable (AdmissibleV v c) := by
  cases c <;> unfold AdmissibleV <;> infer_instance

end Change

/-- `r` is the responder the change `c` broadcasts to a session that has the mailbox selected
    (`targetedExists` / `expunge` / `fetch`): an EXISTS may additionally carry `\Recent`, target
    and origin are arbitrary; `asUID` / `asSilent` of a FETCH are arbitrary. -/
def RespOf : Change → Responder → Prop
  | .add id uid fl, .exists id' uid' fl' _ _ => id' = id ∧ uid' = uid ∧ FlagsEq fl' fl
  | .remove id, .expunge id' => id' = id
  | .setFlags id op fl other, .fetch id' fl' op' _ _ other' => id' = id ∧ fl' = fl ∧ op' = op ∧ other' = other
  | _, _ => False

instance (c : Change) (r : Responder) : Decidable (RespOf c r) := by
  cases c <;> cases r <;> unfold RespOf <;> infer_instance

/-- what the snapshot becomes when every queued responder is handled in queue order -/
def replay (sid : StateId) (snap : Snap) (res : List Responder) : Snap := (handleAll false sid snap res).1

/-- no responder fails when the queue is handled in queue order -/
def replayOk (sid : StateId) (snap : Snap) (res : List Responder) : Prop :=
  (handleAll false sid snap res).2.2.2 = none

instance (sid : StateId) (snap : Snap) (res : List Responder) : Decidable (replayOk sid snap res) := by
  unfold replayOk; infer_instance

/-- **The convergence invariant** of a session (snapshot + queue of pending responders) w.r.t. the
    mailbox table `v`: handling everything that is queued, in queue order, fails nowhere and ends in
    a snapshot identical to `v`. -/
def Conv (sid : StateId) (snap : Snap) (res : List Responder) (v : View) : Prop :=
  replayOk sid snap res ∧ SameView (replay sid snap res) v

instance (sid : StateId) (snap : Snap) (res : List Responder) (v : View) : Decidable (Conv sid snap res v) := by
  unfold Conv; infer_instance

/-! ### The named hypothesis of the `permitExpunge = false` theorems -/

namespace Responder

/-- EXISTS created by this very session (`originStateSet && originStateID == stateID`):
    handled with the strict-ascending `snap.appendMessage` -/
def isOwnExists (sid : StateId) : Responder → Bool
  | .exists _ _ _ _ o => o == some sid
  | _ => false

/-- the UID an EXISTS carries (0 for the other responders) -/
def uidOr0 : Responder → UID
  | .exists _ uid _ _ _ => uid
  | _ => 0

end Responder

/-- the UIDs announced by the queued EXISTS responders, in queue order -/
def existsUids (res : List Responder) : List UID :=
  res.filterMap fun r => match r with
    | .exists _ uid _ _ _ => some uid
    | _ => none

/-- **UidsOk**: the database never hands out a UID twice and hands them out in increasing order:
    the queued EXISTS carry strictly ascending UIDs, none of which is in the snapshot, and an
    EXISTS created by the session itself carries a UID above the whole snapshot (it was queued
    by the session's own command; a `permitExpunge = false` flush never pops an EXISTS that is
    queued behind a held-back one). -/
def UidsOk (sid : StateId) (snap : Snap) (res : List Responder) : Prop :=
  (existsUids res).Pairwise (· < ·) ∧
  (∀ x ∈ snap, ∀ u ∈ existsUids res, x.uid ≠ u) ∧
  (∀ r ∈ res, r.isOwnExists sid = true → ∀ x ∈ snap, x.uid < r.uidOr0)

instance (sid : StateId) (snap : Snap) (res : List Responder) : Decidable (UidsOk sid snap res) := by
  unfold UidsOk; infer_instance

/-- **UidsAsc** (implies `UidsOk`): the queued EXISTS carry strictly ascending UIDs, all above every
    UID of the snapshot — what `UIDNext` gives along every history. -/
def UidsAsc (snap : Snap) (res : List Responder) : Prop :=
  (existsUids res).Pairwise (· < ·) ∧ (∀ x ∈ snap, ∀ u ∈ existsUids res, x.uid < u)

instance (snap : Snap) (res : List Responder) : Decidable (UidsAsc snap res) := by
  unfold UidsAsc; infer_instance

/-- executable `Snap.Inv` -/
def Snap.invB (s : Snap) : Bool := decide (s.uids.Pairwise (· < ·)) && decide (s.ids.Nodup)

/-! ### Histories: the mailbox with its UID counter, and rounds of a session -/

/-- the mailbox table with its `UIDNext` counter -/
structure Mbox where
  view : View
  uidNext : UID
deriving Repr

namespace Mbox

structure Wf (mb : Mbox) : Prop where
  view : mb.view.Wf
  below : ∀ m ∈ mb.view, m.uid < mb.uidNext

/-- admissible on the mailbox: a new message gets a UID `≥ UIDNext` (never one used before) -/
def Admissible (mb : Mbox) : Change → Prop
  | .add id uid _ => mb.uidNext ≤ uid ∧ id ∉ mb.view.ids
  | _ => True

instance (mb : Mbox) (c : Change) : Decidable (Admissible mb c) := by
  cases c <;> unfold Admissible <;> infer_instance

def apply (mb : Mbox) (c : Change) : Mbox :=
  { view := mb.view.apply c,
    uidNext := match c with
      | .add _ uid _ => uid + 1
      | _ => mb.uidNext }

end Mbox

/-- one step of a history as the observing session experiences it -/
inductive Round where
  /-- some party (another session, the connector, the session itself) commits `c`; the responder
      `r` reaches the observer's queue -/
  | change (c : Change) (r : Responder)
  /-- the observer runs a command that flushes with this `permitExpunge` (outside CLOSE) -/
  | flush (permit : Bool)
deriving Repr

/-- session side of a history: snapshot + queue -/
structure Sess where
  snap : Snap
  res : List Responder
deriving Repr

def Sess.step (sid : StateId) (st : Sess) : Round → Sess
  | .change _ r => { st with res := st.res ++ [r] }
  | .flush p => { snap := (flush p false sid st.snap st.res).snap, res := (flush p false sid st.snap st.res).rem }

def Mbox.step (mb : Mbox) : Round → Mbox
  | .change c _ => mb.apply c
  | .flush _ => mb

def runRounds (sid : StateId) : Sess → Mbox → List Round → Sess × Mbox
  | st, mb, [] => (st, mb)
  | st, mb, r :: rs => runRounds sid (st.step sid r) (mb.step r) rs

/-- every change of the history is admissible and broadcasts its responder (flushes of the
    observer are unconstrained: either `permitExpunge`, anywhere) -/
def RoundsOk (sid : StateId) : Sess → Mbox → List Round → Prop
  | _, _, [] => True
  | st, mb, r :: rs =>
    (match r with
     | .change c resp => mb.Admissible c ∧ RespOf c resp
     | .flush _ => True) ∧
    RoundsOk sid (st.step sid r) (mb.step r) rs

/-- the changes of a history, in order -/
def changesOf : List Round → List Change
  | [] => []
  | .change c _ :: rs => c :: changesOf rs
  | .flush _ :: rs => changesOf rs

end Gluon
