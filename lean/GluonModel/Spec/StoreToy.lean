/-
A small executable instance of the store primitives (`Store.Prims`), used
  * to show that the hypothesis structures `Laws`, `AEAD`, `LZ4Seq`, `EmptyIsEOF` are jointly
    satisfiable (proofs in `Lemmas/StoreToy.lean`), so the C09 theorems are not vacuous,
  * for the concrete witnesses of what the file format does *not* exclude,
  * by the `store` correspondence dialect: for every operation whose outcome the laws determine,
    any instance predicts the same answer as AES-GCM + LZ4.

"AEAD": plain text followed by a tag `key :: nonce (fitted to nonceSize) ++ [sum, weighted sum, length]`
(`overhead = nonceSize + 4`); `Open` recomputes the tag.  "LZ4": a frame `magic, (len, piece)*, 0`
with pieces of at most `L` bytes, and a reader with the same leniencies as pierrec/lz4's
`Reader.WriteTo`: end of stream *at a piece boundary* or *right after a length word* counts as end
of frame, end of stream before the magic is `io.EOF`, nothing after the end mark is read.
Core Lean only.
-/
import GluonModel.Model.Store

namespace Gluon.Store.Toy

def fit (ns : Nat) (n : Bytes) : Bytes := (n ++ List.replicate ns 0).take ns

def wsum : Nat → Bytes → Nat
  | _, [] => 0
  | i, x :: xs => (i * x + wsum (i + 1) xs) % 256

def tag (ns : Nat) (k : Nat) (n x : Bytes) : Bytes :=
  k :: fit ns n ++ [x.sum % 256, wsum 1 x, x.length % 256]

def tseal (ns : Nat) (k : Nat) (n x : Bytes) : Bytes := x ++ tag ns k n x

def topen (ns : Nat) (k : Nat) (n c : Bytes) : Option Bytes :=
  if c.length < ns + 4 then none
  else
    let x := c.take (c.length - (ns + 4))
    if c.drop (c.length - (ns + 4)) = tag ns k n x then some x else none

def magic : Byte := 77

def encPiece (p : Bytes) : Bytes := p.length :: p

def compress (L : Nat) (b : Bytes) : Bytes :=
  magic :: (((cut L b).map encPiece).flatten ++ [0])

/-- the block loop of the reader (`fuel` ≥ length of the remaining stream + 1) -/
def loop (t : Term) : Nat → Bytes → Bytes → Dec
  | 0, _, _ => .bad
  | _ + 1, [], acc => if t = .eof then .done acc else .bad          -- EOF where a length word is expected
  | _ + 1, 0 :: _, acc => .done acc                                    -- end mark; the rest is not read
  | f + 1, (n + 1) :: rest, acc =>
    if rest.isEmpty then (if t = .eof then .done acc else .bad)        -- EOF right after a length word
    else if rest.length < n + 1 then .bad                              -- unexpected EOF / pipe error inside a piece
    else loop t f (rest.drop (n + 1)) (acc ++ rest.take (n + 1))

def decode (p : Bytes) (t : Term) : Dec :=
  match p with
  | [] => if t = .eof then .ioEOF [] else .bad
  | m :: rest => if m = magic then loop t (rest.length + 1) rest [] else .bad

/-- The toy primitives: nonces of `ns` bytes, LZ4-like pieces of `L` bytes, keys are numbers. -/
def prims (ns L : Nat) : Prims Nat where
  nonceSize := ns
  overhead := ns + 4
  aeadSeal := tseal ns
  aeadOpen := topen ns
  compress := compress L
  decode := decode

/-- the toy store of the C09 witnesses: 1-byte header, blocks of 4 (used with nonces of 1 byte, pieces of 2) -/
def witnessCfg : Config := { header := [9], blockSize := 4, swallowEOF := true, fallback := none }

end Gluon.Store.Toy
