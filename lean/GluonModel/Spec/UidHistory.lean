/-
Executable statement of property C04 over an *observation log* of a whole-server history
(harness/o_uids.go, oracle `c04uids`): what a client can see of UIDs, UIDNEXT, UIDVALIDITY,
APPENDUID and COPYUID, keyed by a per-message marker, across expunges, failed commands, mailbox
delete/re-create/rename, UIDVALIDITY bumps and server restarts.

`step` consumes one observation and either returns the updated knowledge or says which clause of
the property (prefix `property`) or which prediction of the models (prefix `model`) the
observation contradicts:

property clauses
* `uid-denotes-two-messages`   the table (name, uidvalidity, uid) ↦ marker is not a function
* `uid-not-fresh`              a UID first seen now is not greater than every UID assigned before
                               in that (name, uidvalidity)                      (`C04.uid_fresh`)
* `uid-below-announced-uidnext` a UID first seen now is below a UIDNEXT announced earlier
* `uidnext-not-above-assigned` / `uidnext-decreased`      (`C04.uidnext_gt_all`, `uidnext_mono`)
* `announced-uid-not-found` / `copyuid-pairing` / `appenduid-wrong`   the UID of an
                               APPENDUID/COPYUID holds nothing / another message at the next
                               fresh listing; `copyuid-…` the COPYUID sets do not pair up
* `uidvalidity-regress…` / `uidvalidity-not-renewed`   successive UIDVALIDITY values of a name do
                               not strictly increase (`UidV.strictlyIncreasing`,
                               `C04.recreate_greater`); after a restart this is DESIGN §9 #12 /
                               `C04.uidv_restart_witness` and gets the stable label
                               `cause=uidvalidity-regress-after-restart`

* raced commands (oracle step `RACE`: a second party's UID-assigning operation is run at one
  database-call boundary *inside* the command) are judged by the internal consistency of their own
  response: `select-uidnext-not-above-view` (the UIDNEXT of a SELECT/EXAMINE response is not above a
  UID of the `EXISTS` messages the very view it opened shows), `select-exists-above-view`,
  `select-view-unexplained`, `status-uidnext-not-above-counted` (STATUS counts a message whose UID is
  not below the UIDNEXT of the same response), `status-messages-unexplained`; the UIDNEXT of such a
  response may be larger than needed (the second party ran first), never smaller

model predictions (the tie of `Model/UidSeq.lean` and `Model/UidValidity.lean` to the server)
* every (name, uidvalidity) behaves like one AUTOINCREMENT table: `n` new UIDs are exactly what
  `UidSeq.applyOps (replicate n .insert)` hands out, UIDNEXT is `UidSeq.uidNext`; a rolled-back
  command leaves no trace (`applyTx` with `commit = false`)
* values issued by one server process strictly increase in issue order (`C04.uidv_mono_process`)
  and none is below the clock reading taken before the command (`generate now last ≥ now`)

Rename (`M`) and bump (`B`) carry the knowledge about the mailbox over to its new key: the
mailbox object is the same, only its name resp. UIDVALIDITY changes.
-/
import GluonModel.Model.UidSeq
import GluonModel.Model.UidValidity

namespace Gluon.UidHistory

inductive Ev where
  | restart
  | created (name : String) (clock : Nat)
  | deleted (name : String)
  | renamed (old new : String)
  | bumped
  | appendUid (name : String) (uidv uid : Nat) (marker : String)
  | copyUid (src : String) (srcV : Nat) (dst : String) (dstV : Nat) (srcUids dstUids : List Nat)
  | status (name : String) (uidv uidNext : Nat)
  | listing (name : String) (uidv uidNext : Nat) (msgs : List (Nat × String))
  | view (name : String) (uidv : Nat) (msgs : List (Nat × String))
  /-- a SELECT/EXAMINE raced by a second party: its own `EXISTS` and `UIDNEXT`, the view it opened
      (listing in the same session right after), the UIDs the second party added to the mailbox -/
  | selectRace (name : String) (uidv nExists uidNext : Nat) (view : List (Nat × String)) (injected : List Nat)
  /-- a STATUS raced by a second party: its own `MESSAGES` and `UIDNEXT`, the listing a fresh
      observer took right after, the UIDs the second party added -/
  | statusRace (name : String) (uidv messages uidNext : Nat) (listing : List (Nat × String)) (injected : List Nat)
deriving Repr

/-- what is known about one (mailbox name, UIDVALIDITY) -/
structure Box where
  name : String
  uidv : Nat
  tbl : List (Nat × String) := []      -- uid ↦ marker: every UID ever seen assigned
  m : UidSeq.Mbox := UidSeq.empty      -- model table: rows = UIDs present, seq = greatest UID assigned
  nextSeen : Nat := 0                  -- last UIDNEXT announced (0 = none yet)
  pend : List (Nat × String) := []     -- announced by APPENDUID/COPYUID, not yet confirmed by a fresh listing
  pendFrom : String := "appenduid"     -- which response code announced them
  nextFloor : Nat := 0                 -- greatest UIDNEXT a raced command announced (a lower bound for later ones;
                                       -- not a bound on the second party's UIDs, which may have been assigned before it was read)
deriving Repr

/-- what is known about one mailbox name -/
structure NameInfo where
  name : String
  vals : List Nat := []                -- successive UIDVALIDITY values, oldest first
  fresh : Option Nat := none           -- created/bumped since the last observation (clock reading before the command)
  moved : Bool := false                -- another mailbox was renamed onto this name since the last observation
  restartSinceHi : Bool := false       -- a restart happened after the last value was first seen
  carry : Option Box := none           -- the mailbox object now behind this name (after rename / bump)
deriving Repr

structure St where
  boxes : List Box := []
  names : List NameInfo := []
  procHi : Nat := 0                    -- greatest value issued by this server process before the last event boundary
  procBatch : List Nat := []           -- values first seen since that boundary
  -- what the history exercised (for the verdict class)
  assigned : Nat := 0
  topGone : Nat := 0                   -- additions into a mailbox whose highest UID had been expunged
  afterRestart : Nat := 0              -- additions into a (name, uidvalidity) that existed before the last restart
  restarts : Nat := 0
  recreated : Nat := 0
  bumps : Nat := 0
  renames : Nat := 0
  announced : Nat := 0
  confirmed : Nat := 0
  raced : Nat := 0                     -- raced SELECT/EXAMINE/STATUS responses judged
  racedSeen : Nat := 0                 -- … of which showed the second party's message
  touchedSinceRestart : List (String × Nat) := []
deriving Repr

def findBox (st : St) (name : String) (uidv : Nat) : Option Box :=
  st.boxes.find? fun b => b.name == name && b.uidv == uidv

def setBox (st : St) (b : Box) : St :=
  if st.boxes.any (fun x => x.name == b.name && x.uidv == b.uidv) then
    { st with boxes := st.boxes.map fun x => if x.name == b.name && x.uidv == b.uidv then b else x }
  else { st with boxes := st.boxes ++ [b] }

def findName (st : St) (name : String) : NameInfo :=
  (st.names.find? fun n => n.name == name).getD { name := name }

def setName (st : St) (n : NameInfo) : St :=
  if st.names.any (fun x => x.name == n.name) then
    { st with names := st.names.map fun x => if x.name == n.name then n else x }
  else { st with names := st.names ++ [n] }

def curVal (n : NameInfo) : Option Nat := n.vals.getLast?

def sortNat (l : List Nat) : List Nat := (l.toArray.qsort (· < ·)).toList

/-- close the batch of UIDVALIDITY values seen since the last event boundary -/
def closeBatch (st : St) : St :=
  { st with procHi := st.procBatch.foldl max st.procHi, procBatch := [] }

/-- the box behind (name, uidv): known, or carried over by rename/bump, or a new empty table -/
def boxFor (st : St) (name : String) (uidv : Nat) : Box × St :=
  let n := findName st name
  match n.carry, findBox st name uidv with
  | some c, some b =>
    -- renamed back onto a name it had before (same UIDVALIDITY): the carried knowledge is the newer one
    if c.uidv == uidv then ({ c with name := name }, setName st { n with carry := none }) else (b, st)
  | none, some b => (b, st)
  | some c, none => ({ c with name := name, uidv := uidv }, setName st { n with carry := none })
  | none, none => ({ name := name, uidv := uidv }, st)

/-- **UIDVALIDITY clause.**  `(name, v)` is observed now. -/
def seeUidv (st : St) (name : String) (v : Nat) : Except String St :=
  let n := findName st name
  if curVal n == some v && n.fresh.isNone then
    -- unchanged; also a mailbox renamed back onto a name it had before (its UIDs persist with it)
    .ok (if n.moved then setName st { n with moved := false } else st)
  else if curVal n == some v then
    .error s!"property cause=uidvalidity-not-renewed name={name} value={v} (the name was deleted and created again, or bumped, and shows the same UIDVALIDITY)"
  else if !UidV.strictlyIncreasing (n.vals ++ [v]) then
    let cause :=
      if n.restartSinceHi then "uidvalidity-regress-after-restart"
      else if n.moved then "uidvalidity-regress-rename-onto-used-name"
      else "uidvalidity-regress"
    .error s!"property cause={cause} name={name} earlier={n.vals} now={v} (successive UIDVALIDITY values of a name must strictly increase)"
  else
    -- model tie: a value known to be issued just now by this process (the name was created or bumped
    -- since its last observation; not a value that came along with a renamed mailbox, nor a mailbox
    -- that only became visible now, like "Recovered Messages")
    let issued := !n.moved && n.fresh.isSome
    -- (the values of a bump are issued in an order the log does not show, and a hidden mailbox may show
    -- its bumped value much later: the order is only checked for creations)
    let ordered := issued && n.fresh != some 0
    if ordered && v ≤ st.procHi then
      .error s!"model cause=model-uidv-process-order name={name} value={v} not above {st.procHi} issued earlier by the same process"
    else if issued && (match n.fresh with | some c => decide (v < c) | none => false) then
      .error s!"model cause=model-uidv-below-clock name={name} value={v} clock={n.fresh.getD 0}"
    else
      let st := if n.vals.isEmpty then st else { st with recreated := st.recreated + 1 }
      let st := if issued then { st with procBatch := v :: st.procBatch } else st
      .ok (setName st { n with vals := n.vals ++ [v], fresh := none, moved := false, restartSinceHi := false })

/-- **UID clauses.**  The pairs `news` (uid ↦ marker) are reported for box `b`; `seq0` is the
    greatest UID assigned in the box before this observation.  Returns the box and the UIDs seen
    for the first time. -/
def learn (b : Box) (seq0 : Nat) : List (Nat × String) → Except String (Box × List Nat)
  | [] => .ok (b, [])
  | (u, mk) :: rest =>
    match b.tbl.lookup u with
    | some mk' =>
      if mk' != mk then
        if b.pend.contains (u, mk') then
          let cause := if b.pendFrom == "copyuid" then "copyuid-pairing" else "appenduid-wrong"
          .error s!"property cause={cause} mailbox={b.name} uidvalidity={b.uidv} uid={u} announced={mk'} found={mk} (the UID announced by {b.pendFrom.toUpper} holds a different message)"
        else
        .error s!"property cause=uid-denotes-two-messages mailbox={b.name} uidvalidity={b.uidv} uid={u} was={mk'} now={mk}"
      else learn b seq0 rest
    | none =>
      if u ≤ seq0 then
        .error s!"property cause=uid-not-fresh mailbox={b.name} uidvalidity={b.uidv} uid={u} marker={mk} not above {seq0} assigned before"
      else if u < b.nextSeen then
        .error s!"property cause=uid-below-announced-uidnext mailbox={b.name} uidvalidity={b.uidv} uid={u} marker={mk} uidnext-announced={b.nextSeen}"
      else do
        let (b', us) ← learn { b with tbl := b.tbl ++ [(u, mk)] } seq0 rest
        pure (b', u :: us)

/-- `learn`, then the AUTOINCREMENT model's prediction for that many inserts -/
def assign (st : St) (b : Box) (news : List (Nat × String)) (announce : Bool) (src : String := "appenduid") :
    Except String (Box × St) := do
  let (b1, us) ← learn b b.m.seq news
  let b1 := if announce then { b1 with pendFrom := src } else b1
  if us.isEmpty then
    pure ({ b1 with pend := if announce then b1.pend ++ news else b1.pend }, st)
  else
    let (m', predicted) := UidSeq.applyOps (List.replicate us.length .insert) b.m
    if predicted != sortNat us then
      throw s!"model cause=model-uidseq-differs mailbox={b.name} uidvalidity={b.uidv} new-uids={sortNat us} predicted={predicted} (seq={b.m.seq})"
    let st := { st with assigned := st.assigned + us.length
                        topGone := if UidSeq.maxRow b.m.rows < b.m.seq then st.topGone + us.length else st.topGone
                        afterRestart := if st.restarts > 0 && !b.tbl.isEmpty && !st.touchedSinceRestart.contains (b.name, b.uidv)
                                        then st.afterRestart + 1 else st.afterRestart
                        touchedSinceRestart := (b.name, b.uidv) :: st.touchedSinceRestart
                        announced := if announce then st.announced + us.length else st.announced }
    pure ({ b1 with m := m', pend := if announce then b1.pend ++ news else b1.pend }, st)

/-- UIDNEXT clauses + the model's `uidNext` -/
def seeNext (b : Box) (uidNext : Nat) : Except String Box :=
  if uidNext ≤ b.m.seq then
    .error s!"property cause=uidnext-not-above-assigned mailbox={b.name} uidvalidity={b.uidv} uidnext={uidNext} greatest-uid-assigned={b.m.seq}"
  else if uidNext < max b.nextSeen b.nextFloor then
    .error s!"property cause=uidnext-decreased mailbox={b.name} uidvalidity={b.uidv} uidnext={uidNext} announced-before={max b.nextSeen b.nextFloor}"
  else if uidNext != UidSeq.uidNext b.m then
    .error s!"model cause=model-uidnext-differs mailbox={b.name} uidvalidity={b.uidv} uidnext={uidNext} predicted={UidSeq.uidNext b.m}"
  else .ok { b with nextSeen := uidNext }

def checkPending (b : Box) (msgs : List (Nat × String)) : Except String Unit :=
  match b.pend.find? (fun p => !msgs.contains p) with
  | some (u, mk) =>
    .error s!"property cause=announced-uid-not-found mailbox={b.name} uidvalidity={b.uidv} uid={u} marker={mk} (APPENDUID/COPYUID said so; the listing shows {msgs.lookup u})"
  | none => .ok ()

/-- lower bounds every UIDNEXT obeys, whatever the second party did meanwhile -/
def seeNextRaced (b : Box) (uidNext : Nat) : Except String Box :=
  if uidNext ≤ b.m.seq then
    .error s!"property cause=uidnext-not-above-assigned mailbox={b.name} uidvalidity={b.uidv} uidnext={uidNext} greatest-uid-assigned={b.m.seq} (raced command)"
  else if uidNext < max b.nextSeen b.nextFloor then
    .error s!"property cause=uidnext-decreased mailbox={b.name} uidvalidity={b.uidv} uidnext={uidNext} announced-before={max b.nextSeen b.nextFloor} (raced command)"
  else .ok { b with nextFloor := max b.nextFloor uidNext }

/-- **A SELECT/EXAMINE response is consistent with the view it opens**: the first `nExists`
    messages of the view are the ones the response announced; every one of their UIDs is below
    the announced UIDNEXT; what the view shows beyond them was added by the second party. -/
def checkSelectRace (name : String) (uidv nExists uidNext : Nat) (view : List (Nat × String)) (injected : List Nat) :
    Except String Unit :=
  if view.length < nExists then
    .error s!"property cause=select-exists-above-view mailbox={name} uidvalidity={uidv} exists={nExists} view={view.map (·.1)} (the response announces more messages than the view it opened holds)"
  else
    match (view.take nExists).find? (fun p => uidNext ≤ p.1) with
    | some (u, mk) =>
      .error s!"property cause=select-uidnext-not-above-view mailbox={name} uidvalidity={uidv} uidnext={uidNext} exists={nExists} uid={u} marker={mk} view={view.map (·.1)} (the mailbox the response opened holds a UID that is not below the UIDNEXT of the same response)"
    | none =>
      match (view.drop nExists).find? (fun p => !injected.contains p.1) with
      | some (u, mk) =>
        .error s!"property cause=select-view-unexplained mailbox={name} uidvalidity={uidv} exists={nExists} uid={u} marker={mk} view={view.map (·.1)} second-party={injected} (a message beyond EXISTS that nobody added meanwhile)"
      | none => .ok ()

/-- **A STATUS response is consistent in itself**: the messages it counts are the ones a fresh
    listing shows right after, with or without the second party's additions, and every UID it
    counts is below the UIDNEXT of the same response. -/
def checkStatusRace (name : String) (uidv messages uidNext : Nat) (listing : List (Nat × String)) (injected : List Nat) :
    Except String Unit :=
  let all := listing.map (·.1)
  let without := all.filter (fun u => !injected.contains u)
  let counted : Option (List Nat) :=
    if messages == all.length then some all else if messages == without.length then some without else none
  match counted with
  | none =>
    .error s!"property cause=status-messages-unexplained mailbox={name} uidvalidity={uidv} messages={messages} listing={all} second-party={injected}"
  | some us =>
    match us.find? (fun u => uidNext ≤ u) with
    | some u =>
      .error s!"property cause=status-uidnext-not-above-counted mailbox={name} uidvalidity={uidv} messages={messages} uidnext={uidNext} uid={u} listing={all} second-party={injected} (STATUS counts a message whose UID is not below the UIDNEXT of the same response)"
    | none => .ok ()

def markAll (st : St) (f : NameInfo → NameInfo) : St := { st with names := st.names.map f }

def step (st : St) : Ev → Except String St
  | .restart =>
    let st := closeBatch st
    .ok { markAll st (fun n => { n with restartSinceHi := true }) with
          procHi := UidV.fresh, restarts := st.restarts + 1, touchedSinceRestart := [] }
  | .created name clock =>
    let st := closeBatch st
    .ok (setName st { findName st name with fresh := some clock, moved := false, carry := none })
  | .deleted name =>
    let st := closeBatch st
    .ok (setName st { findName st name with carry := none })
  | .renamed old new =>
    let st := closeBatch st
    let o := findName st old
    let carried := match curVal o with
      | some v => findBox st old v
      | none => none
    .ok { setName st { findName st new with moved := true, fresh := none, carry := carried } with renames := st.renames + 1 }
  | .bumped =>
    let st := closeBatch st
    let st := markAll st fun n =>
      { n with fresh := some 0, carry := match curVal n with
                                          | some v => (findBox st n.name v).orElse (fun _ => n.carry)
                                          | none => n.carry }
    .ok { st with bumps := st.bumps + 1 }
  | .appendUid name uidv uid marker => do
    let st ← seeUidv st name uidv
    let (b, st) := boxFor st name uidv
    let (b, st) ← assign st b [(uid, marker)] true
    pure (setBox st b)
  | .copyUid src srcV dst dstV srcUids dstUids => do
    let st ← seeUidv st dst dstV
    if srcUids.length != dstUids.length then
      throw s!"property cause=copyuid-length-mismatch source={srcUids} destination={dstUids}"
    let (sb, st) := boxFor st src srcV
    let st := setBox st sb
    let markers ← srcUids.mapM fun u =>
      match sb.tbl.lookup u with
      | some mk => pure mk
      | none => throw s!"property cause=copyuid-source-unknown mailbox={src} uidvalidity={srcV} uid={u} (COPYUID names a source UID never seen in that mailbox)"
    let (b, st) := boxFor st dst dstV
    let (b, st) ← assign st b (dstUids.zip markers) true "copyuid"
    pure (setBox st b)
  | .status name uidv uidNext => do
    let st ← seeUidv st name uidv
    let (b, st) := boxFor st name uidv
    let b ← seeNext b uidNext
    pure (setBox st b)
  | .listing name uidv uidNext msgs => do
    let st ← seeUidv st name uidv
    let (b, st) := boxFor st name uidv
    let (b, st) ← assign st b msgs false
    checkPending b msgs
    let present := msgs.map (·.1)
    let gone := b.m.rows.filter fun u => !present.contains u
    let st := { st with confirmed := st.confirmed + b.pend.length }
    let b := { b with pend := [], m := (UidSeq.applyOps (gone.map .delete) b.m).1 }
    let b ← seeNext b uidNext
    pure (setBox st b)
  | .view name uidv msgs => do
    -- a session's view may be stale (older UIDVALIDITY, expunged messages): only the UID clauses apply
    let (b, st) := boxFor st name uidv
    let (b, st) ← assign st b msgs false
    pure (setBox st b)
  | .selectRace name uidv nExists uidNext view injected => do
    let st ← seeUidv st name uidv
    checkSelectRace name uidv nExists uidNext view injected
    let (b, st) := boxFor st name uidv
    let b ← seeNextRaced b uidNext
    let (b, st) ← assign st b view false
    let saw := view.any fun p => injected.contains p.1
    pure { setBox st b with raced := st.raced + 1, racedSeen := if saw then st.racedSeen + 1 else st.racedSeen }
  | .statusRace name uidv messages uidNext listing injected => do
    let st ← seeUidv st name uidv
    checkStatusRace name uidv messages uidNext listing injected
    let (b, st) := boxFor st name uidv
    let b ← seeNextRaced b uidNext
    let saw := messages == listing.length && listing.any fun p => injected.contains p.1
    pure { setBox st b with raced := st.raced + 1, racedSeen := if saw then st.racedSeen + 1 else st.racedSeen }

def run : St → List Ev → Except String St
  | st, [] => .ok st
  | st, e :: rest =>
    match step st e with
    | .error err => .error err
    | .ok st' => run st' rest

/-- the invariants `step` maintains, stated with the models' own definitions (checked once more at
    the end of a log): per name the UIDVALIDITY values strictly increase; per (name, uidvalidity)
    the table is a function, no row is above `seq` (`UidSeq.WF`) and every UID ever assigned is
    at most `seq` -/
def invariant (st : St) : Bool :=
  st.names.all (fun n => UidV.strictlyIncreasing n.vals) &&
  st.boxes.all fun b =>
    b.m.rows.all (· ≤ b.m.seq) && b.tbl.all (fun p => p.1 ≤ b.m.seq) &&
    b.tbl.all (fun p => b.tbl.lookup p.1 == some p.2) &&
    (b.nextSeen == 0 || b.m.seq < b.nextSeen)

end Gluon.UidHistory
