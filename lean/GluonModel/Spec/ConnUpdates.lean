/-
What property C06 says about one connector update, as executable predicates over the abstract
index of `Model/ConnUpdates.lean`:

* `Valid cfg db u`      — `u` is an update the connector may legitimately send in state `db`
                          (ids known, nothing protected, inside the limits);
* `effectOK u db db'` — `db'` is `db` changed *exactly as `u` describes* (nothing else moved);
* `Restates cfg db u`   — `u` only restates what `db` already says (echo / duplicate delivery);
* `Invalid cfg db u`    — `u` refers to unknown or protected objects;
* `sameState db db'`    — nothing a client (or the index dump) can see differs.

The predicates only look at what is observable from outside: remote ids, names, UIDs, flags,
membership, marks — never at internal message ids or the order of `messages_v2`. They are used
twice: the theorems of `Theorems/C06.lean` prove them of the model's `apply` for *all* states and
updates, and the judge `judge-c06-stream` evaluates them on what the real server did.
-/
import GluonModel.Model.ConnUpdates

namespace Gluon.ConnUpd

def sameSet (a b : List String) : Bool := a.all (fun x => b.contains x) && b.all (fun x => a.contains x)

/-- no two elements share a key -/
def nodupKeys {α κ : Type} [BEq κ] (f : α → κ) : List α → Bool
  | [] => true
  | x :: xs => !xs.any (fun y => f y == f x) && nodupKeys f xs

def Row.key (r : Row) : Nat × RID × Bool := (r.uid, r.rid, r.deleted)

/-- everything of a mailbox that can be seen from outside -/
def mboxSame (m m' : Mbox) : Bool :=
  m.iid == m'.iid && m.rid == m'.rid && m.name == m'.name && m.uidv == m'.uidv &&
  m.subscribed == m'.subscribed && m.seq == m'.seq && m.rows.map Row.key == m'.rows.map Row.key

def msgSame (g g' : Msg) : Bool := g.rid == g'.rid && sameSet g.flags g'.flags && g.deleted == g'.deleted

def sameMboxesExcept (skip : Mbox → Bool) (db db' : DB) : Bool :=
  db.mboxes.all (fun m => skip m ||
    match db'.mboxByIid m.iid with
    | some m' => mboxSame m m'
    | none => false) &&
  db'.mboxes.all (fun m' => skip m' || (db.mboxByIid m'.iid).isSome)

def sameMsgsExcept (skip : RID → Bool) (db db' : DB) : Bool :=
  db.msgs.all (fun g => skip g.rid ||
    match db'.msgByRid g.rid with
    | some g' => msgSame g g'
    | none => false) &&
  db'.msgs.all (fun g' => skip g'.rid || (db.msgByRid g'.rid).isSome)

def sameMboxes (db db' : DB) : Bool := sameMboxesExcept (fun _ => false) db db'
def sameMsgs (db db' : DB) : Bool := sameMsgsExcept (fun _ => false) db db'

def sameDelSubs (db db' : DB) : Bool :=
  db.delSubs.all (fun e => db'.delSubs.contains e) && db'.delSubs.all (fun e => db.delSubs.contains e)

/-- nothing observable differs (the UIDVALIDITY generator is not part of the index) -/
def sameState (db db' : DB) : Bool :=
  sameMboxes db db' && sameMsgs db db' && sameDelSubs db db' && db.nextMbox == db'.nextMbox

/-- a message the server still considers to exist -/
def DB.liveMsg (db : DB) (rid : RID) : Option Msg :=
  match db.msgByRid rid with
  | some g => if g.deleted then none else some g
  | none => none

/-- a message marked deleted whose row still answers look-ups by remote id -/
def DB.ghost (db : DB) (rid : RID) : Bool :=
  match db.msgByRid rid with
  | some g => g.deleted
  | none => false

def Mbox.hasRid (m : Mbox) (rid : RID) : Bool := m.rows.any (fun r => r.rid == rid)

def DB.inMbox (db : DB) (brid mrid : RID) : Bool :=
  match db.mboxByRid brid with
  | some m => m.hasRid mrid
  | none => false

def DB.known (db : DB) (brid : RID) : Bool := (db.mboxByRid brid).isSome

/-- remote ids of the mailboxes a message is in -/
def DB.mboxRidsOf (db : DB) (mrid : RID) : List RID := (db.mboxes.filter (fun m => m.hasRid mrid)).map (·.rid)

/-- room for `n` more messages in the mailbox -/
def roomFor (cfg : Cfg) (m : Mbox) (n : Nat) : Bool :=
  m.rows.length + n ≤ cfg.maxMessages && m.seq + 1 + n ≤ cfg.maxUID

def isGhostRid (rid : RID) : Bool := rid.startsWith "DELETED-"

/-- the rows of `m'` are those of `m` followed by `n` new rows with the next `n` UIDs, not deleted,
    whose remote ids are pairwise different, new to the mailbox and allowed by `allow` -/
def rowsExtended (m m' : Mbox) (allow : RID → Bool) : Bool :=
  let n := m'.rows.length - m.rows.length
  let added := m'.rows.drop m.rows.length
  (m'.rows.take m.rows.length).map Row.key == m.rows.map Row.key &&
  m.rows.length ≤ m'.rows.length &&
  m'.seq == m.seq + n &&
  added.map (·.uid) == (List.range n).map (fun i => m.seq + 1 + i) &&
  added.all (fun r => !r.deleted && allow r.rid && !m.hasRid r.rid) &&
  nodupKeys (·.rid) added

def metaSame (m m' : Mbox) : Bool :=
  m.iid == m'.iid && m.rid == m'.rid && m.name == m'.name && m.uidv == m'.uidv && m.subscribed == m'.subscribed

/-- the membership of message `mrid` is exactly `target` (remote mailbox ids), every mailbox it was
    already in keeps its row, every mailbox it enters gives it the next UID, nothing else moves -/
def membershipSet (db db' : DB) (mrid : RID) (target : List RID) : Bool :=
  db.mboxes.all (fun m =>
    match db'.mboxByIid m.iid with
    | none => false
    | some m' =>
      metaSame m m' &&
      (if target.contains m.rid then
         (if m.hasRid mrid then mboxSame m m'
          else m'.rows.map Row.key == m.rows.map Row.key ++ [(m.seq + 1, mrid, false)] && m'.seq == m.seq + 1)
       else m'.rows.map Row.key == (m.rows.filter (fun r => r.rid != mrid)).map Row.key && m'.seq == m.seq)) &&
  db'.mboxes.all (fun m' => (db.mboxByIid m'.iid).isSome)

/-! ### valid updates and their described effect -/

def firstOf (ms : List NewMsg) (rid : RID) : Option NewMsg := ms.find? (fun m => m.rid == rid)

def validNew (cfg : Cfg) (db : DB) (ignore : Bool) (m : NewMsg) : Bool :=
  !m.mboxes.contains cfg.recoveryRID && !isGhostRid m.rid &&
  m.mboxes.all (fun b => ignore || db.known b)

def Valid (cfg : Cfg) (db : DB) : Update → Bool
  | .mailboxCreated rid name =>
      rid != cfg.recoveryRID && !db.known rid && !db.mboxes.any (fun m => m.name == name) &&
      db.gen + 1 < cfg.maxUIDValidity && db.mboxes.length < cfg.maxMailboxes
  | .mailboxDeleted rid =>
      rid != cfg.recoveryRID &&
      (match db.mboxByRid rid with
       | some mb => !mb.subscribed || (addDeletedSub db.delSubs mb.name rid).isSome
       | none => false)
  | .mailboxUpdated rid name =>
      rid != cfg.recoveryRID && lowerAscii name != "inbox" &&
      (match db.mboxByRid rid with
       | some mb => mb.name != name && !db.mboxes.any (fun m => m.name == name)
       | none => false)
  | .mailboxIDChanged iid rid =>
      iid != cfg.recoveryIID && (db.mboxByIid iid).isSome && !db.mboxes.any (fun m => m.rid == rid)
  | .messagesCreated ignore ms =>
      !ms.isEmpty && ms.all (validNew cfg db ignore) &&
      db.mboxes.all (fun m => roomFor cfg m ms.length)
  | .messageMailboxesUpdated rid mbs _ =>
      !mbs.contains cfg.recoveryRID && (db.liveMsg rid).isSome && db.mboxes.all (fun m => roomFor cfg m 1)
  | .messageFlagsUpdated rid _ => (db.liveMsg rid).isSome
  | .messageIDChanged iid rid =>
      (match db.msgByIid iid with
       | some g => !g.deleted && !db.msgs.any (fun m => m.rid == rid)
       | none => false)
  | .messageDeleted rid => (db.liveMsg rid).isSome
  | .messageUpdated m allowCreate =>
      !m.mboxes.contains cfg.recoveryRID && !isGhostRid m.rid && db.mboxes.all (fun b => roomFor cfg b 1) &&
      (match db.msgByRid m.rid with
       | none => allowCreate
       | some g => !g.deleted && m.mboxes.all db.known && nodupKeys id m.mboxes)
  | .uidValidityBumped => true
  | .noop => true
  | .unknown => false

/-- the one message of `db'` with remote id `rid` is live and carries exactly `flags` -/
def liveWithFlags (db' : DB) (rid : RID) (flags : List Flag) : Bool :=
  match db'.liveMsg rid with
  | some g => sameSet g.flags flags
  | none => false

/-- described effect of `MessagesCreated` (also of `MessageUpdated` creating an unknown message) -/
def effectCreated (ms : List NewMsg) (db db' : DB) : Bool :=
  -- (1) every listed message exists afterwards: new ones with the flags of their first
  --     occurrence, known ones unchanged
  ms.all (fun m =>
    match db.liveMsg m.rid with
    | some g => (match db'.msgByRid m.rid with | some g' => msgSame g g' | none => false)
    | none => (match firstOf ms m.rid with | some f => liveWithFlags db' m.rid f.flags | none => false)) &&
  -- (2) and is in every listed mailbox the server knows
  ms.all (fun m => m.mboxes.all (fun b => !db.known b || db'.inMbox b m.rid)) &&
  -- (3) every mailbox only gained rows, each for a listed (message, mailbox) pair, with fresh UIDs
  db.mboxes.all (fun b =>
    match db'.mboxByIid b.iid with
    | some b' => metaSame b b' && rowsExtended b b' (fun r => ms.any (fun m => m.rid == r && m.mboxes.contains b.rid))
    | none => false) &&
  db'.mboxes.all (fun b' => (db.mboxByIid b'.iid).isSome) &&
  -- (4) no other message changed
  sameMsgsExcept (fun r => ms.any (fun m => m.rid == r)) db db' && sameDelSubs db db'

def effectOK (u : Update) (db db' : DB) : Bool :=
  match u with
  | .mailboxCreated rid name =>
      sameMboxesExcept (fun m => m.rid == rid) db db' && sameMsgs db db' && sameDelSubs db db' &&
      (match db'.mboxByRid rid with
       | some m => m.name == name && m.rows.isEmpty && m.seq == 0 && m.subscribed && m.uidv == db.gen + 1 &&
                   m.iid == db.nextMbox && db'.nextMbox == db.nextMbox + 1
       | none => false)
  | .mailboxDeleted rid =>
      sameMboxesExcept (fun m => m.rid == rid) db db' && sameMsgs db db' && !db'.known rid &&
      db'.nextMbox == db.nextMbox
  | .mailboxUpdated rid name =>
      sameMboxesExcept (fun m => m.rid == rid) db db' && sameMsgs db db' && sameDelSubs db db' &&
      (match db.mboxByRid rid, db'.mboxByRid rid with
       | some m, some m' => mboxSame { m with name := name } m'
       | _, _ => false)
  | .mailboxIDChanged iid rid =>
      sameMboxesExcept (fun m => m.iid == iid) db db' && sameMsgs db db' && sameDelSubs db db' &&
      (match db.mboxByIid iid, db'.mboxByIid iid with
       | some m, some m' => mboxSame { m with rid := rid } m'
       | _, _ => false)
  | .messagesCreated _ ms => effectCreated ms db db'
  | .messageMailboxesUpdated rid mbs flags =>
      membershipSet db db' rid mbs && liveWithFlags db' rid flags &&
      sameMsgsExcept (fun r => r == rid) db db' && sameDelSubs db db'
  | .messageFlagsUpdated rid flags =>
      sameMboxes db db' && liveWithFlags db' rid flags && sameMsgsExcept (fun r => r == rid) db db' &&
      sameDelSubs db db'
  | .messageIDChanged iid rid =>
      sameMboxes db db' && sameDelSubs db db' &&
      (match db.msgByIid iid with
       | some g => (match db'.msgByRid rid with
                    | some g' => sameSet g.flags g'.flags && g.deleted == g'.deleted
                    | none => false) &&
                   (g.rid == rid || (db'.msgByRid g.rid).isNone) &&
                   sameMsgsExcept (fun r => r == rid || r == g.rid) db db'
       | none => false)
  | .messageDeleted rid =>
      membershipSet db db' rid [] && (db'.liveMsg rid).isNone &&
      sameMsgsExcept (fun r => r == rid) db db' && sameDelSubs db db'
  | .messageUpdated m _ =>
      match db.msgByRid m.rid with
      | none => effectCreated [m] db db'
      | some g =>
        if g.lit == m.lit then
          membershipSet db db' m.rid m.mboxes && liveWithFlags db' m.rid m.flags &&
          sameMsgsExcept (fun r => r == m.rid) db db' && sameDelSubs db db'
        else
          -- the old instance is gone from every mailbox; a new one (same remote id, the new flags)
          -- has the next UID in exactly the listed mailboxes
          db.mboxes.all (fun b =>
            match db'.mboxByIid b.iid with
            | none => false
            | some b' =>
              metaSame b b' &&
              (if m.mboxes.contains b.rid then
                 b'.rows.map Row.key ==
                   (b.rows.filter (fun r => r.rid != m.rid)).map Row.key ++ [(b.seq + 1, m.rid, false)] &&
                 b'.seq == b.seq + 1
               else b'.rows.map Row.key == (b.rows.filter (fun r => r.rid != m.rid)).map Row.key && b'.seq == b.seq)) &&
          db'.mboxes.all (fun b' => (db.mboxByIid b'.iid).isSome) &&
          liveWithFlags db' m.rid m.flags &&
          sameMsgsExcept (fun r => r == m.rid || isGhostRid r) db db' && sameDelSubs db db'
  | .uidValidityBumped =>
      sameMsgs db db' && sameDelSubs db db' &&
      db.mboxes.all (fun m =>
        match db'.mboxByIid m.iid with
        | some m' => mboxSame { m with uidv := m'.uidv } m' && m'.uidv > db.gen
        | none => false) &&
      db'.mboxes.all (fun m' => (db.mboxByIid m'.iid).isSome) &&
      nodupKeys (·.uidv) db'.mboxes
  | .noop => sameState db db'
  | .unknown => false

/-! ### updates that only restate the current state -/

def Restates (cfg : Cfg) (db : DB) : Update → Bool
  | .mailboxCreated rid name =>
      rid != cfg.recoveryRID && (match db.mboxByRid rid with | some m => m.name == name | none => false)
  | .mailboxDeleted rid => rid != cfg.recoveryRID && !db.known rid
  | .mailboxUpdated rid name =>
      rid != cfg.recoveryRID && (match db.mboxByRid rid with | some m => m.name == name | none => false)
  | .mailboxIDChanged iid rid =>
      iid != cfg.recoveryIID && (match db.mboxByIid iid with | some m => m.rid == rid | none => false)
  | .messagesCreated ignore ms =>
      ms.all (fun m => !m.mboxes.contains cfg.recoveryRID && (db.liveMsg m.rid).isSome &&
                       m.mboxes.all (fun b => if db.known b then db.inMbox b m.rid else ignore))
  | .messageMailboxesUpdated rid mbs flags =>
      !mbs.contains cfg.recoveryRID &&
      (match db.liveMsg rid with
       | some g => sameSet g.flags flags && sameSet (db.mboxRidsOf rid) (mbs.filter db.known)
       | none => false)
  | .messageFlagsUpdated rid flags =>
      (match db.liveMsg rid with | some g => sameSet g.flags flags | none => false)
  | .messageIDChanged iid rid =>
      cfg.msgIDTableOK && (match db.msgByIid iid with | some g => g.rid == rid | none => false)
  | .messageDeleted rid =>
      (match db.msgByRid rid with
       | some g => g.deleted && !db.mboxes.any (fun m => m.has g.iid)
       | none => true)
  | .messageUpdated m _ =>
      (match db.liveMsg m.rid with
       | some g => g.lit == m.lit && sameSet g.flags m.flags && m.mboxes.all db.known &&
                   sameSet (db.mboxRidsOf m.rid) m.mboxes
       | none => false)
  | .uidValidityBumped => false
  | .noop => true
  | .unknown => false

/-! ### updates that refer to unknown or protected objects -/

/-- the update must be refused with an error -/
def InvalidErr (cfg : Cfg) (db : DB) : Update → Bool
  | .mailboxCreated rid _ => rid == cfg.recoveryRID
  | .mailboxDeleted rid => rid == cfg.recoveryRID
  | .mailboxUpdated rid _ => rid == cfg.recoveryRID
  | .mailboxIDChanged iid _ => iid == cfg.recoveryIID || (db.mboxByIid iid).isNone
  | .messagesCreated ignore ms =>
      !ignore && ms.any (fun m => !m.mboxes.contains cfg.recoveryRID && m.mboxes.any (fun b => !db.known b))
  | .messageMailboxesUpdated rid mbs _ => mbs.contains cfg.recoveryRID || (db.msgByRid rid).isNone
  | .messageFlagsUpdated rid _ => (db.msgByRid rid).isNone
  | .messageIDChanged iid _ => (db.msgByIid iid).isNone
  | .messageDeleted _ => false
  | .messageUpdated m _ =>
      (match db.msgByRid m.rid with
       | some _ => m.mboxes.any (fun b => !db.known b)
       | none => false)
  | .uidValidityBumped => false
  | .noop => false
  | .unknown => true

/-- the update is skipped without an error (nothing to apply it to) -/
def InvalidSkip (cfg : Cfg) (db : DB) : Update → Bool
  | .mailboxUpdated rid _ => rid != cfg.recoveryRID && !db.known rid
  | .messagesCreated _ ms => ms.all (fun m => m.mboxes.contains cfg.recoveryRID)
  | .messageUpdated m allowCreate =>
      (db.msgByRid m.rid).isNone && (!allowCreate || m.mboxes.contains cfg.recoveryRID)
  | _ => false

def Invalid (cfg : Cfg) (db : DB) (u : Update) : Bool := InvalidErr cfg db u || InvalidSkip cfg db u

/-- DESIGN §6 C06 also asks that an update naming the protected recovery mailbox is refused; for
    `MessageUpdated` of a known message the code has no such check (see
    `C06.protected_mailbox_MessageUpdated_counterexample`) -/
def ProtectedViaMessageUpdated (cfg : Cfg) (db : DB) : Update → Bool
  | .messageUpdated m _ => (db.msgByRid m.rid).isSome && m.mboxes.contains cfg.recoveryRID
  | _ => false

/-- the update names the protected recovery mailbox (a batch: in every message) -/
def NamesProtected (cfg : Cfg) : Update → Bool
  | .mailboxCreated rid _ => rid == cfg.recoveryRID
  | .mailboxDeleted rid => rid == cfg.recoveryRID
  | .mailboxUpdated rid _ => rid == cfg.recoveryRID
  | .mailboxIDChanged iid _ => iid == cfg.recoveryIID
  | .messagesCreated _ ms => ms.all (fun m => m.mboxes.contains cfg.recoveryRID)
  | .messageMailboxesUpdated _ mbs _ => mbs.contains cfg.recoveryRID
  | .messageUpdated m _ => m.mboxes.contains cfg.recoveryRID
  | _ => false

/-! ### well-formedness of the index (what the SQLite schema and the writers guarantee) -/

def rowsAscending : Nat → List Row → Bool
  | _, [] => true
  | lo, r :: rs => lo < r.uid && rowsAscending r.uid rs

/-- UNIQUE keys, UIDs ascending and ≤ the sequence value, rows point at existing messages and carry
    their remote id, counters ahead of every id in use -/
def Inv (db : DB) : Bool :=
  nodupKeys (·.iid) db.mboxes && nodupKeys (·.rid) db.mboxes && nodupKeys (·.name) db.mboxes &&
  nodupKeys (·.iid) db.msgs && nodupKeys (·.rid) db.msgs &&
  db.mboxes.all (fun m => m.iid < db.nextMbox && rowsAscending 0 m.rows && m.rows.all (fun r => r.uid ≤ m.seq) &&
    nodupKeys (·.msg) m.rows && nodupKeys (·.rid) m.rows &&
    m.rows.all (fun r => match db.msgByIid r.msg with | some g => g.rid == r.rid | none => false)) &&
  db.msgs.all (fun g => g.iid < db.nextMsg) &&
  nodupKeys (·.1) db.delSubs && nodupKeys (·.2) db.delSubs

end Gluon.ConnUpd
