/-
Reference semantics for the last clause of C12 ("for a well-formed message the structure is the
MIME tree the message was built from"): how a multipart body is rendered from its parts, and
what `ScanAll` is expected to answer for it.  CRLF line ends, no preamble, no epilogue.
-/
import GluonModel.Model.MimeScan

namespace Gluon.Mime

def CRLF : Bytes := [CR, LF]

/-- what follows a delimiter `--boundary`: either the closing `--` CRLF, or CRLF, the next part,
    CRLF and the next delimiter -/
def afterDelim (sb : Bytes) : List Bytes → Bytes
  | [] => [DASH, DASH] ++ CRLF
  | p :: ps => CRLF ++ (p ++ (CRLF ++ (sb ++ afterDelim sb ps)))

/-- the body of a multipart with boundary delimiter `sb = "--" ++ boundary` and parts `ps` -/
def renderParts (sb : Bytes) (ps : List Bytes) : Bytes := sb ++ afterDelim sb ps

/-- **BoundaryFresh** for one part: the first occurrence of the delimiter in `part CRLF delimiter`
    is the delimiter itself (the delimiter neither occurs in the part nor straddles its end) -/
def Fresh (sb p : Bytes) : Prop := index (p ++ (CRLF ++ sb)) sb = some (p.length + 2)

/-- the parts `ScanAll` should report, the first one starting at offset `o` -/
def expectedParts (sb : Bytes) : Nat → List Bytes → List Part
  | _, [] => []
  | o, p :: ps => ⟨o, o, o + p.length⟩ :: expectedParts sb (o + p.length + 2 + sb.length + 2) ps

/-! ### MIME trees -/

/-- a message as its builder sees it: every node has its header block (`hdr`, including the
    terminating blank line) and then a body / parts / an embedded message -/
inductive MTree where
  | leaf (hdr body : Bytes)
  | multi (hdr boundary : Bytes) (kids : List MTree)
  | msg (hdr : Bytes) (inner : MTree)            -- message/rfc822

def MTree.hdr : MTree → Bytes
  | .leaf h _ => h
  | .multi h _ _ => h
  | .msg h _ => h

mutual
  /-- what follows the header -/
  def MTree.rest : MTree → Bytes
    | .leaf _ b => b
    | .multi _ bnd kids => renderParts (startBoundary bnd) (MTree.restList kids)
    | .msg _ inner => inner.hdr ++ inner.rest
  /-- the rendered parts of a multipart -/
  def MTree.restList : List MTree → List Bytes
    | [] => []
    | t :: ts => (t.hdr ++ t.rest) :: MTree.restList ts
end

/-- the message bytes -/
def MTree.render (t : MTree) : Bytes := t.hdr ++ t.rest

/-- the section of the node itself when its first byte is at offset `o` -/
def MTree.rootSec (o : Nat) (t : MTree) : Sec := ⟨o, o + t.hdr.length, o + t.render.length⟩

mutual
  /-- the sections `Children()` should return for the node at offset `o`: the parts of a
      multipart, and for message/rfc822 the children of the embedded message (hoisted) -/
  def MTree.kidSecs : Nat → MTree → List Sec
    | _, .leaf _ _ => []
    | o, .multi h bnd kids =>
      MTree.kidSecsList (startBoundary bnd) (o + h.length + (startBoundary bnd).length + 2) kids
    | o, .msg h inner => inner.kidSecs (o + h.length)
  def MTree.kidSecsList (sb : Bytes) : Nat → List MTree → List Sec
    | _, [] => []
    | o, t :: ts => t.rootSec o :: MTree.kidSecsList sb (o + t.render.length + 2 + sb.length + 2) ts
end

mutual
  /-- the section tree `Walk` should visit -/
  def MTree.expect : Nat → MTree → STree
    | o, .leaf h b => .node ((MTree.leaf h b).rootSec o) []
    | o, .multi h bnd kids =>
      .node ((MTree.multi h bnd kids).rootSec o)
        (MTree.expectList (startBoundary bnd) (o + h.length + (startBoundary bnd).length + 2) kids)
    | o, .msg h inner => .node ((MTree.msg h inner).rootSec o) (inner.expectKids (o + h.length))
  /-- the expected subtrees below the node at offset `o` -/
  def MTree.expectKids : Nat → MTree → List STree
    | _, .leaf _ _ => []
    | o, .multi h bnd kids =>
      MTree.expectList (startBoundary bnd) (o + h.length + (startBoundary bnd).length + 2) kids
    | o, .msg h inner => inner.expectKids (o + h.length)
  def MTree.expectList (sb : Bytes) : Nat → List MTree → List STree
    | _, [] => []
    | o, t :: ts => t.expect o :: MTree.expectList sb (o + t.render.length + 2 + sb.length + 2) ts
end

/-- the header block `h` is what `parse` finds in front of `rest`: `Split` cuts exactly there and
    `NewHeader` accepts it -/
def HdrAt (env : HdrEnv) (h rest : Bytes) : Prop := split (h ++ rest) = .ok (h, rest) ∧ (env h).ok = true

mutual
  /-- **well-built message**: every header block is found by `Split`, the (abstract) media type
      parser answers what the node is, and every part of a multipart is `Fresh` for its boundary -/
  def MTree.Good (env : HdrEnv) : MTree → Prop
    | .leaf h b => HdrAt env h b ∧ ctOf env h = .other
    | .multi h bnd kids =>
      HdrAt env h (renderParts (startBoundary bnd) (MTree.restList kids)) ∧ h.length ≠ 0 ∧
        (env h).ct = .multipart bnd ∧ MTree.GoodList env (startBoundary bnd) kids
    | .msg h inner => HdrAt env h (inner.hdr ++ inner.rest) ∧ h.length ≠ 0 ∧ (env h).ct = .rfc822 ∧ inner.Good env
  def MTree.GoodList (env : HdrEnv) (sb : Bytes) : List MTree → Prop
    | [] => True
    | t :: ts => t.Good env ∧ Fresh sb (t.hdr ++ t.rest) ∧ MTree.GoodList env sb ts
end

end Gluon.Mime
