/-
Reference semantics of SEARCH (RFC 3501 section 6.4.4, with section 9 for message sets), property C15.

`sat box dec m k` : message `m` of the mailbox `box` satisfies search key `k`.  The definition
follows the RFC text key by key and knows nothing of how gluon evaluates a search (no build phase,
no closures, no intervals, no errors).  The only thing shared with the model is the syntax of the
command (`Search.Leaf`, `Search.Key`, `Search.SeqRange`: the parsed `command.Search`).

What a message is, for the RFC (`Msg`):
  seq, uid, flags   the session's view of it (flags as lower-case keys, `\recent` included)
  size              RFC822.SIZE
  day               the date of INTERNALDATE "disregarding time and timezone", as a day number
  sentDay           the date of the `Date:` header "disregarding time and timezone"; `none` when the
                    message has no parseable Date header (such a message satisfies no SENT* key)
  fields            the header fields in order: (name, unfolded text after the colon)
  body, text        the body; the entire message (header and body)

String keys: "a message matches the key if the string is a substring of the field.  The matching is
case-insensitive" — `containsCI` (ASCII case folding; see the model's note on Unicode).  `dec` is
the decoding of the key from the CHARSET of the command (`some` when there is none).
HEADER: "messages that have a header with the specified field-name and that contains the specified
string in the text of the header (what comes after the colon).  If the string to search is
zero-length, this matches all messages that have a header line with the specified field-name
regardless of the contents" — one formula: SOME field of that name contains the string.  FROM, TO, CC,
BCC, SUBJECT (envelope fields) are read as HEADER with that field name.
Message sets: a number stands for itself, `*` for the largest number in use (`box.count` for sequence
numbers, `box.maxUid` for UIDs), `a:b` for everything between the two values in either order.
(RFC 3501 wants BAD for a sequence number above `box.count`: `seqValid`.)
-/
import GluonModel.Model.Search

namespace Gluon
namespace SearchSpec
open Gluon.Search (Bytes Leaf Key SeqRange)

structure Msg where
  seq : Nat
  uid : Nat
  flags : Flags
  size : Int
  day : Int
  sentDay : Option Int
  fields : List (Bytes × Bytes)
  body : Bytes
  text : Bytes
deriving Repr

/-- the selected mailbox as far as message sets need it -/
structure Box where
  count : Nat
  maxUid : Nat
deriving Repr

/-! ### case-insensitive substring -/

def foldByte (c : UInt8) : UInt8 := if 65 ≤ c && c ≤ 90 then c + 32 else c
def eqCI (a b : UInt8) : Bool := foldByte a == foldByte b

/-- `needle` is, up to case, a prefix of `hay` -/
def prefixCI : Bytes → Bytes → Bool
  | [], _ => true
  | _ :: _, [] => false
  | a :: as, b :: bs => eqCI a b && prefixCI as bs

/-- `needle` occurs, up to case, somewhere in `hay` -/
def containsCI : Bytes → Bytes → Bool
  | [], needle => needle.isEmpty
  | c :: tl, needle => prefixCI needle (c :: tl) || containsCI tl needle

def nameEq (a b : Bytes) : Bool := a.length == b.length && prefixCI a b

/-- some header field called `name` contains `key` -/
def hasField (m : Msg) (name key : Bytes) : Bool :=
  m.fields.any fun f => nameEq f.1 name && containsCI f.2 key

/-! ### message sets -/

def numVal (top : Nat) (x : Int) : Int := if x = 0 then (top : Int) else x

def inRange (top : Nat) (x : Nat) (r : SeqRange) : Bool :=
  decide (min (numVal top r.b) (numVal top r.e) ≤ (x : Int) ∧ (x : Int) ≤ max (numVal top r.b) (numVal top r.e))

def inSet (top : Nat) (set : List SeqRange) (x : Nat) : Bool := set.any (inRange top x)

/-! ### keys -/

def strKey (dec : Bytes → Option Bytes) (v : Bytes) (p : Bytes → Bool) : Bool :=
  match dec v with
  | none => false
  | some k => p k

def n (s : String) : Bytes := s.toUTF8.toList

def satLeaf (box : Box) (dec : Bytes → Option Bytes) (m : Msg) : Leaf → Bool
  | .all => true
  | .answered => m.flags.contains "\\answered"
  | .bcc v => strKey dec v (hasField m (n "Bcc"))
  | .before d => decide (m.day < d)
  | .body v => strKey dec v (containsCI m.body)
  | .cc v => strKey dec v (hasField m (n "Cc"))
  | .deleted => m.flags.contains "\\deleted"
  | .draft => m.flags.contains "\\draft"
  | .flagged => m.flags.contains "\\flagged"
  | .from v => strKey dec v (hasField m (n "From"))
  | .header f v => strKey dec v (hasField m f)
  | .keyword a => m.flags.contains a.toLower
  | .larger k => decide (m.size > k)
  | .new => m.flags.contains "\\recent" && !m.flags.contains "\\seen"
  | .old => !m.flags.contains "\\recent"
  | .on d => decide (m.day = d)
  | .recent => m.flags.contains "\\recent"
  | .seen => m.flags.contains "\\seen"
  | .sentBefore d => match m.sentDay with | none => false | some s => decide (s < d)
  | .sentOn d => match m.sentDay with | none => false | some s => decide (s = d)
  | .sentSince d => match m.sentDay with | none => false | some s => decide (s ≥ d)
  | .since d => decide (m.day ≥ d)
  | .smaller k => decide (m.size < k)
  | .subject v => strKey dec v (hasField m (n "Subject"))
  | .text v => strKey dec v (containsCI m.text)
  | .to v => strKey dec v (hasField m (n "To"))
  | .uid set => inSet box.maxUid set m.uid
  | .unanswered => !m.flags.contains "\\answered"
  | .undeleted => !m.flags.contains "\\deleted"
  | .undraft => !m.flags.contains "\\draft"
  | .unflagged => !m.flags.contains "\\flagged"
  | .unkeyword a => !m.flags.contains a.toLower
  | .unseen => !m.flags.contains "\\seen"
  | .seqSet set => inSet box.count set m.seq

mutual
/-- NOT: does not match; OR: either matches; parenthesised list: all match -/
def sat (box : Box) (dec : Bytes → Option Bytes) (m : Msg) : Key → Bool
  | .leaf l => satLeaf box dec m l
  | .not k => !(sat box dec m k)
  | .or a b => sat box dec m a || sat box dec m b
  | .list ks => satAll box dec m ks
/-- juxtaposed keys: all match -/
def satAll (box : Box) (dec : Bytes → Option Bytes) (m : Msg) : List Key → Bool
  | [] => true
  | k :: ks => sat box dec m k && satAll box dec m ks
end

/-! ### RFC 3501 section 9: a sequence number above the message count (or `*` on an empty mailbox) is an error -/

def rangeValid (count : Nat) (r : SeqRange) : Bool :=
  decide ((r.b = 0 → count > 0) ∧ (r.e = 0 → count > 0) ∧ r.b ≤ count ∧ r.e ≤ count)

def seqValidLeaf (count : Nat) : Leaf → Bool
  | .seqSet set => set.all (rangeValid count)
  | _ => true

mutual
def seqValid (count : Nat) : Key → Bool
  | .leaf l => seqValidLeaf count l
  | .not k => seqValid count k
  | .or a b => seqValid count a && seqValid count b
  | .list ks => seqValidAll count ks
def seqValidAll (count : Nat) : List Key → Bool
  | [] => true
  | k :: ks => seqValid count k && seqValidAll count ks
end

/-! ### the session's view as RFC messages -/

/-- How the model's message data is read as an RFC message.
    `day`: the calendar day of the internal date **in UTC** — the date the server itself reports in
    `FETCH INTERNALDATE` (`item_internal_date.go` formats `date.UTC()`), i.e. the only internal date a
    client can see.  `sentDay`: the calendar day the Date header names in its own zone. -/
def toMsg (seq : Nat) (sm : SMsg) (d : Search.MsgData) : Msg :=
  { seq := seq, uid := sm.uid, flags := sm.flags, size := d.size,
    day := d.date.utcDay, sentDay := d.sent.map (·.localDay),
    fields := d.hdr.getD [], body := d.body, text := d.text }

/-- messages of the snapshot from index `i` on, numbered `i+1, i+2, …` -/
def viewFrom (data : MsgId → Search.MsgData) : Nat → List SMsg → List Msg
  | _, [] => []
  | i, sm :: rest => toMsg (i + 1) sm (data sm.id) :: viewFrom data (i + 1) rest

def view (s : Snap) (data : MsgId → Search.MsgData) : List Msg := viewFrom data 0 s

def boxOf (s : Snap) : Box :=
  { count := s.length, maxUid := match s.getLast? with | some l => l.uid | none => 0 }

/-- **what SEARCH / UID SEARCH must answer**: the messages of the view that satisfy all keys, in
    view order, as sequence numbers or UIDs -/
def expected (uidMode : Bool) (s : Snap) (data : MsgId → Search.MsgData) (dec : Bytes → Option Bytes)
    (keys : List Key) : List Nat :=
  ((view s data).filter (fun m => satAll (boxOf s) dec m keys)).map (fun m => if uidMode then m.uid else m.seq)

end SearchSpec
end Gluon
