/-
What the IMAP specifications require of each command gluon parses: in which protocol state it
is valid (RFC 3501 §6.1–6.4; ID: RFC 2971 "any state"; IDLE: RFC 2177 "authenticated or selected";
UNSELECT RFC 3691, UID EXPUNGE RFC 4315, MOVE RFC 6851: selected state).  Keys are the Go payload
type names of /repo/imap/command.  This is the reference C18 speaks about; the code's own
dispatch table is regenerated into `Generated/Facts/Dispatch.lean` and compared with it.
-/
namespace Gluon.AuthSpec

inductive Req where
  | anyState        -- valid before authentication, no access to any user's data
  | notAuthOnly     -- valid only before authentication (LOGIN, STARTTLS)
  | authenticated   -- needs an authenticated session (mailbox commands)
  | selected        -- needs a selected mailbox (message commands)
  | continuation    -- not a command: the DONE line that ends IDLE
deriving DecidableEq, Repr

def required : List (String × Req) := [
  ("Capability", .anyState), ("Noop", .anyState), ("Logout", .anyState), ("IDGet", .anyState), ("IDSet", .anyState),
  ("StartTLS", .notAuthOnly), ("Login", .notAuthOnly),
  ("Select", .authenticated), ("Examine", .authenticated), ("Create", .authenticated), ("Delete", .authenticated),
  ("Rename", .authenticated), ("Subscribe", .authenticated), ("Unsubscribe", .authenticated), ("List", .authenticated),
  ("LSub", .authenticated), ("Status", .authenticated), ("Append", .authenticated), ("Idle", .authenticated),
  ("Check", .selected), ("Close", .selected), ("Expunge", .selected), ("UIDExpunge", .selected), ("Unselect", .selected),
  ("Search", .selected), ("Fetch", .selected), ("Store", .selected), ("Copy", .selected), ("Move", .selected), ("UID", .selected),
  ("Done", .continuation)
]

/-- a mailbox or message command: must be refused and change nothing before authentication -/
def needsAuth (ty : String) : Bool :=
  match required.lookup ty with
  | some .authenticated => true
  | some .selected => true
  | _ => false

/-- a message command: must be refused without a selected mailbox -/
def needsSelected (ty : String) : Bool :=
  match required.lookup ty with
  | some .selected => true
  | _ => false

end Gluon.AuthSpec
