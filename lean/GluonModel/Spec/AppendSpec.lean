/-
What property C20 speaks about, over the model `GluonModel/Model/Append.lean`: where a literal is,
and the named hypotheses of the partial theorems.
-/
import GluonModel.Model.Append

namespace Gluon.Append

/-- mailbox `n` holds, under UID `uid`, a stored message with literal `l` -/
def Holds (s : St) (n : String) (uid : Nat) (l : Lit) : Prop :=
  ∃ b id, getBox s.db n = some b ∧ (uid, id) ∈ b.msgs ∧ s.store.lookup id = some l

/-- the recovery mailbox holds the literal `l`, byte for byte -/
def inRecovery (s : St) (l : Lit) : Bool := (recMsgs s).any (fun p => s.store.lookup p.2 == some l)

/-- the literals of the recovery mailbox -/
def recLits (s : St) : List Lit := (recMsgs s).filterMap (fun p => s.store.lookup p.2)

/-- how many times the recovery mailbox holds `l` -/
def recCount (s : St) (l : Lit) : Nat := ((recLits s).filter (· == l)).length

/-- `rfc822.GetMessageHash` tells these messages apart (it reads neither Date nor Message-Id, so
    this fails for two messages that differ only there) -/
def HashInjectiveOn (H : Nat → Nat) (ls : List Lit) : Prop := ∀ a ∈ ls, ∀ b ∈ ls, H a.hv = H b.hv → a = b

/-- no store or database write failed after `actionCreateRecoveredMessage` had inserted the
    content hash (design finding #19); a restart clears the condition -/
def NoStorageFaultAfterHashInsert (s : St) : Prop := s.staleHash = false

/-- no transaction rolled back after `MessageHashesMap.Erase` (MOVE out of the recovery mailbox
    erases the hashes before the destination is written) -/
def NoFaultAfterHashErase (s : St) : Prop := s.lostHash = false

/-- `imap.NewParsedMessage` and `rfc822.GetMessageHash` accept the literal -/
def Digestible (l : Lit) : Prop := l.parseOk = true ∧ l.hashOk = true

/-- the IDs generated next (`uuid.New` in the connector and in `imap.NewInternalMessageID`) are
    not in use: no message of the database has the connector's next remote ID, no mailbox holds the
    next internal ID -/
def IdsFresh (s : St) : Prop :=
  idOfRid s.db (2 * s.nextRid) = none ∧ ∀ b ∈ s.db.boxes, boxHas b s.nextId = false

end Gluon.Append

namespace Gluon.Append

/-- how the message under the UID announced by an OK got there -/
inductive OkVia (s s' : St) (n : String) (l : Lit) (uid : Nat) : Prop where
  /-- the bytes handed over were written in this step (with gluon's own X-Pm-Gluon-Id line) -/
  | stored (l0 : Lit) (hb : l0.sameBytes l) (h : Holds s' n uid l0)
  /-- the literal carried the X-Pm-Gluon-Id of a live message `g`: that message was added to the
      mailbox instead, the bytes handed over were not looked at -/
  | gluonId (g : Nat) (hg : l.gid = .id g) (hrow : ∃ row, s.db.rows.lookup g = some row ∧ row.deleted = false)
      (h : ∃ b, getBox s'.db n = some b ∧ (uid, g) ∈ b.msgs)
  /-- the connector answered with a remote ID `rid` the database already has a message for
      (`known`): that message was added to the mailbox instead.  `rid` is the connector's next new
      ID, or (`COut.dup`) the ID of a message it created earlier from an identical literal -/
  | remoteDup (known rid : Nat) (hk : idOfRid s.db rid = some known)
      (hrid : rid = 2 * s.nextRid ∨ (s.sc.create.head? = some .dup ∧ ∃ l1, l1.sameBytes l ∧ (rid, l1) ∈ s.remote))
      (h : ∃ b, getBox s'.db n = some b ∧ (uid, known) ∈ b.msgs)

end Gluon.Append
