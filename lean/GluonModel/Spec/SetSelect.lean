/-
Reference semantics of IMAP message sets for the wire-level oracle of C16 (`vh oracle c16sets`):
RFC 3501 section 9 (`sequence-set`, `seq-range`, `seq-number`) read literally over unbounded `Nat`s.
Self-contained on purpose (core Lean only, no import): written before the unit-level C16 check was
delivered, independently of the model of gluon's resolver.  It says the same thing as
`Spec/SeqSetSpec.lean` (`selectSeq` / `selectUID` / `excludedUIDItem`) and additionally reads the
*text* of a set.  The judge (Driver/DJudgeSets.lean) takes its verdict from SeqSetSpec and uses this
file as an independent twin: the two must agree on every case it judges.

  sequence-set = (seq-number / seq-range) *("," sequence-set)
  seq-range    = seq-number ":" seq-number      ; 2:4 and 4:2 are equivalent
  seq-number   = nz-number / "*"                ; "*" = the largest number in use

A view is the list of UIDs the session sees, in mailbox order; position `i` (0-based) has message
sequence number `i+1`.

* message sequence numbers: a number greater than the number of messages, and `*` on an empty
  mailbox, make the command an error (tagged BAD); otherwise the set selects the positions.
* UIDs: `*` is the largest UID in use; UIDs that do not exist are skipped silently; on an empty
  mailbox nothing is selected; never an error.
-/
namespace Gluon.SetSelect

inductive SNum where
  | star
  | num (n : Nat)
deriving DecidableEq, Repr

inductive SItem where
  | one (a : SNum)
  | range (a b : SNum)
deriving DecidableEq, Repr

abbrev SSet := List SItem
abbrev View := List Nat

def SItem.nums : SItem → List SNum
  | .one a => [a]
  | .range a b => [a, b]

/-! ### reading the text (strict: digits without leading zero, not zero) -/

def readNum (s : String) : Option SNum :=
  if s == "*" then some .star
  else if s.isEmpty || s.startsWith "0" || !(s.all Char.isDigit) then none
  else s.toNat?.map .num

def readItem (s : String) : Option SItem :=
  match s.splitOn ":" with
  | [a] => (readNum a).map .one
  | [a, b] => do some (.range (← readNum a) (← readNum b))
  | _ => none

def readSet (s : String) : Option SSet :=
  if s.isEmpty then none else (s.splitOn ",").mapM readItem

/-! ### selection; results are lists of message sequence numbers (positions) -/

/-- positions `1 … v.length` paired with their UID -/
def entries (v : View) : List (Nat × Nat) := (List.range v.length).zip v |>.map fun (i, u) => (i + 1, u)

def seqVal (v : View) : SNum → Option Nat
  | .star => if v.length = 0 then none else some v.length
  | .num n => if 1 ≤ n ∧ n ≤ v.length then some n else none

def between (lo hi x : Nat) : Bool := lo ≤ x && x ≤ hi

def selectSeqItem (v : View) : SItem → Option (List Nat)
  | .one a => (seqVal v a).map fun x => [x]
  | .range a b => match seqVal v a, seqVal v b with
    | some x, some y => some (((entries v).filter fun e => between (min x y) (max x y) e.1).map (·.1))
    | _, _ => none

/-- `none` = the command must fail -/
def selectSeq (v : View) : SSet → Option (List Nat)
  | [] => some []
  | it :: rest => match selectSeqItem v it, selectSeq v rest with
    | some l, some more => some (l ++ more)
    | _, _ => none

def maxUID (v : View) : Nat := v.foldl max 0

def uidVal (v : View) : SNum → Nat
  | .star => maxUID v
  | .num n => n

def selectUIDItem (v : View) : SItem → List Nat
  | .one a => ((entries v).filter fun e => e.2 == uidVal v a).map (·.1)
  | .range a b =>
    let x := uidVal v a
    let y := uidVal v b
    ((entries v).filter fun e => between (min x y) (max x y) e.2).map (·.1)

def selectUID (v : View) (set : SSet) : List Nat :=
  if v.isEmpty then [] else set.flatMap (selectUIDItem v)

/-- the one case C16 does not judge: a UID range `n:*` / `*:n` with `n` above the highest UID -/
def excludedUIDItem (v : View) : SItem → Bool
  | .range (.num n) .star => decide (maxUID v < n)
  | .range .star (.num n) => decide (maxUID v < n)
  | _ => false

def sortDedup (l : List Nat) : List Nat := (l.toArray.qsort (· < ·)).toList.eraseDups

end Gluon.SetSelect
