/-
The un-chunked relational meaning of the bulk operations of `db.ReadOnly` / `db.Transaction`
(C08, C03): what each operation means on the relational state of `Model/DB.lean` if the whole
argument list went into ONE SQL statement — no chunks, no placeholder counting, no bind
arguments.  An empty list issues no statement (so it cannot fail, not even on a mailbox that
does not exist), which is what every chunk loop does too.

`Theorems/C08.lean` (`chunk_faithful_*`) proves that the model operation of a call site whose
regenerated facts are `wellBound` equals the operation below, for argument lists of every
length; the judge of the `db` correspondence dialect evaluates the same equation on what the
real SQLite index answers.

Operations that are not in this file have no bulk argument: their model function *is* their
relational meaning (with well-formed SQL text: `mailboxExistsWithID true`,
`updateRemoteMessageID true`).  Core Lean only.
-/
import GluonModel.Model.DB

namespace Gluon.DB.Spec
open Gluon.DB

/-- run a state step as a `Tx Unit`; an empty argument list issues no statement -/
def guarded {α : Type} (xs : List α) (step : DB → Except DbErr DB) : Tx Unit := fun db =>
  (if xs.isEmpty then .ok db else step db).map fun db => ((), db)

/-- `SELECT id FROM mailboxes_v2 WHERE remote_id IN rids` -/
def mailboxTranslateRemoteIDs (db : DB) (rids : List RemoteId) : Except DbErr (List MailboxId) :=
  .ok ((db.mailboxes.filter fun m => rids.contains m.remoteId).map (·.id))

/-- `SELECT message_id FROM mailbox_message_<mb> WHERE message_id IN ids` -/
def mailboxFilterContains (db : DB) (mb : MailboxId) (pairs : List (MessageId × RemoteId)) :
    Except DbErr (List MessageId) :=
  if pairs.isEmpty then .ok [] else do
    let t ← db.getTable mb
    return (t.rows.filter fun r => (pairs.map (·.1)).contains r.msgId).map (·.msgId)

/-- `SELECT m.id, m.remote_id, flags FROM messages_v2 m … WHERE m.id IN ids` -/
def getMessagesFlags (db : DB) (ids : List MessageId) : Except DbErr (List (MessageId × RemoteId × List FlagVal)) :=
  .ok ((db.messages.filter fun r => ids.contains r.id).map fun r => (r.id, r.remoteId, flagsOf db.msgFlags r.id))

/-- rows of `mailbox_message_<mb>` with `message_id IN ids`, `ORDER BY uid` -/
def uidsWithFlags (db : DB) (mb : MailboxId) (ids : List MessageId) : Except DbErr (List SnapRow) :=
  if ids.isEmpty then .ok [] else do
    let t ← db.getTable mb
    return (sortByUid (t.rows.filter fun r => ids.contains r.msgId)).map (snapRow db)

/-- `INSERT INTO mailbox_message_<mb> (message_id, message_remote_id) VALUES pairs;
     INSERT INTO message_to_mailbox (message_id, mailbox_id) VALUES (m, mb) …` -/
def addStep (mb : MailboxId) (pairs : List (MessageId × RemoteId)) (db : DB) : Except DbErr DB := do
  let t ← db.getTable mb
  let t ← appendRows t pairs
  if pairs.any (fun p => !db.hasMessage p.1) then .error .fk else
  let rel ← appendKeys false db.m2m (pairs.map fun p => (p.1, mb))
  if pairs.any (fun p => !db.hasMessage p.1 || !db.hasMailbox mb) then .error .fk
  else .ok { db.setTable mb t with m2m := rel }

/-- the messages join the mailbox: one row each in `mailbox_message_<mb>` (fresh UIDs in list order,
    `\Recent` set) and in `message_to_mailbox`; result = their rows ordered by UID -/
def addMessagesToMailbox (mb : MailboxId) (pairs : List (MessageId × RemoteId)) : Tx (List SnapRow) := fun db => do
  if pairs.isEmpty then return ([], db)
  let db ← addStep mb pairs db
  let r ← uidsWithFlags db mb (pairs.map (·.1))
  return (r, db)

/-- `DELETE FROM mailbox_message_<mb> WHERE message_id IN ids;
     DELETE FROM message_to_mailbox WHERE message_id IN ids AND mailbox_id = mb` -/
def removeStep (mb : MailboxId) (ids : List MessageId) (db : DB) : Except DbErr DB := do
  let t ← db.getTable mb
  let db := db.setTable mb { t with rows := t.rows.filter fun r => !ids.contains r.msgId }
  return { db with m2m := db.m2m.filter fun p => !(ids.contains p.1 && p.2 == mb) }

/-- the messages leave the mailbox: their rows disappear from `mailbox_message_<mb>` and from
    `message_to_mailbox` -/
def removeMessagesFromMailbox (mb : MailboxId) (ids : List MessageId) : Tx Unit :=
  guarded ids (removeStep mb ids)

/-- `UPDATE mailbox_message_<mb> SET deleted = d WHERE message_id IN ids` -/
def setDeletedStep (mb : MailboxId) (deleted : Bool) (ids : List MessageId) (db : DB) : Except DbErr DB := do
  let t ← db.getTable mb
  return db.setTable mb { t with rows := t.rows.map fun r => if ids.contains r.msgId then { r with deleted := deleted } else r }

def setMailboxMessagesDeletedFlag (mb : MailboxId) (ids : List MessageId) (deleted : Bool) : Tx Unit :=
  guarded ids (setDeletedStep mb deleted ids)

def reqRow (r : CreateReq) : MsgRow :=
  { id := r.id, remoteId := r.remoteId, date := r.date, size := r.size, body := r.body,
    bodyStructure := r.bodyStructure, envelope := r.envelope, deleted := false }

/-- `INSERT INTO messages_v2 … VALUES reqs; INSERT INTO message_flags_v2 (message_id, value) VALUES (id, f) …` -/
def createStep (reqs : List CreateReq) (db : DB) : Except DbErr DB := do
  let msgs ← appendMessages db.messages (reqs.map reqRow)
  let fl ← appendKeys false db.msgFlags (reqs.flatMap fun r => r.flags.map fun f => (r.id, f))
  return { db with messages := msgs, msgFlags := fl }

/-- all messages and all their flags are inserted -/
def createMessages (reqs : List CreateReq) : Tx Unit := guarded reqs (createStep reqs)

/-- `DELETE FROM messages_v2 WHERE id IN ids` with the schema's referential actions
    (`ON DELETE CASCADE` into message_flags_v2 and message_to_mailbox; `ON DELETE SET NULL` into the
    `NOT NULL` column `mailbox_message_<id>.message_id`: a message that is still in a mailbox cannot be deleted) -/
def deleteStep (ids : List MessageId) (db : DB) : Except DbErr DB :=
  let gone := (db.messages.filter fun r => ids.contains r.id).map (·.id)
  if db.mtables.any (fun p => p.2.rows.any fun r => gone.contains r.msgId) then .error .notNull
  else .ok { db with
    messages := db.messages.filter fun r => !gone.contains r.id
    msgFlags := db.msgFlags.filter fun p => !gone.contains p.1
    m2m := db.m2m.filter fun p => !gone.contains p.1 }

def deleteMessages (ids : List MessageId) : Tx Unit := guarded ids (deleteStep ids)

/-- `INSERT OR IGNORE INTO message_flags_v2 (message_id, value) VALUES (m, flag) …` for all `m ∈ ids`;
    every listed message must exist -/
def addFlagStep (flag : FlagVal) (ids : List MessageId) (db : DB) : Except DbErr DB := do
  let fl ← appendKeys true db.msgFlags (ids.map fun m => (m, flag))
  if ids.any (fun m => !db.hasMessage m) then .error .fk else .ok { db with msgFlags := fl }

/-- every listed message has the flag afterwards (exact spelling); all must exist -/
def addFlagToMessages (ids : List MessageId) (flag : FlagVal) : Tx Unit := guarded ids (addFlagStep flag ids)

/-- `DELETE FROM message_flags_v2 WHERE message_id IN ids AND value = flag COLLATE NOCASE`: every spelling
    (ASCII letter case) of the flag is removed from the listed messages -/
def removeFlagStep (flag : FlagVal) (ids : List MessageId) (db : DB) : Except DbErr DB :=
  .ok { db with msgFlags := db.msgFlags.filter fun p => !(ids.contains p.1 && p.2.toLower == flag.toLower) }

def removeFlagFromMessages (ids : List MessageId) (flag : FlagVal) : Tx Unit := guarded ids (removeFlagStep flag ids)

/-- `DELETE … WHERE message_id IN ids AND value NOT IN flags; INSERT OR IGNORE (m, f)` for all `m ∈ ids`, `f ∈ flags` -/
def setFlagsStep (flags : List FlagVal) (ids : List MessageId) (db : DB) : Except DbErr DB := do
  let kept := db.msgFlags.filter fun p => !(ids.contains p.1 && !flags.contains p.2)
  let fl ← appendKeys true kept (ids.flatMap fun m => flags.map fun f => (m, f))
  if !flags.isEmpty && ids.any (fun m => !db.hasMessage m) then .error .fk else .ok { db with msgFlags := fl }

/-- afterwards every listed message has exactly the given flags (spelling of rows that stay is kept) -/
def setFlagsOnMessages (ids : List MessageId) (flags : List FlagVal) : Tx Unit := guarded ids (setFlagsStep flags ids)

/-- every mailbox has the flags afterwards; no flags, no change -/
def addFlagsToAllMailboxes (flags : List FlagVal) : Tx Unit := fun db =>
  if flags.isEmpty then .ok ((), db) else DB.addFlagsToAllMailboxes flags db

def addPermFlagsToAllMailboxes (flags : List FlagVal) : Tx Unit := fun db =>
  if flags.isEmpty then .ok ((), db) else DB.addPermFlagsToAllMailboxes flags db

end Gluon.DB.Spec
