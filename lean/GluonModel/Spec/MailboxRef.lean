/-
S-REF (C03): the REFERENCE model of the message commands — what APPEND, STORE, EXPUNGE /
UID EXPUNGE / CLOSE, COPY and MOVE mean for the content of the mailboxes, written without any
of gluon's structure (no tables, no transactions, no chunks, no connector, no snapshots).

State
* a mailbox is an ordered list of entries `(uid, msg, deleted)` plus `uidNext`;
* a message (`MsgRef`) has a flag set and its bytes; a message may be in several mailboxes
  (label semantics): **flags are shared per message, `\Deleted` is per mailbox entry**, `\Recent`
  is per session and not part of the content (exactly the reading the property text fixes).
* a flag set is case-insensitive (RFC 3501 §9: flag names are atoms, matched case-insensitively):
  it is kept as the strictly ascending list of the lower-cased names, so two equal sets are equal
  lists and `=` on states is what the property calls "equals".

Message sets arrive resolved: every command names the messages of the issuing session's view it
acts on as a list of `MsgRef` (resolving set texts against a view is C16).  A named message that
is no longer in the selected mailbox (another session expunged it, the issuing session has not
been told yet) is a legal operand, RFC 2180 §4.2–4.4 leave the outcome to the server; the
reference fixes it as follows — each choice is the one under which every message keeps exactly
one set of flags and one instance per mailbox:

* STORE  changes the (shared) flags of every named message, and `\Deleted` of those named
         messages that still are in the selected mailbox (RFC 2180 §4.2.1 "ignore … that the
         message is expunged").  `.SILENT` changes the answer, not the content.
* EXPUNGE / CLOSE / UID EXPUNGE remove the named messages from the selected mailbox — the named
         messages are the `\Deleted` ones of the session's view (`expungeMsgs`); for a session
         whose view is up to date these are the entries with `deleted = true`
         (`refExpunge`, `refUidExpunge`, `refClose`).
* COPY   RFC 3501 §6.4.7: "copies … to the end of the destination mailbox"; RFC 4315: the
         copies get ascending UIDs ≥ the old UIDNEXT.  A mailbox holds a message at most once
         (flags are per message, so a second instance could not differ), RFC 3501 says nothing
         about a destination that already holds the message: the reference removes the old
         instance and appends the message under a fresh UID — so COPYUID is truthful and UIDs are
         never reused.  The new entry is not `\Deleted` (per-mailbox flag; RFC 3501's "flags
         SHOULD be preserved" is honoured for the shared flags).  COPY onto the selected mailbox
         itself is the same rule.  COPY does not look at the source mailbox (RFC 2180 §4.4.1).
* MOVE   RFC 6851 §3.3: "COPY, STORE +FLAGS.SILENT \Deleted, UID EXPUNGE" in one step, "each message is either
         moved or unaffected": the named messages that still are in the source mailbox move (`refCopy` into the
         destination, then removal from the source; onto the source itself: remove + re-add under new UIDs); a named
         message that is no longer in the source (expunged elsewhere) cannot be moved and is unaffected — unlike
         COPY, MOVE does not bring it back.
* APPEND creates a new message with the given flags and bytes at the end of the mailbox.

`refStep` is total: a command naming a mailbox that does not exist changes nothing.
Preconditions of a meaningful call (the caller's duty, C16): the named list has no repetition and
names existing messages.  Core Lean only.
-/
namespace Gluon.MailboxRef

abbrev MsgRef := Nat
abbrev Bytes := String

/-! ### case-insensitive flag sets -/

/-- ASCII lower-casing (flag names are ASCII atoms) -/
def lower (s : String) : String := String.ofList (s.toList.map Char.toLower)

/-- a flag set: lower-cased names, strictly ascending -/
abbrev FlagSet := List String

/-- ordered insert without repetition -/
def ins (f : String) : FlagSet → FlagSet
  | [] => [f]
  | g :: r => if f < g then f :: g :: r else if f = g then g :: r else g :: ins f r

/-- the (lower-case) names join the set -/
def insAll (ks : List String) (cur : FlagSet) : FlagSet := ks.foldr ins cur

/-- the flag set of a list of flag names in any spelling, with repetitions -/
def canon (l : List String) : FlagSet := insAll (l.map lower) []

def deletedKey : String := "\\deleted"
def recentKey : String := "\\recent"

/-- `\Deleted` and `\Recent` are not message flags (per mailbox / per session) -/
def special (f : String) : Bool := lower f == deletedKey || lower f == recentKey

/-- does the list name `\Deleted` (any spelling)? -/
def hasDeleted (l : List String) : Bool := l.any fun f => lower f == deletedKey

/-- the message-flag part of a flag list -/
def msgFlags (l : List String) : FlagSet := canon (l.filter fun f => !special f)

inductive StoreOp where
  | add | remove | set
deriving DecidableEq, Repr

/-- STORE on the shared flags of one message -/
def storeFlags (op : StoreOp) (fl : List String) (cur : FlagSet) : FlagSet :=
  let fl := fl.filter fun f => !special f
  match op with
  | .add => insAll (fl.map lower) cur
  | .remove => cur.filter fun g => !(fl.map lower).contains g
  | .set => canon fl

/-- STORE on the `\Deleted` flag of one mailbox entry -/
def storeDeleted (op : StoreOp) (fl : List String) (cur : Bool) : Bool :=
  match op with
  | .add => cur || hasDeleted fl
  | .remove => cur && !hasDeleted fl
  | .set => hasDeleted fl

/-! ### state -/

structure Entry where
  uid : Nat
  msg : MsgRef
  deleted : Bool
deriving DecidableEq, Repr

structure Mailbox where
  entries : List Entry := []
  uidNext : Nat := 1
deriving DecidableEq, Repr

structure Message where
  flags : FlagSet
  bytes : Bytes
deriving DecidableEq, Repr

structure State where
  /-- name ↦ mailbox (names are distinct) -/
  mailboxes : List (String × Mailbox) := []
  messages : List (MsgRef × Message) := []
  /-- the reference a new message gets -/
  nextRef : MsgRef := 0
deriving DecidableEq, Repr

def State.mailbox? (s : State) (name : String) : Option Mailbox := s.mailboxes.lookup name

def State.hasMailbox (s : State) (name : String) : Bool := s.mailboxes.any (·.1 == name)

/-- change the mailbox called `name` -/
def State.updMailbox (s : State) (name : String) (f : Mailbox → Mailbox) : State :=
  { s with mailboxes := s.mailboxes.map fun p => if p.1 == name then (p.1, f p.2) else p }

/-- change the named messages -/
def State.updMessages (s : State) (msgs : List MsgRef) (f : Message → Message) : State :=
  { s with messages := s.messages.map fun p => if msgs.contains p.1 then (p.1, f p.2) else p }

/-! ### mailbox operations -/

/-- entries for `msgs` at the end of the mailbox: ascending fresh UIDs in list order, not `\Deleted` -/
def freshEntries (uidNext : Nat) : List MsgRef → List Entry
  | [] => []
  | m :: r => { uid := uidNext, msg := m, deleted := false } :: freshEntries (uidNext + 1) r

/-- the messages leave the mailbox -/
def Mailbox.remove (b : Mailbox) (msgs : List MsgRef) : Mailbox :=
  { b with entries := b.entries.filter fun e => !msgs.contains e.msg }

/-- the messages arrive at the end of the mailbox; an instance the mailbox already holds is replaced -/
def Mailbox.add (b : Mailbox) (msgs : List MsgRef) : Mailbox :=
  { entries := (b.remove msgs).entries ++ freshEntries b.uidNext msgs, uidNext := b.uidNext + msgs.length }

/-! ### the commands -/

def refAppend (s : State) (mb : String) (flags : List String) (bytes : Bytes) : State :=
  if !s.hasMailbox mb then s else
  let r := s.nextRef
  let s : State := { s with messages := s.messages ++ [(r, ({ flags := msgFlags flags, bytes := bytes } : Message))], nextRef := r + 1 }
  s.updMailbox mb fun b =>
    { entries := b.entries ++ [{ uid := b.uidNext, msg := r, deleted := hasDeleted flags }], uidNext := b.uidNext + 1 }

def refStore (s : State) (mb : String) (msgs : List MsgRef) (op : StoreOp) (flags : List String) : State :=
  let s := s.updMessages msgs fun m => { m with flags := storeFlags op flags m.flags }
  s.updMailbox mb fun b =>
    { b with entries := b.entries.map fun e =>
        if msgs.contains e.msg then { e with deleted := storeDeleted op flags e.deleted } else e }

/-- the named messages (the `\Deleted` ones of the session's view) leave the mailbox -/
def expungeMsgs (s : State) (mb : String) (msgs : List MsgRef) : State :=
  s.updMailbox mb fun b => b.remove msgs

/-- the `\Deleted` messages of a mailbox -/
def deletedOf (s : State) (mb : String) : List MsgRef :=
  match s.mailbox? mb with
  | some b => (b.entries.filter (·.deleted)).map (·.msg)
  | none => []

/-- EXPUNGE by a session whose view is up to date -/
def refExpunge (s : State) (mb : String) : State := expungeMsgs s mb (deletedOf s mb)

/-- UID EXPUNGE by a session whose view is up to date: the `\Deleted` messages among the given UIDs -/
def refUidExpunge (s : State) (mb : String) (uids : List Nat) : State :=
  match s.mailbox? mb with
  | some b => expungeMsgs s mb ((b.entries.filter fun e => e.deleted && uids.contains e.uid).map (·.msg))
  | none => s

/-- CLOSE = EXPUNGE without the untagged responses (deselecting is not content) -/
def refClose (s : State) (mb : String) : State := refExpunge s mb

def refCopy (s : State) (dst : String) (msgs : List MsgRef) : State :=
  s.updMailbox dst fun b => b.add msgs

/-- is the message in the mailbox? -/
def State.holds (s : State) (mb : String) (m : MsgRef) : Bool :=
  match s.mailbox? mb with
  | some b => b.entries.any (·.msg == m)
  | none => false

def refMove (s : State) (src dst : String) (msgs : List MsgRef) : State :=
  if !s.hasMailbox dst then s else
  let moving := msgs.filter (s.holds src)
  if src == dst then refCopy s dst moving
  else expungeMsgs (refCopy s dst moving) src moving

/-- a message command with its message set resolved against the issuing session's view -/
inductive Cmd where
  | append (mb : String) (flags : List String) (bytes : Bytes)
  | store (mb : String) (msgs : List MsgRef) (op : StoreOp) (flags : List String)
  /-- EXPUNGE / UID EXPUNGE / CLOSE: `msgs` = the `\Deleted` messages of the view (that the UID set names) -/
  | expunge (mb : String) (msgs : List MsgRef)
  | copy (src dst : String) (msgs : List MsgRef)
  | move (src dst : String) (msgs : List MsgRef)
deriving DecidableEq, Repr

def refStep (s : State) : Cmd → State
  | .append mb fl b => refAppend s mb fl b
  | .store mb msgs op fl => refStore s mb msgs op fl
  | .expunge mb msgs => expungeMsgs s mb msgs
  | .copy _ dst msgs => refCopy s dst msgs
  | .move src dst msgs => refMove s src dst msgs

def refRun (s : State) (cmds : List Cmd) : State := cmds.foldl refStep s

end Gluon.MailboxRef
