/-
C12, "the tree mirrors the MIME structure at every nesting depth": how deep a section tree is and how
many sections it has, and the same two numbers read off the MIME tree a message was built from.
-/
import GluonModel.Spec.MimeRender

namespace Gluon.Mime

mutual
  /-- length of the longest part path below the section (0 = no children) -/
  def STree.depth : STree → Nat
    | .node _ cs => STree.depthList cs
  def STree.depthList : List STree → Nat
    | [] => 0
    | t :: ts => max (t.depth + 1) (STree.depthList ts)
end

mutual
  /-- number of sections `Walk` visits -/
  def STree.count : STree → Nat
    | .node _ cs => STree.countList cs + 1
  def STree.countList : List STree → Nat
    | [] => 0
    | t :: ts => t.count + STree.countList ts
end

mutual
  /-- length of the longest part number path of the MIME tree: every multipart level adds one number, a
      message/rfc822 node adds none (its parts are those of the embedded message) -/
  def MTree.pathDepth : MTree → Nat
    | .leaf _ _ => 0
    | .multi _ _ kids => MTree.pathDepthList kids
    | .msg _ inner => inner.pathDepth
  def MTree.pathDepthList : List MTree → Nat
    | [] => 0
    | t :: ts => max (t.pathDepth + 1) (MTree.pathDepthList ts)
end

mutual
  /-- number of addressable parts below the node: the parts of a multipart (and theirs), for
      message/rfc822 those of the embedded message -/
  def MTree.partsBelow : MTree → Nat
    | .leaf _ _ => 0
    | .multi _ _ kids => MTree.partsBelowList kids
    | .msg _ inner => inner.partsBelow
  def MTree.partsBelowList : List MTree → Nat
    | [] => 0
    | t :: ts => (t.partsBelow + 1) + MTree.partsBelowList ts
end

/-- the `n`-fold nesting `multipart( multipart( … leaf … ) )` with the given header / boundary per level -/
def MTree.chainOf (hdr bnd : Nat → Bytes) (leaf : MTree) : Nat → MTree
  | 0 => leaf
  | n + 1 => .multi (hdr n) (bnd n) [MTree.chainOf hdr bnd leaf n]

end Gluon.Mime
