/-
S-REF-PROTO (C03): the PROTOCOL STATE a message command runs in, on top of the reference content model
`Spec/MailboxRef.lean` — which mailbox a session has open and whether it was opened read-only.

RFC 3501 §6.3.1 / §6.3.2: SELECT opens a mailbox read-write, EXAMINE opens it read-only: "no changes to the permanent
state of the mailbox, including per-user state, are permitted".  §6.4.2 CLOSE: "permanently removes all messages that
have the \Deleted flag set from the currently selected mailbox … No messages are removed, and no error is given, if the
mailbox is selected by an EXAMINE command or is otherwise selected read-only."  So in a read-only session STORE,
EXPUNGE, UID EXPUNGE and MOVE cannot be answered OK, and CLOSE removes nothing.

The mode belongs to the OPEN mailbox: it is decided by the command that opened it and by nothing else.  A command that
is answered NO or BAD leaves the mailboxes unchanged (the property text) and, here, the protocol state as well: the
mailbox that was open stays open in the mode it was opened in.  (RFC 3501 §6.3.1 says that after a failed SELECT no
mailbox is selected; gluon keeps the old one selected.  The reference follows gluon in WHICH mailbox stays open — that
is not content — and insists that, whichever mailbox is open, its mode is the mode of the command that opened it.)

COPY does not change the selected mailbox, RFC 3501 allows it in a read-only session; a server that refuses it (gluon
does: NO) changes nothing, which is always permitted.  So `permits` says when OK *may* be answered; a refusal of a
permitted command is not a content violation.

Core Lean only.
-/
import GluonModel.Spec.MailboxRef

namespace Gluon.MailboxRef

/-- the protocol state of one session, as far as mailbox contents depend on it -/
structure Proto where
  /-- the open mailbox -/
  selected : Option String := none
  /-- it was opened with EXAMINE -/
  readOnly : Bool := false
deriving DecidableEq, Repr

/-- a command of one session; message sets resolved against the session's view as in `Cmd` -/
inductive SessCmd where
  | select (name : String)
  | examine (name : String)
  /-- CLOSE; `msgs` = what an EXPUNGE of this session would remove (the `\Deleted` messages of its view) -/
  | close (msgs : List MsgRef)
  | store (msgs : List MsgRef) (op : StoreOp) (flags : List String)
  /-- EXPUNGE / UID EXPUNGE -/
  | expunge (msgs : List MsgRef)
  | copy (dst : String) (msgs : List MsgRef)
  | move (dst : String) (msgs : List MsgRef)
deriving DecidableEq, Repr

/-- may the command be answered OK in this state? -/
def permits (s : State) (p : Proto) : SessCmd → Bool
  | .select n => s.hasMailbox n
  | .examine n => s.hasMailbox n
  | .close _ => p.selected.isSome
  | .store _ _ _ => p.selected.isSome && !p.readOnly
  | .expunge _ => p.selected.isSome && !p.readOnly
  | .copy dst _ => p.selected.isSome && s.hasMailbox dst
  | .move dst _ => p.selected.isSome && !p.readOnly && s.hasMailbox dst

/-- what a command that was answered OK does: to the session's protocol state and to the mailboxes -/
def effect (s : State) (p : Proto) : SessCmd → Proto × State
  | .select n => ({ selected := some n, readOnly := false }, s)
  | .examine n => ({ selected := some n, readOnly := true }, s)
  | .close msgs =>
    match p.selected with
    | none => (p, s)
    | some mb => ({}, if p.readOnly then s else expungeMsgs s mb msgs)
  | .store msgs op fl =>
    match p.selected with
    | none => (p, s)
    | some mb => (p, refStore s mb msgs op fl)
  | .expunge msgs =>
    match p.selected with
    | none => (p, s)
    | some mb => (p, expungeMsgs s mb msgs)
  | .copy dst msgs => (p, refCopy s dst msgs)
  | .move dst msgs =>
    match p.selected with
    | none => (p, s)
    | some mb => (p, refMove s mb dst msgs)

/-- one command of one session with the answer it got: answered OK it has its effect, answered NO / BAD it changes
    neither the mailboxes nor the protocol state -/
def sessStep (s : State) (p : Proto) (c : SessCmd) (answeredOk : Bool) : Proto × State :=
  if answeredOk then effect s p c else (p, s)

/-! ### several sessions -/

structure World where
  st : State
  proto : Nat → Proto

/-- session `i` issues `c` and is answered OK (`true`) or NO / BAD -/
def worldStep (w : World) (e : Nat × SessCmd × Bool) : World :=
  let r := sessStep w.st (w.proto e.1) e.2.1 e.2.2
  { st := r.2, proto := fun j => if j = e.1 then r.1 else w.proto j }

def worldRun (w : World) (es : List (Nat × SessCmd × Bool)) : World := es.foldl worldStep w

/-- is every OK of the history one the reference permits? -/
def worldPermits : World → List (Nat × SessCmd × Bool) → Bool
  | _, [] => true
  | w, e :: rest => (!e.2.2 || permits w.st (w.proto e.1) e.2.1) && worldPermits (worldStep w e) rest

end Gluon.MailboxRef
