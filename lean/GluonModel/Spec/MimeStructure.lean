/-
Reference semantics for "BODYSTRUCTURE is the MIME tree the message was built from" (C12, last
clause): the writer calls `imap.Structure` is expected to make for a MIME tree, read off the tree
alone — each node's type / subtype / parameters / other fields are whatever the (abstract) header
machinery `det` answers for that node's own header block, its size is the length of its body, its
line count that of its body, a multipart lists exactly its parts, and a message/rfc822 part holds
the envelope and the structure of the embedded message whatever kind of message that is.
-/
import GluonModel.Spec.MimeRender
import GluonModel.Model.Structure

namespace Gluon.Mime

mutual
  /-- the calls on `fields` expected for the node `t` -/
  def MTree.calls (det : HdrDetail) : MTree → List Call
    | .leaf h b => singleCalls (detOf det h) b []
    | .multi h bnd kids =>
      if kids.length = 0 then
        -- a multipart without parts has no children: reported as a single part
        singleCalls (detOf det h) (renderParts (startBoundary bnd) []) []
      else MTree.callsList det kids ++ multiTail (detOf det h)
    | .msg h inner =>
      singleCalls (detOf det h) (inner.hdr ++ inner.rest)
        [.sp false, envelopeCall (detOf det inner.hdr), .child false (inner.calls det)]
  def MTree.callsList (det : HdrDetail) : List MTree → List Call
    | [] => []
    | t :: ts => Call.child false (t.calls det) :: MTree.callsList det ts
end

mutual
  /-- the (abstract) media type parser says "message/rfc822" exactly for the embedded-message nodes -/
  def MTree.DetOK (det : HdrDetail) : MTree → Prop
    | .leaf h _ => isMsgOf (detOf det h) = false
    | .multi h _ kids => isMsgOf (detOf det h) = false ∧ MTree.DetOKList det kids
    | .msg h inner => isMsgOf (detOf det h) = true ∧ inner.DetOK det
  def MTree.DetOKList (det : HdrDetail) : List MTree → Prop
    | [] => True
    | t :: ts => t.DetOK det ∧ MTree.DetOKList det ts
end

/-- does `Section.Children()` return anything for this node (parts of a multipart; for
    message/rfc822 the hoisted parts of the embedded message)? -/
def MTree.hasKids : MTree → Bool
  | .leaf _ _ => false
  | .multi _ _ kids => !kids.isEmpty
  | .msg _ inner => inner.hasKids

mutual
  /-- **NoEmbeddedMultipart**: no message/rfc822 node (at any depth) holds, directly or through
      further embedded messages, a multipart message with parts -/
  def MTree.NoEmbMulti : MTree → Prop
    | .leaf _ _ => True
    | .multi _ _ kids => MTree.NoEmbMultiList kids
    | .msg _ inner => inner.hasKids = false ∧ inner.NoEmbMulti
  def MTree.NoEmbMultiList : List MTree → Prop
    | [] => True
    | t :: ts => t.NoEmbMulti ∧ MTree.NoEmbMultiList ts
end

end Gluon.Mime
