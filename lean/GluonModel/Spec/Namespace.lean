/-
Reference model of the mailbox namespace for C14 (RFC 3501 §6.3.3–6.3.5), independent of the
model in `Model/Namespace.lean`: the namespace is a set of names `S : Str → Prop`; hierarchy comes
from `Spec.levels` / `Spec.IsSuperior` (Spec/Wildcard.lean).  Core Lean only.
-/
import GluonModel.Spec.Wildcard

namespace Gluon.Spec.NS

/-- hierarchy segments of a name (what lies between delimiters) -/
def segments (d : Char) : Str → List Str
  | [] => [[]]
  | c :: cs =>
    if c = d then [] :: segments d cs
    else match segments d cs with
      | [] => [[c]]
      | s :: ss => (c :: s) :: ss

/-- A name a client may give a mailbox: no empty hierarchy segment (so: not empty, no leading,
    trailing or doubled delimiter).  CREATE ignores one trailing delimiter before this test. -/
def ValidName (d : Char) (n : Str) : Prop := [] ∉ segments d n

/-- CREATE n — "the server SHOULD create any superior hierarchical names that are needed":
    `n` is new, afterwards exactly the old names plus every hierarchy level of `n` exist. -/
def Create (d : Char) (S : Str → Prop) (n : Str) (S' : Str → Prop) : Prop :=
  ¬ S n ∧ ∀ x, S' x ↔ S x ∨ x ∈ levels d n

/-- DELETE n — removes that name only; inferiors stay (the name becomes a `\Noselect` parent). -/
def Delete (S : Str → Prop) (n : Str) (S' : Str → Prop) : Prop :=
  S n ∧ ∀ x, S' x ↔ S x ∧ x ≠ n

/-- RENAME o n (o ≠ INBOX) — `o` and every inferior `o ++ d ++ rest` move to `n` resp.
    `n ++ d ++ rest`; missing superiors of `n` are created; nothing else changes. -/
def Rename (d : Char) (S : Str → Prop) (o n : Str) (S' : Str → Prop) : Prop :=
  S o ∧ ¬ S n ∧ ¬ IsSuperior d o n ∧
  ∀ x, S' x ↔ (S x ∧ x ≠ o ∧ ¬ IsSuperior d o x) ∨ x ∈ levels d n ∨
                ∃ rest, S (o ++ d :: rest) ∧ x = n ++ d :: rest

/-- RENAME INBOX n — "all messages in INBOX are moved to a new mailbox with the given name,
    leaving INBOX empty"; inferiors of INBOX are unaffected. -/
def RenameInbox (d : Char) (S : Str → Prop) (n : Str) (S' : Str → Prop) : Prop :=
  ¬ S n ∧ ∀ x, S' x ↔ S x ∨ x ∈ levels d n

end Gluon.Spec.NS
