/-
Reference semantics for C14's LIST/LSUB part, independent of regular expressions and of the
model in `Model/Match.lean` (core Lean only, no import).

RFC 3501 §6.3.8: "The character `*` is a wildcard, and matches zero or more characters at this
position.  The character `%` is similar to `*`, but it does not match a hierarchy delimiter.
If the `%` wildcard is the last character of a mailbox name argument, matching levels of
hierarchy are also returned."  "An empty mailbox name argument is a special request to return
the hierarchy delimiter and the root name of the name given in the reference."  The name
INBOX is case-insensitive (§5.1); gluon extends this to every hierarchy segment of a name.
-/
namespace Gluon.Spec

abbrev Str := List Char

/-- `Wild d pattern name`: the whole `name` is matched by `pattern` under RFC 3501's wildcard rules. -/
inductive Wild (d : Char) : Str → Str → Prop where
  | nil : Wild d [] []
  | lit {c : Char} {p n : Str} : c ≠ '*' → c ≠ '%' → Wild d p n → Wild d (c :: p) (c :: n)
  | star {p n m : Str} (a : Str) : m = a ++ n → Wild d p n → Wild d ('*' :: p) m
  | pct {p n m : Str} (a : Str) : m = a ++ n → d ∉ a → Wild d p n → Wild d ('%' :: p) m

/-- helper of `wild`: the wildcard eats zero or more characters satisfying `ok` -/
def wildLoop (ok : Char → Bool) (k : Str → Bool) : Str → Bool
  | [] => k []
  | x :: xs => k (x :: xs) || (ok x && wildLoop ok k xs)

/-- The usual recursive wildcard matcher (executable form of `Wild`; `wild_iff` in Lemmas/Wildcard). -/
def wild (d : Char) : Str → Str → Bool
  | [], n => n.isEmpty
  | c :: p, n =>
    if c = '*' then wildLoop (fun _ => true) (wild d p) n
    else if c = '%' then wildLoop (fun x => x != d) (wild d p) n
    else match n with
      | [] => false
      | x :: xs => x == c && wild d p xs

/-- Superior hierarchy levels of a name: its proper prefixes that end right before an
    occurrence of the delimiter, shortest first. -/
def superiors (d : Char) : Str → List Str
  | [] => []
  | c :: cs => (if c = d then [[]] else []) ++ (superiors d cs).map (c :: ·)

/-- `p` is a superior of `n` -/
def IsSuperior (d : Char) (p n : Str) : Prop := ∃ rest, n = p ++ d :: rest

/-- all hierarchy levels of a name: its superiors and the name itself -/
def levels (d : Char) (n : Str) : List Str := superiors d n ++ [n]

/-- A hierarchy segment that spells INBOX in any letter case. -/
def isInboxSeg (s : Str) : Bool := s.map Char.toUpper == ['I', 'N', 'B', 'O', 'X']

/-- Canonical spelling of a name, reference or pattern: INBOX is case-insensitive (RFC 3501 §5.1).
    gluon's command layer stores `INBOX` and everything below it with an upper-case first
    hierarchy segment (`command.ParseMailbox`, `Session.decodeMailboxName`); all other segments
    of a name are case-sensitive.  So: the *first* hierarchy segment, if it spells INBOX in any
    letter case, becomes `INBOX`; nothing else changes. -/
def canon (d : Char) (name : Str) : Str :=
  let seg := name.takeWhile (· != d)
  (if isInboxSeg seg then ['I', 'N', 'B', 'O', 'X'] else seg) ++ name.dropWhile (· != d)

/-- Root of a reference: the reference up to and including its first delimiter; empty if the
    reference is not rooted in a hierarchy (contains no delimiter). -/
def root (d : Char) (ref : Str) : Str :=
  if d ∈ ref then ref.takeWhile (· != d) ++ [d] else []

/-- What `match` may answer for one name (RFC rules) when `cp` is the canonical reference ++ pattern:
    * empty pattern: the root of the reference;
    * pattern not ending in `%`: the name itself iff it matches;
    * pattern ending in `%`: the longest hierarchy level of the name that matches (so the name
      itself whenever it matches), nothing iff no level matches. -/
def MatchSpecFor (d : Char) (cp : Str) (ref pattern name : Str) (res : Str) (ok : Bool) : Prop :=
  if pattern = [] then ok = true ∧ res = root d ref
  else if pattern.getLast? ≠ some '%' then
    (ok = true ∧ res = name ∧ Wild d cp name) ∨ (ok = false ∧ res = [] ∧ ¬ Wild d cp name)
  else
    (ok = true ∧ res ∈ levels d name ∧ Wild d cp res ∧
        ∀ q ∈ levels d name, Wild d cp q → q.length ≤ res.length) ∨
    (ok = false ∧ res = [] ∧ ∀ q ∈ levels d name, ¬ Wild d cp q)

/-- `MatchSpecFor` with the canonical spelling of reference ++ pattern -/
def MatchSpec (d : Char) (ref pattern name : Str) (res : Str) (ok : Bool) : Prop :=
  MatchSpecFor d (canon d (ref ++ pattern)) ref pattern name res ok

/-- executable `MatchSpec` (used by the judge) -/
def matchSpecB (d : Char) (ref pattern name : Str) (res : Str) (ok : Bool) : Bool :=
  let cp := canon d (ref ++ pattern)
  if pattern.isEmpty then ok && res == root d ref
  else if pattern.getLast? != some '%' then
    (ok && res == name && wild d cp name) || (!ok && res.isEmpty && !wild d cp name)
  else
    (ok && (levels d name).contains res && wild d cp res &&
        (levels d name).all fun q => !wild d cp q || q.length ≤ res.length) ||
    (!ok && res.isEmpty && (levels d name).all fun q => !wild d cp q)

/-! ### LIST / LSUB selection -/

/-- Attribute class of a listed name. -/
inductive Sel where
  | noselect   -- listed with `\Noselect`
  | real       -- listed with the mailbox's own attributes
deriving DecidableEq, Repr

/-- LIST: the names of the namespace (= every hierarchy level of every existing mailbox) that the
    canonical pattern `cp` matches; `\Noselect` for names that exist only as parents (`selectable p`
    says whether `p` is itself a mailbox that can be selected). -/
def ListSel (d : Char) (cp : Str) (names : List Str) (selectable : Str → Bool) (p : Str) (s : Sel) : Prop :=
  (∃ m ∈ names, p ∈ levels d m) ∧ Wild d cp p ∧ s = (if selectable p then .real else .noselect)

/-- LSUB over the subscribed names: a subscribed name that matches is listed; with a trailing `%`
    a matching superior level that is not itself subscribed is listed `\Noselect` (RFC 3501 §6.3.9). -/
def LsubSel (d : Char) (cp : Str) (trailingPct : Bool) (subscribed : List Str) (selectable : Str → Bool)
    (p : Str) (s : Sel) : Prop :=
  Wild d cp p ∧
  ((p ∈ subscribed ∧ s = (if selectable p then .real else .noselect)) ∨
   (trailingPct = true ∧ p ∉ subscribed ∧ (∃ m ∈ subscribed, p ∈ superiors d m) ∧ s = .noselect))

end Gluon.Spec
