/-
Reference semantics the C13 judges evaluate the implementation's answers against.  Independent of
gluon's header parser: header fields are read off the physical lines (RFC 5322 unfolding), a part of a
message is a byte range, a partial is `drop`/`take`, a literal is `{N}` CRLF and N bytes.
-/
import GluonModel.Model.Rfc822

namespace Gluon.Rfc822.Spec
open Gluon.Rfc822

/-- physical lines, each with its terminating `\n` (the last one may lack it) -/
def linesAux : Bytes → Bytes → List Bytes
  | [], acc => if acc.isEmpty then [] else [acc.reverse]
  | c :: tl, acc => if c == 10 then (c :: acc).reverse :: linesAux tl [] else linesAux tl (c :: acc)

def lines (b : Bytes) : List Bytes := linesAux b []

def startsWSP : Bytes → Bool
  | c :: _ => isWSP c
  | [] => false

/-- unfolding: a line that starts with SP / HTAB continues the previous logical line -/
def group : List Bytes → Option Bytes → List Bytes
  | [], none => []
  | [], some cur => [cur]
  | l :: rest, none => group rest (some l)
  | l :: rest, some cur => if startsWSP l then group rest (some (cur ++ l)) else cur :: group rest (some l)

/-- logical lines of a header -/
def logicalLines (h : Bytes) : List Bytes := group (lines h) none

def isBlankLine (l : Bytes) : Bool := l == [13, 10] || l == [10]

/-- a physical line is terminated by `\n` or `\r\n` and has no other CR / LF -/
def lineOK (l : Bytes) : Bool :=
  match l.reverse with
  | 10 :: 13 :: r => !(r.contains 13) && !(r.contains 10)
  | 10 :: r => !(r.contains 13) && !(r.contains 10)
  | _ => false

def fieldName (l : Bytes) : Bytes := l.takeWhile (· != 58)

/-- a logical line is a header field: `name ":" …` with a non-empty name of printable ASCII -/
def isField (l : Bytes) : Bool :=
  let n := fieldName l
  !n.isEmpty && n.length < l.length && n.all validKeyByte

/-- Well-formed header block: every physical line is properly terminated, the first line is not a
    continuation, every logical line is a field, except that the last one may be the blank line. -/
def wellFormed (h : Bytes) : Bool :=
  (lines h).all lineOK && !startsWSP h &&
  (match (logicalLines h).reverse with
   | [] => true
   | last :: init => (isField last || isBlankLine last) && init.all isField)

/-- what HEADER.FIELDS (negate = false) / HEADER.FIELDS.NOT (negate = true) must return for a
    well-formed header: the selected fields with their exact bytes, in order, and the blank line -/
def selectFields (negate : Bool) (want : List Bytes) (h : Bytes) : Bytes :=
  ((logicalLines h).filter fun l =>
      isBlankLine l || (negate != want.contains (lowerBytes (fieldName l)))).flatMap id

def hasField (h : Bytes) : Bool := (logicalLines h).any isField

/-- `<o.n>` of a byte string -/
def partialOf (d : Bytes) (o n : Nat) : Bytes := (d.drop o).take n

def undec (b : Bytes) : Option Nat :=
  if b.isEmpty || !b.all (fun c => 48 ≤ c && c ≤ 57) then none
  else some (b.foldl (fun acc c => acc * 10 + (c.toNat - 48)) 0)

/-- read a literal: `{` digits `}` CR LF, then exactly that many bytes; returns (data, rest) -/
def unframe (b : Bytes) : Option (Bytes × Bytes) :=
  match b with
  | 123 :: tl =>
    let ds := tl.takeWhile (· != 125)
    match undec ds, tl.drop ds.length with
    | some n, 125 :: 13 :: 10 :: rest => if n ≤ rest.length then some (rest.take n, rest.drop n) else none
    | _, _ => none
  | _ => none

end Gluon.Rfc822.Spec
