/-
Abstract reference semantics of IMAP message sets (RFC 3501 section 9, `sequence-set`, and the
text under `seq-number`), the thing property C16 speaks about.  Nothing here knows about Go, 32 or
64 bit integers: numbers are unbounded `Nat`.

  sequence-set = (seq-number / seq-range) *("," sequence-set)
  seq-range    = seq-number ":" seq-number     ; "2:4" and "4:2" are equivalent
  seq-number   = nz-number / "*"               ; "*" = the largest number in use

A *view* is the list of UIDs of the messages the session currently sees, in mailbox order; the
message at position `i` (0-based) has sequence number `i + 1`.

Message sequence numbers: "*" is the number of messages of a non-empty mailbox; a number greater
than the number of messages (and "*" on an empty mailbox) is an error: "The server should respond
with a tagged BAD response to a command that uses a message sequence number greater than the
number of messages in the selected mailbox.  This includes "*" if the selected mailbox is empty."

UIDs: "*" is the UID of the last message (the largest UID in use); a UID set selects the messages
whose UID lies in one of the ranges, UIDs that do not exist are skipped silently.  On an empty
mailbox nothing is selected.
-/

namespace Gluon
namespace SeqSetSpec

/-- `seq-number`: a positive number of any magnitude, or `*`. -/
inductive SNum where
  | star
  | num (n : Nat)
deriving DecidableEq, Repr

/-- one element of a `sequence-set`: `seq-number` or `seq-range`. -/
inductive SItem where
  | one (a : SNum)
  | range (a b : SNum)
deriving DecidableEq, Repr

abbrev SSet := List SItem     -- non-empty in the grammar
abbrev View := List Nat       -- UIDs in mailbox order

/-- a selected message: (sequence number, UID) -/
abbrev Sel := Nat × Nat

/-- the messages of `v` numbered `n`, `n+1`, … -/
def entriesFrom : Nat → View → List Sel
  | _, [] => []
  | n, u :: rest => (n, u) :: entriesFrom (n + 1) rest

/-- all messages of the view with their sequence numbers 1, 2, … -/
def entries (v : View) : List Sel := entriesFrom 1 v

def SItem.nums : SItem → List SNum
  | .one a => [a]
  | .range a b => [a, b]

/-! ### message sequence numbers -/

/-- the value of a `seq-number` as message sequence number; `none` = not a valid sequence number of
    this view (greater than the message count, `*` on an empty view; `0` is not an `nz-number`). -/
def seqVal (v : View) : SNum → Option Nat
  | .star => if v.length = 0 then none else some v.length
  | .num n => if 1 ≤ n ∧ n ≤ v.length then some n else none

/-- the messages with sequence number in `[lo, hi]` -/
def seqBetween (v : View) (lo hi : Nat) : List Sel :=
  (entries v).filter fun e => lo ≤ e.1 && e.1 ≤ hi

def selectSeqItem (v : View) : SItem → Option (List Sel)
  | .one a => match seqVal v a with
    | some x => some (seqBetween v x x)
    | none => none
  | .range a b => match seqVal v a, seqVal v b with
    | some x, some y => some (seqBetween v (min x y) (max x y))
    | _, _ => none

/-- RFC 3501 selection by message sequence numbers: `none` = the command must fail (BAD);
    `some l` = the selected messages (listed item by item, ascending inside an item). -/
def selectSeq (v : View) : SSet → Option (List Sel)
  | [] => some []
  | it :: rest =>
    match selectSeqItem v it, selectSeq v rest with
    | some l, some more => some (l ++ more)
    | _, _ => none

/-- The RFC rule as a predicate: the set is valid for the view. -/
def ValidSeq (v : View) (set : SSet) : Prop :=
  ∀ it ∈ set, ∀ a ∈ it.nums, (seqVal v a).isSome

/-- The RFC rule as a predicate: message number `k` is selected by the (valid) set. -/
def SelectedSeq (v : View) (set : SSet) (k : Nat) : Prop :=
  ∃ it ∈ set, match it with
    | .one a => seqVal v a = some k
    | .range a b => ∃ x y, seqVal v a = some x ∧ seqVal v b = some y ∧ min x y ≤ k ∧ k ≤ max x y

/-! ### a selection as a set

A `sequence-set` denotes a *set* of messages: `1,1` or `1:3,2` name each message once.  The lists
above mention a message once per item that covers it; `asSet` keeps the first mention of each. -/

/-- keep the first occurrence of every element not in `seen` -/
def firstOccFrom : List Sel → List Sel → List Sel
  | _, [] => []
  | seen, e :: rest =>
    if seen.contains e then firstOccFrom seen rest else e :: firstOccFrom (e :: seen) rest

/-- the selected messages, each once, in the order of first mention -/
def asSet (l : List Sel) : List Sel := firstOccFrom [] l

/-! ### unique identifiers -/

/-- the largest UID in use -/
def maxUID (v : View) : Nat := v.foldl max 0

def uidVal (v : View) : SNum → Nat
  | .star => maxUID v
  | .num n => n

/-- the messages with UID in `[lo, hi]` -/
def uidBetween (v : View) (lo hi : Nat) : List Sel :=
  (entries v).filter fun e => lo ≤ e.2 && e.2 ≤ hi

def selectUIDItem (v : View) : SItem → List Sel
  | .one a => uidBetween v (uidVal v a) (uidVal v a)
  | .range a b => uidBetween v (min (uidVal v a) (uidVal v b)) (max (uidVal v a) (uidVal v b))

/-- RFC 3501 selection by UID (never an error: absent UIDs are skipped). -/
def selectUID (v : View) (set : SSet) : List Sel :=
  if v = [] then [] else set.flatMap (selectUIDItem v)

/-- The one case property C16 does not judge: a UID range `n:*` (or `*:n`) whose `n` lies above
    the highest UID.  (RFC 3501 makes it select the last message; gluon deliberately selects
    nothing.) -/
def excludedUIDItem (v : View) : SItem → Bool
  | .range (.num n) .star => decide (maxUID v < n)
  | .range .star (.num n) => decide (maxUID v < n)
  | _ => false

/-! ### the text of a set (what an RFC-conforming client sends) -/

/-- decimal digits of `n`, most significant first, no leading zero; `fuel` ≥ number of digits. -/
def digitsAux : Nat → Nat → List Char → List Char
  | 0, _, acc => acc
  | fuel + 1, n, acc =>
    let acc' := Char.ofNat (48 + n % 10) :: acc
    if n / 10 = 0 then acc' else digitsAux fuel (n / 10) acc'

def digits (n : Nat) : List Char := digitsAux (n + 1) n []

def SNum.render : SNum → List Char
  | .star => ['*']
  | .num n => digits n

def SItem.render : SItem → List Char
  | .one a => a.render
  | .range a b => a.render ++ ':' :: b.render

def renderSet : SSet → List Char
  | [] => []
  | [it] => it.render
  | it :: rest => it.render ++ ',' :: renderSet rest

/-- every number of the set satisfies `p` -/
def SSet.allNums (set : SSet) (p : Nat → Prop) : Prop :=
  ∀ it ∈ set, ∀ a ∈ it.nums, ∀ n, a = .num n → p n

end SeqSetSpec
end Gluon
