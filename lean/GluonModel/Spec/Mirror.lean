/-
M-MIRROR: what an IMAP client can reconstruct from untagged EXISTS / EXPUNGE /
FETCH / RECENT responses alone.  `apply` returns `none` when a response cannot be
explained by any mailbox evolution (the stream is "inexplicable"): an EXISTS that
shrinks the count, an EXPUNGE or FETCH beyond the count, a UID that contradicts a
UID learnt earlier for the same position, a RECENT count that decreases although no
EXPUNGE was announced in between.
-/
import GluonModel.Model.Resp

namespace Gluon

structure MEntry where
  uid : Option UID := none
  flags : Option Flags := none
deriving DecidableEq, Repr

structure Mirror where
  msgs : List MEntry
  recentLB : Nat := 0
deriving DecidableEq, Repr

/-- what the client learns about one position from a FETCH; `none` = a UID contradicting the
    UID already learnt for this position -/
def MEntry.learn (e : MEntry) (f : Option Flags) (u : Option UID) : Option MEntry :=
  if (u.isSome && e.uid.isSome && u != e.uid) then none
  else some { uid := u.or e.uid, flags := f.or e.flags }

namespace Mirror

def apply (m : Mirror) : Resp → Option Mirror
  | .exists n =>
    if n < m.msgs.length then none
    else some { m with msgs := m.msgs ++ List.replicate (n - m.msgs.length) {} }
  | .recent n => if n < m.recentLB then none else some { m with recentLB := n }
  | .expunge seq =>
    if seq = 0 ∨ m.msgs.length < seq then none
    else some { msgs := m.msgs.eraseIdx (seq - 1), recentLB := 0 }
  | .fetch seq f u =>
    if seq = 0 then none else
    match m.msgs[seq - 1]? with
    | none => none
    | some e =>
      match e.learn f u with
      | none => none
      | some e' => some { m with msgs := m.msgs.set (seq - 1) e' }

def applyAll (m : Mirror) : List Resp → Option Mirror
  | [] => some m
  | r :: rs => match m.apply r with
    | none => none
    | some m' => applyAll m' rs

/-- everything the client has learnt is true of the snapshot -/
def entryAgrees (e : MEntry) (s : SMsg) : Bool :=
  (match e.uid with | none => true | some u => u == s.uid) &&
  (match e.flags with | none => true | some f => f == s.flags)

def agree (m : Mirror) (s : Snap) : Bool :=
  m.msgs.length == s.length && (List.zipWith entryAgrees m.msgs s).all id

/-- the mirror of a client that has just selected the mailbox and knows only the count -/
def ofCount (n : Nat) : Mirror := { msgs := List.replicate n {} }

end Mirror
end Gluon
