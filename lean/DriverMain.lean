/- Line-protocol driver: one op per input line, one canonical result line out. Core Lean only. -/
import GluonModel.Generated.Registry

partial def loop (h : IO.FS.Stream) (out : IO.FS.Stream) : IO Unit := do
  let line ← h.getLine
  if line.isEmpty then return ()
  let l := (line.dropEndWhile (fun c => c == '\n' || c == '\r')).toString
  out.putStrLn (Gluon.Driver.step l)
  loop h out

def main : IO Unit := do
  let out ← IO.getStdout
  loop (← IO.getStdin) out
  out.flush
