#!/bin/bash
# Confirm a seeded (adversarial) change in a scratch worktree of /repo HEAD and store it under /verif/seeded/<id>/.
# usage: seed_confirm.sh <id> <property> <patch.diff> <demo_test.go> <dest path in repo> <go test -run regex> <pkg> "<needs: text>"
set -u
id=$1; prop=$2; patch=$3; demo=$4; dest=$5; runre=$6; pkg=$7; needs=$8
export GOFLAGS=-mod=mod GOPROXY=off GOSUMDB=off GOTOOLCHAIN=local
wt=/tmp/seedwt-$id
out=/verif/seeded/$id
rm -rf $wt; git -C /repo worktree prune; git -C /repo worktree add -q $wt HEAD || exit 2
log=$(mktemp)
res() { echo "$1" | tee -a $log; }
cd $wt
if ! git apply --check $patch 2>>$log; then res "APPLY: FAIL"; git -C /repo worktree remove --force $wt; exit 1; fi
git apply $patch; res "APPLY: ok"
if go build ./... >>$log 2>&1; then res "BUILD: ok"; else res "BUILD: FAIL"; fi
suite() { go test -vet=off -count=1 -timeout 15m ./async/... ./connector/... ./imap/... ./internal/... ./rfc5322/... ./rfc822/... ./rfcparser/... ./rfcvalidation/... ./store/... ./tests/ 2>&1 | grep -v "no test files" | grep -v "^ok" ; }
s1=$(suite)
if [ -n "$s1" ]; then echo "$s1" | grep -E "^(--- FAIL|FAIL|panic)" | head -5 >>$log; s1=$(suite); fi
if [ -z "$s1" ]; then res "SUITE-WITH-PATCH: pass"; else res "SUITE-WITH-PATCH: FAIL $(echo "$s1" | grep -E '^--- FAIL' | head -3 | tr '\n' ' ')"; fi
cp $demo $wt/$dest
d1=$(go test ${DEMO_FLAGS:-} -vet=off -count=1 -timeout 5m -run "$runre" $pkg 2>&1 | tail -3 | tr '\n' ' ')
case "$d1" in *FAIL*) res "DEMO-WITH-PATCH: fails (expected)";; *) res "DEMO-WITH-PATCH: PASSES (unexpected) $d1";; esac
git apply -R $patch
d2=$(go test ${DEMO_FLAGS:-} -vet=off -count=1 -timeout 5m -run "$runre" $pkg 2>&1 | tail -3 | tr '\n' ' ')
case "$d2" in *FAIL*) res "DEMO-WITHOUT-PATCH: FAILS (unexpected) $d2";; *ok*) res "DEMO-WITHOUT-PATCH: passes (expected)";; *) res "DEMO-WITHOUT-PATCH: ? $d2";; esac
cd /; git -C /repo worktree remove --force $wt
mkdir -p $out; cp $patch $out/patch.diff; cp $demo $out/$(basename $dest)
python3 - "$id" "$prop" "$dest" "$runre" "$pkg" "$needs" "$log" "$out" <<'PY'
import json,sys,subprocess
id,prop,dest,runre,pkg,needs,log,out=sys.argv[1:]
lines=[l.strip() for l in open(log) if l.strip()]
head=subprocess.run(["git","-C","/repo","rev-parse","--short","HEAD"],capture_output=True,text=True).stdout.strip()
json.dump({"id":id,"breaks_property":prop,"needs_to_manifest":needs,"repo_head_when_confirmed":head,
 "demo":{"file":dest,"cmd":f"go test -vet=off -count=1 -run '{runre}' {pkg}"},
 "confirmation":[l for l in lines if l.split(':')[0] in ("APPLY","BUILD","SUITE-WITH-PATCH","DEMO-WITH-PATCH","DEMO-WITHOUT-PATCH")],
 "detected_by":None},open(out+"/meta.json","w"),indent=1)
PY
rm -f $log
