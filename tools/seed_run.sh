#!/bin/bash
# Run checks against a seeded change WITHOUT touching /repo: worktree of /repo HEAD + patch, copy of /verif whose
# harness is pointed at that worktree. usage: seed_run.sh <seeded id> <prop> [<prop>...]   (env VERIF_SEED optional)
set -u
id=$1; shift
base=/tmp/seedrun-$id
rm -rf $base; mkdir -p $base
git -C /repo worktree prune
git -C /repo worktree add -q $base/repo HEAD || exit 2
( cd $base/repo && git apply /verif/seeded/$id/patch.diff ) || { echo "PATCH DOES NOT APPLY"; git -C /repo worktree remove --force $base/repo; exit 3; }
rsync -a --exclude .git --exclude replay --exclude tmp /verif/ $base/verif/
sed -i "s#=> /repo#=> $base/repo#" $base/verif/harness/go.mod
cd $base/verif
for p in "$@"; do
  out=$(VERIF_REPO=$base/repo ./check $p --tier ${TIER:-quick} 2>&1)
  rc=$?
  echo "== $id $p exit=$rc"
  echo "$out" | grep -E "^(VIOLATION|KNOWN-FINDING)" | cut -c1-160
  echo "$out" | grep -E "^\[check\]    " | head -4 | cut -c1-200
done
cd /; git -C /repo worktree remove --force $base/repo; rm -rf $base
