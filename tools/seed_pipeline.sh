#!/bin/bash
# confirm + run + record one adversarial change.
# usage: seed_pipeline.sh <id> <prop> <dir with patch.diff demo_test.go README.md> <dest file in repo> <run regex> <pkg>
id=$1; prop=$2; dir=$3; dest=$4; runre=$5; pkg=$6
/verif/tools/seed_confirm.sh "$id" "$prop" "$dir/patch.diff" "$dir/demo_test.go" "$dest" "$runre" "$pkg" "see README" > /tmp/seedconfirm-$id.log 2>&1
cp "$dir/README.md" /verif/seeded/$id/README.md 2>/dev/null
/verif/tools/seed_run.sh $id $prop > /tmp/seedrun-$id.log 2>&1
python3 /verif/tools/seed_record.py $id /tmp/seedrun-$id.log > /tmp/seedrecord-$id.log 2>&1
echo "$id: $(grep -E '^(APPLY|BUILD|SUITE|DEMO)' /tmp/seedconfirm-$id.log | cut -d: -f2 | cut -c1-40 | tr '\n' '|') $(cat /tmp/seedrecord-$id.log | cut -c1-200)"
