#!/usr/bin/env python3
"""Regenerates /verif/MANIFEST.json from the table below (the lead edits this table, not the JSON)."""
import json, os, subprocess, sys
VERIF = os.path.dirname(os.path.dirname(os.path.abspath(__file__)))
sys.path.insert(0, VERIF)

TECH = "Lean 4 proof over a hand-written model + correspondence check (differential testing of model vs real code) + facts regenerated from the source"

CLAIMED = {
 "C01": dict(cat="proof", sec="DESIGN.md section 6, C01",
   text="Lean theorems over the responder / flush / Merge model and a client-mirror spec: Merge is sound on every explicable response stream (no panic, same client view); every responder and every flush keeps UIDs strictly ascending and ids distinct; inside named hypotheses (no own .SILENT responder, EXISTS added at the end) every flush of every queue leaves the client's mirror in agreement with the snapshot; CLOSE flushes are silent and cannot panic; the excluded case (insertion in the middle) is proved as a witness; the table of snapshot-mutating call sites is regenerated from the source and decided. Wire-level oracle: client mirror vs FETCH 1:* probes over random multi-session histories.",
   note="Partial: handle/flush explicability is proved under ExistsAtEnd/AllAtEnd (counter-example is a theorem and a known finding on the wire). Trusted: Lean kernel (propext, Classical.choice, Quot.sound), hand-written model tied by differential testing against the real flushResponses/Merge, client-mirror spec, facts translator (go/types), verif hooks. Aliasing of Go maps and the wire rendering are covered by the wire oracle only."),
 "C05": dict(cat="proof", sec="DESIGN.md section 6, C05",
   text="Lean theorems for all snapshots and all responder queues: no EXPUNGE from a permitExpunge=false flush, removals stay queued in order until a permitting flush pops everything, re-adds are held behind their removal, [EXPUNGEISSUED] iff held back; the handler -> permitExpunge table is regenerated from the source and decided. Wire-level oracle: command in progress at every untagged EXPUNGE.",
   note="Trusted: Lean kernel (axioms propext, Classical.choice, Quot.sound only), the hand-written model of flushResponses/popResponders/handle/Merge (tied by differential testing against the real functions), the go/ast facts translator, the verif hooks."),
 "C04": dict(cat="proof", sec="DESIGN.md section 6, C04",
   text="Lean theorems: the UIDVALIDITY generator is strictly increasing for every clock sequence within a process and fails (never wraps) at capacity; across restarts strictly increasing under the named hypothesis ClockAhead, with the burst+restart witness proved; per-mailbox UID assignment (AUTOINCREMENT model) never reuses a UID over all histories of insert/delete/rollback. The real generator is compared relationally (clock interval) with the model.",
   note="Partial: restart monotonicity needs ClockAhead (lastUID is not persisted: known finding). The AUTOINCREMENT model is an assumption about SQLite. Trusted: Lean kernel, model, relational oracle."),
 "C17": dict(cat="other", sec="DESIGN.md section 6, C17",
   text="Partial proof: limits.Check* are sound and complete in 64-bit arithmetic (Lean, all values); over an abstract check-then-insert machine the limits invariant holds for every history under the named hypotheses NoImplicitParents and ChecksInsideTx, and both hypotheses are shown necessary by proved witnesses; the table of Check* call sites is regenerated from the source and decided. The real limits package is compared with the model on boundary values.",
   note="The full property is false of the code as it stands (implicit parents, check outside the write transaction): known findings. Trusted: Lean kernel, model, facts translator."),
 "C18": dict(cat="proof", sec="DESIGN.md section 6, C18",
   text="Lean theorems over a session-protocol model parameterised by the regenerated dispatch table: before LOGIN every gated command is refused with no effect for ALL command sequences; selected-state commands need a selected mailbox; wrong credentials never authenticate; users are isolated over every interleaving of sessions; jail timing arithmetic. The dispatch table, the nil-state guards and maxLoginAttempts are regenerated from internal/session and decided against the RFC classes. The real handleCommand is driven for every payload type in the not-authenticated state.",
   note="Model tied to the real code by the facts translator and by the `dispatch` dialect (not-authenticated state only); authenticated/selected behaviour over the wire is covered by the wire oracle. Trusted: Lean kernel, facts translator, hooks."),
}

def main():
    from checklib.core import load_spec
    hooks = subprocess.run(["git", "-C", "/repo", "log", "--format=%h %s"], capture_output=True, text=True).stdout.splitlines()
    hook_commits = [l.split()[0] for l in hooks if l.split(" ", 1)[1].startswith("verif hooks")]
    checks = []
    for pid in sorted(CLAIMED):
        c = CLAIMED[pid]
        checks.append({
            "property_id": pid,
            "quick_cmd": f"./check {pid} --tier quick",
            "thorough_cmd": f"./check {pid} --tier thorough",
            "evidence_file": f"/verif/evidence/{pid}.json",
            "replay_cmd_template": f"./check {pid} --replay {{path}}",
            "engine": "lean-proof",
            "level_claimed": {"category": c["cat"], "text": c["text"], "design_ref": c["sec"]},
            "level_note": c["note"],
            "technique": c.get("tech", TECH),
        })
    props = [json.loads(l)["id"] for l in open(os.path.join(VERIF, "properties.jsonl"))]
    na = [{"property_id": p, "reason": "check under construction in this round (machinery exists in part; not yet claimed)"} for p in props if p not in CLAIMED]
    m = {
        "version": 1,
        "setup_cmd": "./check --setup",
        "hooks": {
            "guard": "verif",
            "enable": "go build -tags verif (the harness in /verif/harness replaces github.com/ProtonMail/gluon by /repo and is always built with -tags verif)",
            "baseline_off_cmd": "cd /repo && GOFLAGS=-mod=mod go test -vet=off -count=1 -timeout 25m ./...",
            "source_commits": hook_commits,
            "add_only": True,
        },
        "engines": [
            {"name": "lean-proof", "path": "lean/", "serves_properties": sorted(CLAIMED), "kind_free_text": "Lean 4 models, specs, lemmas and property theorems; core-only line-protocol driver (lean_exe)"},
            {"name": "harness", "path": "harness/", "serves_properties": sorted(CLAIMED), "kind_free_text": "Go harness built with -tags verif against /repo: facts translator (go/ast, go/types), generators, implementation runner, wire-level oracles"},
            {"name": "check", "path": "check", "serves_properties": sorted(CLAIMED), "kind_free_text": "python3 driver: build, facts, lake build + axiom audit, correspondence diff, judges, oracles, evidence, verdict"},
        ],
        "checks": checks,
        "not_applicable": na,
        "notes": "See DESIGN.md. known_findings.json lists genuine defects of gluon that are recorded rather than repaired, and the ones repaired by fix: commits.",
    }
    json.dump(m, open(os.path.join(VERIF, "MANIFEST.json"), "w"), indent=1)
    print("MANIFEST.json:", len(checks), "checks;", len(na), "not claimed")

if __name__ == "__main__":
    main()
