#!/usr/bin/env python3
"""Regenerates /verif/MANIFEST.json from the table below (the lead edits this table, not the JSON)."""
import json, os, subprocess, sys
VERIF = os.path.dirname(os.path.dirname(os.path.abspath(__file__)))
sys.path.insert(0, VERIF)

TECH = "Lean 4 proof over a hand-written model + correspondence check (differential testing of model vs real code) + facts regenerated from the source"

CLAIMED = {
 "C01": dict(cat="proof", sec="DESIGN.md section 6, C01",
   text="Lean theorems over the responder / flush / Merge model and a client-mirror spec: Merge is sound on every explicable response stream (no panic, same client view); every responder and every flush keeps UIDs strictly ascending and ids distinct; inside named hypotheses (no own .SILENT responder, EXISTS added at the end) every flush of every queue leaves the client's mirror in agreement with the snapshot; CLOSE flushes are silent and cannot panic; the excluded case (insertion in the middle) is proved as a witness; the table of snapshot-mutating call sites is regenerated from the source and decided. Wire-level oracle: client mirror vs FETCH 1:* probes over random multi-session histories.",
   note="Partial: handle/flush explicability is proved under ExistsAtEnd/AllAtEnd (counter-example is a theorem and a known finding on the wire). Trusted: Lean kernel (propext, Classical.choice, Quot.sound), hand-written model tied by differential testing against the real flushResponses/Merge, client-mirror spec, facts translator (go/types), verif hooks. Aliasing of Go maps and the wire rendering are covered by the wire oracle only."),
 "C05": dict(cat="proof", sec="DESIGN.md section 6, C05",
   text="Lean theorems for all snapshots and all responder queues: no EXPUNGE from a permitExpunge=false flush, removals stay queued in order until a permitting flush pops everything, re-adds are held behind their removal, [EXPUNGEISSUED] iff held back; the handler -> permitExpunge table is regenerated from the source and decided. Wire-level oracle: command in progress at every untagged EXPUNGE.",
   note="Trusted: Lean kernel (axioms propext, Classical.choice, Quot.sound only), the hand-written model of flushResponses/popResponders/handle/Merge (tied by differential testing against the real functions), the go/ast facts translator, the verif hooks."),
 "C04": dict(cat="proof", sec="DESIGN.md section 6, C04",
   text="Lean theorems: the UIDVALIDITY generator is strictly increasing for every clock sequence within a process and fails (never wraps) at capacity; across restarts strictly increasing under the named hypothesis ClockAhead, with the burst+restart witness proved; per-mailbox UID assignment (AUTOINCREMENT model) never reuses a UID over all histories of insert/delete/rollback. The real generator is compared relationally (clock interval) with the model.",
   note="Partial: restart monotonicity needs ClockAhead (lastUID is not persisted: known finding). The AUTOINCREMENT model is an assumption about SQLite. Trusted: Lean kernel, model, relational oracle."),
 "C17": dict(cat="other", sec="DESIGN.md section 6, C17",
   text="Partial proof: limits.Check* are sound and complete in 64-bit arithmetic (Lean, all values); over an abstract check-then-insert machine the limits invariant holds for every history under the named hypotheses NoImplicitParents and ChecksInsideTx, and both hypotheses are shown necessary by proved witnesses; the table of Check* call sites is regenerated from the source and decided. The real limits package is compared with the model on boundary values.",
   note="The full property is false of the code as it stands (implicit parents, check outside the write transaction): known findings. Trusted: Lean kernel, model, facts translator."),
 "C18": dict(cat="proof", sec="DESIGN.md section 6, C18",
   text="Lean theorems over a session-protocol model parameterised by the regenerated dispatch table: before LOGIN every gated command is refused with no effect for ALL command sequences; selected-state commands need a selected mailbox; wrong credentials never authenticate; users are isolated over every interleaving of sessions; jail timing arithmetic. The dispatch table, the nil-state guards and maxLoginAttempts are regenerated from internal/session and decided against the RFC classes. The real handleCommand is driven for every payload type in the not-authenticated state.",
   note="Model tied to the real code by the facts translator and by the `dispatch` dialect (not-authenticated state only); authenticated/selected behaviour over the wire is covered by the wire oracle. Trusted: Lean kernel, facts translator, hooks."),
 "C02": dict(cat="proof", sec="DESIGN.md section 6, C02",
   text="Lean theorems at session level, full strength after the popResponders repair: every admissible change of the authoritative mailbox view, once its responder is queued, keeps the invariant 'replaying the queue on the snapshot gives the view' (change_step); a permitExpunge=false flush at any point keeps it (flush_false_replay_eq: exact snapshot equality), a permitExpunge=true flush realises it (flush_true_converges); hence for every history of changes and every placement of the observer's flushes a final NOOP leaves the snapshot equal to the view modulo \\Recent (converges). UID freshness is derived from the database's no-reuse contract. Wire-level oracle: long-lived view vs fresh EXAMINE after an exact barrier, over random multi-session histories.",
   note="Proved over the responder model (tied by the flush correspondence dialect). The delivery of updates from other parties to the session (commit and broadcast in two transactions, own updates applied at once) is NOT inside the theorem: the wire oracle finds that own commands can overtake earlier foreign updates (known findings, reproduced with withheld updates). Trusted: Lean kernel, model, hooks (barrier, hold)."),
 "C06": dict(cat="proof", sec="DESIGN.md section 6, C06",
   text="Lean theorems over a model of user.apply and every apply* function: every update is acknowledged exactly once and the loop continues (ack_once, pipeline_continues; the Done call sites and the loop shape are regenerated facts); a valid update of each kind has exactly the described effect; a restating update changes nothing and queues no EXISTS/EXPUNGE/FETCH; invalid updates are refused with no effect. Three clauses are partial with named hypotheses and proved witnesses (known findings). Wire-level tie: a scripted connector against a whole server, each acknowledgement under a watchdog, index dump and fresh views compared with the Lean model after every step.",
   note="Partial: MessagesCreated needs NoGhost, protected mailbox needs NotViaMessageUpdated, MessageIDChanged invariant needs InNoMailbox. Trusted: Lean kernel, model (own small abstract index), facts translator, scripted connector."),
 "C07": dict(cat="proof", sec="DESIGN.md section 6, C07",
   text="Lean theorems over a step-list model of every operation (store calls, transaction boundaries, start-up recovery): for every operation and every step boundary, after a crash + recovery the visible state is the before- or the after-state (crash_atomic), every listed message is fetchable with its exact bytes, left-overs are removed; injected errors likewise up to what the error handler commits. The two structural facts the proofs use (one visible transaction; store discipline) are checked on traces recorded from the real operations, and the recovery order is a regenerated fact. Fault enumeration on the real server: a child process is killed or a storage call fails at every recorded boundary, then the restarted server is compared over IMAP and the store directory is audited.",
   note="Only process death and failing storage calls are covered; power loss / fsync and SQLite's own atomicity are trusted. fail_atomic is false for APPEND (known finding). Trusted: Lean kernel, model, interposers, trace judge."),
 "C08": dict(cat="translation_validation", sec="DESIGN.md section 6, C08",
   text="Every method of db.ReadOnly / db.Transaction (69) is modelled statement by statement in Lean and compared with the real SQLite client on generated sessions (transactions committed or aborted after a random prefix, list lengths on both sides of ChunkLimit up to 2500, full database dumps); in addition Lean theorems: chunk_faithful (every chunked operation equals its un-chunked meaning for ALL list lengths; the per-site precondition comes from a regenerated table of all 13 chunk loops), write_rollback / write_commit / read_no_effect, and all SQL texts well-formed (regenerated).",
   note="The implementation<->model leg is differential testing with reported coverage; the chunk, rollback and SQL-text statements are proofs. SQLite itself (atomicity, AUTOINCREMENT, type affinity) is trusted/modelled as assumptions."),
 "C09": dict(cat="proof", sec="DESIGN.md section 6, C09",
   text="Lean theorems over a model of the store file format and of the per-id lock table: Get after Set returns exactly the stored bytes for every content, length, key and nonce (get_set, also at the regenerated block size); ids independent, overwrite, delete, list; wrong key / altered header / altered nonce / any change inside a block are detected (under the AEAD integrity hypothesis); what the format does NOT detect is proved too (block-boundary truncation, block exchange: known findings); per-id reader/writer exclusion for every schedule of the repaired releaseSyncRef. Oracle on the real store: sizes around block multiples, compressibility classes, every structural corruption, concurrent Get/Set/Delete probes.",
   note="AES-GCM and LZ4 enter as explicit hypothesis structures (Laws, AEAD, Unforged, LZ4 sequence laws), never as axioms; OS file API trusted. The lock-table model is tied by source-shape facts and a probe, not step by step."),
 "C10": dict(cat="proof", sec="DESIGN.md section 6, C10",
   text="Lean model of the scanner, every parser primitive and the grammar of all 28 commands (+DONE) with explicit fuel, and a printer; theorems: cmd_roundtrip (every command, all well-formed argument values, every admissible atom/quoted/literal encoding and keyword case parses back to exactly the command, consuming exactly the line), keyword_case_irrelevant, string/number/seq-set/flag-list/date/date-time/search-key (any depth)/fetch-attribute/section/partial round trips. Tied to rfcparser + imap/command by differential testing on grammar-derived commands fed in random chunk sizes; the judge compares parsed = written on the implementation's answer.",
   note="Two exclusions with witness theorems (known findings): '[' inside atoms/tags, list-mailbox written as a literal. Chunking of the byte stream is covered by correspondence only. Trusted: Lean kernel, model, generator."),
 "C11": dict(cat="other", sec="DESIGN.md section 6, C11",
   text="Partial proof: over the parser model, for EVERY input byte string: parsing terminates within fuel linear in the input (parse_terminates, full strength after the quoted-string repair), never panics, ends in a command, a parser error or EOF inside a literal; recursion depth of search keys is bounded by the input length and provably by no constant (depth_unbounded: reported, not excluded); retained bytes bounded at string level. Differential testing on malformed streams (truncation at every offset, flips, oversized numbers, NUL/8-bit, bare CR/LF, unterminated quotes, zero/oversize literals).",
   note="The session loop (one completion per line, 20 errors close, other sessions unaffected) and process-level resource limits (Go stack, memory) are not under theorem here. Trusted: Lean kernel, model."),
 "C12": dict(cat="proof", sec="DESIGN.md section 6, C12",
   text="Lean theorems for ALL byte strings: the boundary scanner and header/body split terminate without panic and every part lies inside its parent (scan_total, split_total, parts_within_parent, sections_within_parent); the parenthesised-list writer's output reads back as exactly one balanced list with the intended shape for every tree of writer calls, so ENVELOPE/BODY/BODYSTRUCTURE are well-formed whatever the address/media-type parsers return (paramlist_wellformed, structure_wellformed, envelope_wellformed; under QuoteOK on the quoting function, checked on every generated case); for built MIME trees the sections and (without embedded multipart messages) the structure are the tree's. Oracle: garbage, mutated and built messages, deep nesting in a child process.",
   note="rfc5322 address/date grammar and mime.ParseMediaType are abstract parameters (crash-freedom of rfc5322 is search only: stack overflow on deep comments is a known finding). Embedded multipart message flattening is a known finding pinned by an existing test."),
 "C13": dict(cat="proof", sec="DESIGN.md section 6, C13",
   text="Lean theorems for every byte string, path, field list and offset: the server's id header is spliced exactly in front of the first header field and removable (splice_exact, splice_removable); RFC822.SIZE is the literal's length; Header ++ Body = literal for every section; BODY[n.m] is a byte range inside its parent; partial <o.n> is drop/take for every parsed offset/count (no panic for parsed numbers, decided from regenerated parser facts); HEADER.FIELDS / .NOT partition the header entries exactly (full strength after the header repair); literal framing announces exactly the bytes that follow. Tied to rfc822 and the FETCH item code by differential testing with a MIME builder and a garbage stream; judges evaluate the relations on the implementation's answers.",
   note="mime.ParseMediaType is an oracle parameter recorded from the real function. Four deviations are known findings (top-level message/rfc822, value starting with a colon, unterminated multipart offset, delimiter transport padding)."),
 "C14": dict(cat="proof", sec="DESIGN.md section 6, C14",
   text="Lean theorems: match_eq_spec for EVERY reference, pattern, delimiter and name (no hypotheses after the four repairs): gluon's regex-based matcher equals the RFC 3501 recursive wildcard spec incl. the trailing-% superior rule; canon, matchRoot, listSuperiors, listInferiors equal their specs; list_exact / lsub_exact: for every Go map iteration order LIST/LSUB select exactly the spec's names with \\Noselect exactly for pure parents; names-level model of CREATE/DELETE/RENAME refines the reference hierarchy model (parents created, inferiors carried, INBOX protected, names unique). The pieces match() and canon() are built from are regenerated facts. Wire oracle: generated namespace histories (sessions + connector) and LIST/LSUB queries against the Lean model, 4 delimiters.",
   note="Strings are modelled as valid UTF-8 char lists, single-character delimiter. Nine namespace deviations found on the wire are known findings. Trusted: Lean kernel, model, facts, wire oracle."),
 "C15": dict(cat="proof", sec="DESIGN.md section 6, C15",
   text="Lean model of Mailbox.Search and every buildSearchOp*, and an RFC 3501 predicate spec; theorems for every key tree and view: results ascending, duplicate-free, a sublist of the view; NOT is the complement, OR the union, lists/juxtaposition the intersection; UID SEARCH returns the UIDs of the same messages; per-key meaning (flags, size, BEFORE/ON by UTC day, body/text substring, envelope keys); search_is_filter under the named Conforming clauses, each with a witness replayed on the server. Wire oracle: generated mailboxes with known data (incl. views still holding messages expunged elsewhere, parallel and serial evaluation) and key trees to depth 6, judged by the Lean model and spec.",
   note="Partial where the server deviates from the RFC (seven known findings: SINCE zone, first-field-only, empty key, unparsable Date, UID key on empty mailbox). Header parsing, x/text decoding and Date parsing are inputs known by construction."),
 "C16": dict(cat="proof", sec="DESIGN.md section 6, C16",
   text="Lean theorems on the whole text-to-messages pipeline, for every input text, view and magnitude: digit strings parse to their value iff it fits 32 bits; the selection equals the RFC 3501 set (each message once, order of first mention) or the command fails; any number beyond the count, however large, is an error and is never mapped to a message (beyond_count_is_error, full strength after the parser repair); UID sets skip absent UIDs; no panic for any input; binary search = lower bound. Which functions may take a message set apart is a regenerated, decided table. Wire oracles: FETCH/STORE/COPY/MOVE/SEARCH/UID EXPUNGE (+UID forms, stale views) judged by the Lean spec.",
   note="Two SEARCH deviations are known findings (number beyond count accepted; UID key on empty mailbox refused). Trusted: Lean kernel, model tied by resolve/seqset-parse dialects and the wire model."),
 "C19": dict(cat="other", sec="DESIGN.md section 6, C19",
   text="Partial proof (partial by nature): Lean transition systems and theorems: QueuedChannel is FIFO and loss-free for every interleaving, its consumer exits after CloseAndDiscardQueued (and State.Close / Server.Close use that variant: regenerated fact) but provably not after plain Close without a reader; generic theorems acyclic_no_deadlock and lockset_no_conflict over unboundedly many threads, instantiated by facts regenerated from the source (lock-order graph acyclic; the four guarded fields accessed only under their lock); the teardown protocol completes under the single assumption that session loops observe Done. Oracles on the real code: queue histories judged against the model, teardown scenarios with goroutine-leak probes; race detector run in the thorough tier (search only).",
   note="Data-race freedom of fields that are unguarded by design and scheduler-dependent liveness are NOT decided by theorem (one race is a known finding). The lock facts are lexical (per lock class, source order)."),
 "C20": dict(cat="proof", sec="DESIGN.md section 6, C20",
   text="Lean theorems over a model of Mailbox.Append / AppendRegular / recovered-message handling with the connector and storage as a failure script, for every script and command sequence: OK [APPENDUID] implies the message is in the target under that UID (append_ok_present) with the exact bytes under named conditions; a non-size rejection leaves the bytes in the recovery mailbox, once per hash (under named hypotheses, each shown necessary by a witness); the recovery mailbox is listed iff non-empty, exists exactly once, is protected in any letter case, and its messages can be copied/moved out. Source facts (hashed header fields, call order, guards) are regenerated and decided. Wire oracle with a failing connector and store against the Lean model.",
   note="Partial: exactly-once recovery needs HashInjectiveOn / NoStorageFaultAfterHashInsert / NoFaultAfterHashErase (four known findings). Single session; connector updates are not delivered during a sequence."),
}

def main():
    from checklib.core import load_spec
    hooks = subprocess.run(["git", "-C", "/repo", "log", "--format=%h %s"], capture_output=True, text=True).stdout.splitlines()
    hook_commits = [l.split()[0] for l in hooks if l.split(" ", 1)[1].startswith("verif hooks")]
    checks = []
    for pid in sorted(CLAIMED):
        c = CLAIMED[pid]
        checks.append({
            "property_id": pid,
            "quick_cmd": f"./check {pid} --tier quick",
            "thorough_cmd": f"./check {pid} --tier thorough",
            "evidence_file": f"/verif/evidence/{pid}.json",
            "replay_cmd_template": f"./check {pid} --replay {{path}}",
            "engine": "lean-proof",
            "level_claimed": {"category": c["cat"], "text": c["text"], "design_ref": c["sec"]},
            "level_note": c["note"],
            "technique": c.get("tech", TECH),
        })
    props = [json.loads(l)["id"] for l in open(os.path.join(VERIF, "properties.jsonl"))]
    na = [{"property_id": p, "reason": "check under construction in this round (machinery exists in part; not yet claimed)"} for p in props if p not in CLAIMED]
    m = {
        "version": 1,
        "setup_cmd": "./check --setup",
        "hooks": {
            "guard": "verif",
            "enable": "go build -tags verif (the harness in /verif/harness replaces github.com/ProtonMail/gluon by /repo and is always built with -tags verif)",
            "baseline_off_cmd": "cd /repo && GOFLAGS=-mod=mod go test -vet=off -count=1 -timeout 25m ./...",
            "source_commits": hook_commits,
            "add_only": True,
        },
        "engines": [
            {"name": "lean-proof", "path": "lean/", "serves_properties": sorted(CLAIMED), "kind_free_text": "Lean 4 models, specs, lemmas and property theorems; core-only line-protocol driver (lean_exe)"},
            {"name": "harness", "path": "harness/", "serves_properties": sorted(CLAIMED), "kind_free_text": "Go harness built with -tags verif against /repo: facts translator (go/ast, go/types), generators, implementation runner, wire-level oracles"},
            {"name": "check", "path": "check", "serves_properties": sorted(CLAIMED), "kind_free_text": "python3 driver: build, facts, lake build + axiom audit, correspondence diff, judges, oracles, evidence, verdict"},
        ],
        "checks": checks,
        "not_applicable": na,
        "notes": "See DESIGN.md. known_findings.json lists genuine defects of gluon that are recorded rather than repaired, and the ones repaired by fix: commits.",
    }
    json.dump(m, open(os.path.join(VERIF, "MANIFEST.json"), "w"), indent=1)
    print("MANIFEST.json:", len(checks), "checks;", len(na), "not claimed")

if __name__ == "__main__":
    main()
