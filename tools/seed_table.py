#!/usr/bin/env python3
"""Rewrites the table of seeded changes in DESIGN.md (between the SEEDED-TABLE markers) from seeded/*/meta.json."""
import json, glob, os, re
V = os.path.dirname(os.path.dirname(os.path.abspath(__file__)))
rows = []
for d in sorted(glob.glob(V + "/seeded/*/")):
    sid = os.path.basename(d.rstrip("/"))
    try: m = json.load(open(d + "meta.json"))
    except Exception: continue
    title = ""
    for name in ("README.md",):
        if os.path.exists(d + name):
            for l in open(d + name):
                l = l.strip().lstrip("#").strip()
                if l: title = l; break
    title = re.sub(r"\s+", " ", title).replace("|", "/")
    if len(title) > 150: title = title[:147] + "…"
    db = m.get("detected_by")
    if isinstance(db, dict):
        st = db.get("violations_by_stage", {})
        names = []
        for k in st:
            k2 = re.sub(r"^C\d\d-", "", k)
            k2 = re.sub(r"-\d+-s\d+$", "", k2)
            k2 = re.sub(r"(-err|-kill|-errhalf|-killhalf|-killnonce)-\d+.*$", "", k2)
            if k2 not in names: names.append(k2)
        how = ", ".join(names[:5]) + (" …" if len(names) > 5 else "")
        if not db.get("caught"): how = "**MISSED**"
        if db.get("note"): how += " — " + db["note"]
    elif isinstance(db, str): how = db
    elif db: how = json.dumps(db)[:200]
    else: how = "(not run yet)"
    rows.append(f"| {sid} | {title} | {how} |")
tab = "| id | change | caught by (quick tier unless noted) |\n|---|---|---|\n" + "\n".join(rows)
p = V + "/DESIGN.md"; s = open(p).read()
b, e = "<!-- SEEDED-TABLE-BEGIN -->", "<!-- SEEDED-TABLE-END -->"
if b in s:
    s = s[:s.index(b) + len(b)] + "\n" + tab + "\n" + s[s.index(e):]
    open(p, "w").write(s)
print(len(rows), "rows;", sum("MISSED" in r for r in rows), "missed;", sum("not run" in r for r in rows), "not run")
