#!/usr/bin/env python3
"""Record in seeded/<id>/meta.json what a tools/seed_run.sh log shows: usage seed_record.py <id> <log> [note]"""
import json, re, sys, subprocess
sid, log = sys.argv[1], sys.argv[2]
note = sys.argv[3] if len(sys.argv) > 3 else None
txt = open(log).read()
runs = re.findall(r"== (\S+) (C\d\d) exit=(\d+)", txt)
viol = re.findall(r"^VIOLATION property=(C\d\d) replay=\S*/replay/(\S+?)(?:-[0-9a-f]{8,}|-\d+-\d+)?\.txt( no-failing-input-found)?", txt, re.M)
stages = {}
for prop, name, nf in viol:
    k = name + (" (no-failing-input-found)" if nf else "")
    stages[k] = stages.get(k, 0) + 1
details = [l.strip()[10:].strip() for l in txt.splitlines() if l.startswith("[check]    ")][:4]
m = json.load(open(f"/verif/seeded/{sid}/meta.json"))
head = subprocess.run(["git", "-C", "/repo", "rev-parse", "--short", "HEAD"], capture_output=True, text=True).stdout.strip()
old = m.get("detected_by")
m["detected_by"] = {"runs": [{"property": p, "exit": int(e)} for _, p, e in runs], "caught": any(e != "0" for _, _, e in runs),
                    "violations_by_stage": stages, "first_details": details, "repo_head": head}
if note: m["detected_by"]["note"] = note
elif isinstance(old, dict) and old.get("note"): m["detected_by"]["note"] = old["note"]
elif isinstance(old, str) and old: m["detected_by"]["note"] = "earlier record: " + old
json.dump(m, open(f"/verif/seeded/{sid}/meta.json", "w"), indent=1)
print(sid, "caught" if m["detected_by"]["caught"] else "MISSED", stages)
