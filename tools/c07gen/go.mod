module c07gen

go 1.21
