// Command vh is the verification harness for gluon (built with -tags verif against /repo).
//
//	vh gen <dialect> -seed S -n N [-stats file]   write op lines for a dialect to stdout
//	vh impl                                       run op lines from stdin on the real code, one result line each
//	vh facts <outdir>                             regenerate Lean fact files from /repo's source
//	vh oracle <name> [flags]                      run a property oracle on the real code
package main

import (
	"bufio"
	"encoding/json"
	"flag"
	"fmt"
	"io"
	"os"
	"sort"
	"strings"
)

// Stats collects the input distribution a generator produced (goes into the evidence).
type Stats struct {
	Counts map[string]int `json:"counts"`
}

func (s *Stats) Inc(k string) { s.Counts[k]++ }
func (s *Stats) Add(k string, n int) { s.Counts[k] += n }

type Dialect struct {
	Name string
	// Impl runs one op (the words after the dialect name) on the real code and returns the canonical result line.
	Impl func(args []string) string
	// Gen writes n op lines (including the dialect name) to w.
	Gen func(r *Rng, n int, w io.Writer, st *Stats)
}

var dialects = map[string]*Dialect{}

func Register(d *Dialect) { dialects[d.Name] = d }

type Oracle struct {
	Name string
	Run  func(args []string) int
}

var oracles = map[string]*Oracle{}

func RegisterOracle(o *Oracle) { oracles[o.Name] = o }

func runImplLine(line string) (out string) {
	defer func() {
		if p := recover(); p != nil {
			out = fmt.Sprintf("harness-panic %v", p)
		}
	}()
	words := strings.Split(line, " ")
	d, ok := dialects[words[0]]
	if !ok || d.Impl == nil {
		return "bad-dialect"
	}
	return d.Impl(words[1:])
}

func main() {
	if len(os.Args) < 2 {
		fmt.Fprintln(os.Stderr, "usage: vh gen|impl|facts|oracle ...")
		os.Exit(2)
	}
	switch os.Args[1] {
	case "impl":
		in := bufio.NewReaderSize(os.Stdin, 1<<20)
		out := bufio.NewWriterSize(os.Stdout, 1<<20)
		defer out.Flush()
		for {
			line, err := in.ReadString('\n')
			line = strings.TrimRight(line, "\r\n")
			if line != "" || err == nil {
				if line != "" {
					fmt.Fprintln(out, runImplLine(line))
					out.Flush()
				}
			}
			if err != nil {
				break
			}
		}
	case "gen":
		if len(os.Args) < 3 {
			fmt.Fprintln(os.Stderr, "usage: vh gen <dialect> -seed S -n N")
			os.Exit(2)
		}
		d, ok := dialects[os.Args[2]]
		if !ok || d.Gen == nil {
			fmt.Fprintln(os.Stderr, "unknown dialect", os.Args[2])
			os.Exit(2)
		}
		fs := flag.NewFlagSet("gen", flag.ExitOnError)
		seed := fs.Uint64("seed", 1, "seed")
		n := fs.Int("n", 1000, "number of ops")
		statsFile := fs.String("stats", "", "write generator statistics (JSON) to this file")
		_ = fs.Parse(os.Args[3:])
		st := &Stats{Counts: map[string]int{}}
		out := bufio.NewWriterSize(os.Stdout, 1<<20)
		d.Gen(NewRng(*seed), *n, out, st)
		out.Flush()
		if *statsFile != "" {
			b, _ := json.Marshal(st)
			_ = os.WriteFile(*statsFile, b, 0o644)
		}
	case "facts":
		if len(os.Args) < 4 {
			fmt.Fprintln(os.Stderr, "usage: vh facts <repo> <outdir>")
			os.Exit(2)
		}
		os.Exit(runFacts(os.Args[2], os.Args[3]))
	case "oracle":
		if len(os.Args) < 3 {
			names := []string{}
			for k := range oracles {
				names = append(names, k)
			}
			sort.Strings(names)
			fmt.Fprintln(os.Stderr, "usage: vh oracle <name> ...; oracles:", names)
			os.Exit(2)
		}
		o, ok := oracles[os.Args[2]]
		if !ok {
			fmt.Fprintln(os.Stderr, "unknown oracle", os.Args[2])
			os.Exit(2)
		}
		os.Exit(o.Run(os.Args[3:]))
	default:
		fmt.Fprintln(os.Stderr, "unknown subcommand", os.Args[1])
		os.Exit(2)
	}
}
