package main

// Facts/SnapMut.lean (C01): every place in internal/state that mutates a session snapshot, directly
// (assignment to a field of snapMsg / snapMsgList / snapshot, State.snap, in-place FlagSet methods
// on a snapshot message's flags) or by calling a mutating method of snapMsgList / snapshot — reported
// for the *users* of those two types (callers that are not themselves methods of them).

import (
	"fmt"
	"go/ast"
	"go/types"
	"sort"
	"strings"
)

func init() { factGens = append(factGens, factGen{"SnapMut", factsSnapMut}) }

func factsSnapMut(c *factsCtx, outdir string) error {
	tp, err := c.typed("internal/state")
	if err != nil {
		return err
	}
	structFields := func(name string) map[types.Object]string {
		out := map[types.Object]string{}
		obj := tp.pkg.Scope().Lookup(name)
		if obj == nil {
			return out
		}
		st, ok := obj.Type().Underlying().(*types.Struct)
		if !ok {
			return out
		}
		for i := 0; i < st.NumFields(); i++ {
			out[st.Field(i)] = name + "." + st.Field(i).Name()
		}
		return out
	}
	guarded := map[types.Object]string{}
	for _, n := range []string{"snapMsg", "snapMsgList", "snapshot"} {
		for k, v := range structFields(n) {
			guarded[k] = v
		}
	}
	for k, v := range structFields("State") {
		if v == "State.snap" {
			guarded[k] = v
		}
	}
	if len(guarded) < 8 {
		return fmt.Errorf("snapshot types not found (snapMsg/snapMsgList/snapshot/State.snap): %d fields", len(guarded))
	}
	flagsField := ""
	for _, v := range guarded {
		if v == "snapMsg.flags" {
			flagsField = v
		}
	}
	if flagsField == "" {
		return fmt.Errorf("snapMsg.flags not found")
	}
	inplace := map[string]bool{"AddToSelf": true, "AddFlagSetToSelf": true, "RemoveFromSelf": true, "SetOnSelf": true, "RemoveFlagSetFromSelf": true}

	// selField: the guarded field a selector expression denotes, "" if none
	selField := func(e ast.Expr) string {
		se, ok := e.(*ast.SelectorExpr)
		if !ok {
			return ""
		}
		if sel := tp.info.Selections[se]; sel != nil {
			return guarded[sel.Obj()]
		}
		return ""
	}
	type site struct {
		file   string
		line   int
		caller string
		what   string
	}
	var prim []site
	type callEdge struct {
		file   string
		line   int
		caller string
		callee *types.Func
	}
	var calls []callEdge
	declOf := map[*types.Func]string{} // package-local funcs -> qualified name
	for _, f := range tp.files {
		for _, d := range f.Decls {
			fd, ok := d.(*ast.FuncDecl)
			if !ok || fd.Body == nil {
				continue
			}
			if fn, ok := tp.info.Defs[fd.Name].(*types.Func); ok {
				declOf[fn] = funcQualName(fd)
			}
		}
	}
	for _, f := range tp.files {
		for _, d := range f.Decls {
			fd, ok := d.(*ast.FuncDecl)
			if !ok || fd.Body == nil {
				continue
			}
			caller := funcQualName(fd)
			add := func(n ast.Node, what string) {
				file, line := c.pos(n.Pos())
				prim = append(prim, site{file, line, caller, what})
			}
			lhs := func(e ast.Expr) {
				// any prefix of a selector chain that denotes a guarded field (snap.mboxID.RemoteID = ...)
				for cur := e; ; {
					if w := selField(cur); w != "" {
						add(e, "assign "+w)
						break
					}
					se, ok := cur.(*ast.SelectorExpr)
					if !ok {
						break
					}
					cur = se.X
				}
				if ix, ok := e.(*ast.IndexExpr); ok {
					if w := selField(ix.X); w != "" {
						add(e, "assign "+w+"[]")
					}
				}
			}
			ast.Inspect(fd.Body, func(n ast.Node) bool {
				switch n := n.(type) {
				case *ast.AssignStmt:
					for _, l := range n.Lhs {
						lhs(l)
					}
				case *ast.IncDecStmt:
					lhs(n.X)
				case *ast.CallExpr:
					if id, ok := n.Fun.(*ast.Ident); ok && id.Name == "delete" && len(n.Args) == 2 {
						if w := selField(n.Args[0]); w != "" {
							add(n, "delete "+w)
						}
					}
					if se, ok := n.Fun.(*ast.SelectorExpr); ok {
						if inplace[se.Sel.Name] && selField(se.X) == "snapMsg.flags" {
							add(n, "inplace snapMsg.flags."+se.Sel.Name)
						}
						if sel := tp.info.Selections[se]; sel != nil {
							if fn, ok := sel.Obj().(*types.Func); ok {
								if _, local := declOf[fn]; local {
									file, line := c.pos(n.Pos())
									calls = append(calls, callEdge{file, line, caller, fn})
								}
							}
						}
					}
					if id, ok := n.Fun.(*ast.Ident); ok {
						if fn, ok := tp.info.Uses[id].(*types.Func); ok {
							if _, local := declOf[fn]; local {
								file, line := c.pos(n.Pos())
								calls = append(calls, callEdge{file, line, caller, fn})
							}
						}
					}
				}
				return true
			})
		}
	}
	own := func(q string) bool { return strings.HasPrefix(q, "snapMsgList.") || strings.HasPrefix(q, "snapshot.") }
	mut := map[string]bool{}
	for _, p := range prim {
		if own(p.caller) {
			mut[p.caller] = true
		}
	}
	for changed := true; changed; {
		changed = false
		for _, e := range calls {
			if mut[declOf[e.callee]] && own(e.caller) && !mut[e.caller] {
				mut[e.caller] = true
				changed = true
			}
		}
	}
	var sites []site
	for _, p := range prim {
		if !own(p.caller) {
			sites = append(sites, p)
		}
	}
	for _, e := range calls {
		if mut[declOf[e.callee]] && !own(e.caller) {
			sites = append(sites, site{e.file, e.line, e.caller, "call " + declOf[e.callee]})
		}
	}
	sort.Slice(sites, func(i, j int) bool {
		if sites[i].file != sites[j].file {
			return sites[i].file < sites[j].file
		}
		if sites[i].line != sites[j].line {
			return sites[i].line < sites[j].line
		}
		return sites[i].what < sites[j].what
	})
	var muts []string
	for m := range mut {
		muts = append(muts, m)
	}
	sort.Strings(muts)
	var b strings.Builder
	b.WriteString("namespace Gluon.Facts\n\nstructure SnapMutSite where\n  file : String\n  line : Nat\n  caller : String\n  what : String\nderiving DecidableEq, Repr\n\n")
	b.WriteString("/-- every use, outside snapMsgList/snapshot's own methods, of something that mutates a snapshot -/\ndef snapMutSites : List SnapMutSite := [\n")
	for i, s := range sites {
		sep := ","
		if i == len(sites)-1 {
			sep = ""
		}
		fmt.Fprintf(&b, "  { file := %s, line := %d, caller := %s, what := %s }%s\n", leanStr(s.file), s.line, leanStr(s.caller), leanStr(s.what), sep)
	}
	b.WriteString("]\n\n/-- methods of snapMsgList / snapshot that mutate (transitively) -/\ndef snapMutators : List String := [")
	for i, m := range muts {
		if i > 0 {
			b.WriteString(", ")
		}
		b.WriteString(leanStr(m))
	}
	b.WriteString("]\n\nend Gluon.Facts\n")
	return writeLean(outdir, "SnapMut.lean", b.String())
}
